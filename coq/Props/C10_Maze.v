(* C10 Maze / recursive-division generator.
   (a) reset from valid draws (two distinct flat indices of free cells, as returned by choice(replace=False, p=~walls)):
       the state is Physical, agent <> target, counter 0; if the walls are Connected the agent is linked to the target
       and the origin is free.
   (b) the BFS checker run on every generated maze is sound: connected_b = true => origin free and EVERY free cell
       reachable from (0,0) (hence all free cells mutually reachable).
   (c) generator model over explicit draws, ALL sizes, ALL valid draw sequences of any length: the grid keeps its shape
       and every (even, even) cell -- in particular the origin -- is free (walls only on odd lines).
   (d) generator model, ALL sizes >= 1x1, ALL valid draw sequences -- UNCONDITIONAL (Proofs/Maze_GenTotal.v):
       - the fixed-capacity chamber stack (create_chambers_stack: width*height rows) never overflows: the live chambers
         have total area <= width*height and area >= 2 each, so #live + 1 <= capacity before every iteration ([cap_ok]);
         on 1x1 (capacity 1) the conservative [cap_ok] is false but the single iteration pushes nothing;
       - the loop terminates: the total live area drops by >= 1 per iteration, so width*height draws always suffice;
         the finer measure (w/2)*(h/2) per chamber gives the tight fuel gen_fuel = max 1 ((width/2)*(height/2))
         (attained e.g. on 2x4; the harness checks the real loop against it; draws beyond the last iteration are left over);
       - the generated maze is Connected (origin free, every free cell reachable from (0,0)).
       1x1 is not an exception: the result is the single free cell.
   (e) Maze reset on a generated maze: Physical, agent off the target and LINKED to it by a path of free cells. *)
Require Import JV.Base.Prelude JV.Base.JaxIndex JV.Base.Codec JV.Base.TimeStep JV.Model.MazeGen JV.Model.Maze JV.Proofs.MazeGen JV.Proofs.MazeGenConn JV.Proofs.Maze JV.Proofs.Maze_GenTotal.
Theorem C10_Maze_reset_wellformed rows cols w i1 i2 :
  0 < cols -> wf_walls rows cols w -> valid_draw rows cols w i1 i2 = true ->
  let s := fst (gen_init rows cols w i1 i2) in
  Physical rows cols s /\ ~ at_target s /\ sc s = 0
  /\ (Connected rows cols w -> linked rows cols s /\ free rows cols w 0 0).
Proof. exact (gen_init_wf rows cols w i1 i2). Qed.
Print Assumptions C10_Maze_reset_wellformed.
Theorem C10_MazeGen_checker_sound_connected rows cols w :
  connected_b rows cols w = true -> Connected rows cols w.
Proof. exact (connected_b_sound rows cols w). Qed.
Print Assumptions C10_MazeGen_checker_sound_connected.
Theorem C10_MazeGen_all_pairs rows cols w p q :
  Connected rows cols w -> free rows cols w (fst p) (snd p) -> free rows cols w (fst q) (snd q) -> reach rows cols w p q.
Proof. exact (connected_all rows cols w p q). Qed.
Theorem C10_MazeGen_even_cells_free width height draws :
  0 <= width -> 0 <= height -> draws_valid (gen_start width height) draws = true ->
  let m := maze (fst (generate_maze width height draws)) in
  wf_walls height width m /\
  forall r c, 0 <= r < height -> 0 <= c < width -> Z.even r = true -> Z.even c = true -> free height width m r c.
Proof. exact (generate_maze_even_free width height draws). Qed.
Print Assumptions C10_MazeGen_even_cells_free.
Theorem C10_MazeGen_origin_free width height draws :
  0 < width -> 0 < height -> draws_valid (gen_start width height) draws = true ->
  free height width (maze (fst (generate_maze width height draws))) 0 0.
Proof. exact (generate_maze_origin_free width height draws). Qed.
Theorem C10_MazeGen_stack_never_overflows width height draws :
  1 <= width -> 1 <= height -> (2 <= width \/ 2 <= height) ->
  draws_valid (gen_start width height) draws = true -> cap_ok (gen_start width height) draws = true.
Proof. exact (generate_maze_cap_ok width height draws). Qed.
Print Assumptions C10_MazeGen_stack_never_overflows.
Theorem C10_MazeGen_terminates width height draws :
  1 <= width -> 1 <= height -> (2 <= width \/ 2 <= height) ->
  draws_valid (gen_start width height) draws = true -> width * height <= zlen draws ->
  sidx (fst (generate_maze width height draws)) = 0.
Proof. exact (generate_maze_terminates width height draws). Qed.
Print Assumptions C10_MazeGen_terminates.
Theorem C10_MazeGen_terminates_tight width height draws :
  1 <= width -> 1 <= height ->
  draws_valid (gen_start width height) draws = true -> gen_fuel width height <= zlen draws ->
  sidx (fst (generate_maze width height draws)) = 0.
Proof. exact (generate_maze_terminates_tight width height draws). Qed.
Print Assumptions C10_MazeGen_terminates_tight.
Theorem C10_MazeGen_fuel width height :
  gen_fuel width height = Z.max 1 ((width / 2) * (height / 2)) /\ (1 <= width -> 1 <= height -> gen_fuel width height <= width * height).
Proof. exact (conj eq_refl (gen_fuel_le width height)). Qed.
Theorem C10_MazeGen_leftover_draws_ignored g draws extra :
  sidx (fst (gen_loop g draws)) = 0 -> fst (gen_loop g (draws ++ extra)) = fst (gen_loop g draws).
Proof. exact (gen_loop_app draws g extra). Qed.
Theorem C10_MazeGen_connected width height draws :
  1 <= width -> 1 <= height ->
  draws_valid (gen_start width height) draws = true -> gen_fuel width height <= zlen draws ->
  sidx (fst (generate_maze width height draws)) = 0
  /\ Connected height width (maze (fst (generate_maze width height draws))).
Proof. exact (generate_maze_connected_total width height draws). Qed.
Print Assumptions C10_MazeGen_connected.
Theorem C10_MazeGen_connected_when_finished width height draws :
  1 <= width -> 1 <= height ->
  draws_valid (gen_start width height) draws = true ->
  sidx (fst (generate_maze width height draws)) = 0 ->
  Connected height width (maze (fst (generate_maze width height draws))).
Proof. exact (generate_maze_connected_finished width height draws). Qed.
Print Assumptions C10_MazeGen_connected_when_finished.
Theorem C10_MazeGen_1x1 :
  cap_ok (gen_start 1 1) [(1, 0)] = false /\ sidx (fst (generate_maze 1 1 [(1, 0)])) = 0.
Proof. exact cap_ok_1x1_conservative. Qed.
Theorem C10_Maze_generated_reset_linked rows cols draws i1 i2 :
  1 <= rows -> 1 <= cols ->
  draws_valid (gen_start cols rows) draws = true -> gen_fuel cols rows <= zlen draws ->
  let w := maze (fst (generate_maze cols rows draws)) in
  valid_draw rows cols w i1 i2 = true ->
  let s := fst (gen_init rows cols w i1 i2) in
  wf_walls rows cols w /\ Connected rows cols w
  /\ Physical rows cols s /\ ~ at_target s /\ sc s = 0 /\ linked rows cols s.
Proof. exact (generated_reset_linked rows cols draws i1 i2). Qed.
Print Assumptions C10_Maze_generated_reset_linked.
Example C10_Maze_nonvacuous :
  let g := generate_maze 4 4 [(1, 0); (3, 0); (1, 0)] in
  draws_valid (gen_start 4 4) [(1, 0); (3, 0); (1, 0)] = true /\ cap_ok (gen_start 4 4) [(1, 0); (3, 0); (1, 0)] = true /\ sidx (fst g) = 0 /\ snd g = []
  /\ maze (fst g) = [[false;false;false;false];[false;true;false;true];[false;true;false;false];[false;true;false;true]]
  /\ connected_b 4 4 (maze (fst g)) = true /\ valid_draw 4 4 (maze (fst g)) 3 12 = true
  /\ valid_draw 4 4 (maze (fst g)) 3 3 = false /\ valid_draw 4 4 (maze (fst g)) 5 3 = false
  /\ connected_b 2 2 [[false;true];[true;false]] = false.
Proof. vm_compute. repeat split; reflexivity. Qed.
(* the hypotheses of the unconditional theorem are satisfiable (the tail of the draws is left over); the fuel bound is
   attained on a 4x2 grid (width 2, height 4): two iterations *)
Example C10_MazeGen_connected_nonvacuous :
  let draws := [(1, 0); (3, 0); (1, 0)] ++ repeat (0, 0) 13 in
  gen_fuel 4 4 = 4 /\ gen_fuel 2 4 = 2 /\ sidx (fst (generate_maze 2 4 [(1, 0)])) = 1 /\ sidx (fst (generate_maze 2 4 [(1, 0); (1, 0)])) = 0
  /\ draws_valid (gen_start 2 4) [(1, 0); (1, 0)] = true
  /\ draws_valid (gen_start 4 4) draws = true /\ gen_fuel 4 4 <= zlen draws /\ zlen (snd (generate_maze 4 4 draws)) = 13
  /\ valid_draw 4 4 (maze (fst (generate_maze 4 4 draws))) 3 12 = true.
Proof. vm_compute. repeat split; try reflexivity; discriminate. Qed.
