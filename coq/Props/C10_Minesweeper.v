(* C10 Minesweeper: the generator, as a function of the explicit draw of jax.random.choice(rows*cols, (num_mines,),
   replace=False): given the sampler's contract (valid_draw: num_mines DISTINCT flat locations inside the board -- checked on
   every reset state of the implementation by the harness) the reset state stores exactly that draw, all squares unexplored,
   and exactly num_mines squares of the board are mined.  (Dependence on the key is checked on the implementation.) *)
Require Import JV.Base.Prelude JV.Base.JaxIndex JV.Base.Codec JV.Base.TimeStep JV.Model.Minesweeper.
Require Import JV.Proofs.Minesweeper_lists JV.Proofs.Minesweeper_count JV.Proofs.Minesweeper.
Theorem C10_Minesweeper_reset_mines rows cols nm locs :
  0 < cols -> valid_draw rows cols nm locs = true ->
  mines (fst (init rows cols locs)) = locs /\ NoDup locs /\ zlen locs = nm /\ in_board rows cols locs
  /\ mined_squares rows cols locs = nm.
Proof. exact (init_mines rows cols nm locs). Qed.
Print Assumptions C10_Minesweeper_reset_mines.
Theorem C10_Minesweeper_reset_wellformed rows cols nm locs :
  0 <= rows -> 0 <= cols -> valid_draw rows cols nm locs = true -> Phys rows cols nm (fst (init rows cols locs)).
Proof. exact (init_Phys rows cols nm locs). Qed.
Theorem C10_Minesweeper_checker rows cols nm ms : valid_draw rows cols nm ms = true <-> mines_ok rows cols nm ms.
Proof. exact (valid_draw_spec rows cols nm ms). Qed.
Print Assumptions C10_Minesweeper_checker.
Example C10_Minesweeper_nonvacuous :
  valid_draw 2 3 2 [1; 5] = true /\ mined_squares 2 3 [1; 5] = 2
  /\ valid_draw 2 3 2 [1; 1] = false /\ mined_squares 2 3 [1; 1] = 1 /\ valid_draw 2 3 2 [1; 6] = false.
Proof. vm_compute. repeat split; reflexivity. Qed.
