(* C10 Minesweeper over the SOURCE-TRANSLATED reset (Gen/MinesweeperSrc.v: reset after the generator call; the sampler create_flat_mine_locations
   is an input with the contract valid_draw): for every board size and every valid draw the state reset hands out is physically consistent,
   carries exactly the drawn mines, and comes with a FIRST timestep. *)
Require Import JV.Base.Prelude JV.Base.JaxIndex JV.Base.Codec JV.Base.TimeStep JV.Gen.TimeStepSrc JV.Gen.MinesweeperSrc JV.Proofs.Minesweeper_lists JV.Proofs.Minesweeper_count JV.Proofs.Minesweeper JV.Proofs.Minesweeper_Src.
Require JV.Model.Minesweeper.
Theorem C10_Minesweeper_Source_reset_wellformed rows cols nm locs : 0 <= rows -> 0 <= cols -> JV.Model.Minesweeper.valid_draw rows cols nm locs = true ->
  let s0 := fst (reset_from nm (mkState (repeat (repeat (-1) (Z.to_nat cols)) (Z.to_nat rows)) 0 locs)) in
  Phys rows cols nm (conv s0) /\ s_flat_mine_locations s0 = locs
  /\ first_ok 1 (snd (reset_from nm (mkState (repeat (repeat (-1) (Z.to_nat cols)) (Z.to_nat rows)) 0 locs))) = true.
Proof. exact (src_reset_wellformed rows cols nm locs). Qed.
Print Assumptions C10_Minesweeper_Source_reset_wellformed.
