(* C10 MMST (SplitRandomGenerator).  PARTIAL: the random generator pieces (utils.random_walk, merge_graphs) are modelled
   over explicit draws and tied to the code by correspondence only; solvability is certified PER INSTANCE by a verified
   checker that the harness runs on every generated instance:
   instance_ok_b = symmetric loop-free 0/1 adjacency, each block of array_split(arange N, A) induces a connected graph,
   each agent's K distinct required nodes lie in its own block.  The theorem says what a passing certificate means.
   Missing for the full statement: "for ALL draws the generated graph passes the certificate" (walk/merge invariants).
   The advertised "max_degree" and "num_edges" are REFUTED by the faithful model (off-by-one test in add_edge; the
   order-dependent Cantor code lets (b,a) in after (a,b)). *)
Require Import JV.Base.Prelude JV.Base.JaxIndex JV.Base.Codec JV.Base.TimeStep JV.Model.Mmst JV.Proofs.Mmst_lib JV.Proofs.Mmst JV.Proofs.Mmst_Episode JV.Proofs.Mmst_Obs JV.Proofs.Mmst_Gen JV.Proofs.Mmst_Examples.
Theorem C10_Mmst_certificate_solvable_partial A N K adj comps :
  0 < A -> 0 <= N -> instance_ok_b A N K adj comps = true ->
  forall a, 0 <= a < A ->
    zlen (znth [] comps a) = K /\
    forall k, In k (znth [] comps a) ->
      0 <= k < N /\ in_block A N a k = true
      /\ conn_from (fun i j => gat 0 adj i j =? 1) (in_block A N a) (split_lo A N a) k.
Proof. exact (instance_solvable A N K adj comps). Qed.
Print Assumptions C10_Mmst_certificate_solvable_partial.
Theorem C10_Mmst_blocks_disjoint A N a b v : 0 < A -> 0 <= N -> 0 <= a -> 0 <= b ->
  in_block A N a v = true -> in_block A N b v = true -> a = b.
Proof. exact (blocks_disjoint A N a b v). Qed.
Theorem C10_Mmst_symmetric N adj : sym_loopless_b N adj = true ->
  forall i j, 0 <= i < N -> 0 <= j < N -> gat 0 adj i i = 0 /\ gat 0 adj i j = gat 0 adj j i /\ (gat 0 adj i j = 0 \/ gat 0 adj i j = 1).
Proof. exact (sym_loopless_sound N adj). Qed.
Theorem C10_Mmst_max_degree_refuted :
  exists n ne maxd start wd ed, let g := random_walk n ne maxd start wd ed in
    maxd < max_degree_of n (adj_of_edges n (g_edges g)).
Proof. exact degree_bound_refuted. Qed.
Theorem C10_Mmst_num_edges_refuted :
  exists n ne maxd start wd ed, let g := random_walk n ne maxd start wd ed in
    zlen (g_edges g) = ne /\ num_edges_of n (adj_of_edges n (g_edges g)) < ne.
Proof. exact num_edges_refuted. Qed.
Print Assumptions C10_Mmst_num_edges_refuted.
Example C10_Mmst_nonvacuous : instance_ok_b 2 6 2 ex_adj ex_comps = true.
Proof. exact ex_instance_ok. Qed.
