(* C10 MMST (SplitRandomGenerator).
   The generator is modelled over explicit draws: Model/Mmst.v has the pieces utils.random_walk / correct_graph_offset /
   merge_graphs (each tied to the code by correspondence on draws recovered from the real key stream), Proofs/Mmst_GenAll.v
   composes them as utils.multi_random_walk does ([gen_graph]; the per-stage edge-count targets are free parameters).
   Certificate: instance_ok_b = symmetric loop-free 0/1 adjacency, each block of array_split(arange N, A) induces a connected
   graph, each agent's K distinct required nodes lie in its own block.
   PROVED (all sizes, ALL valid draws):  0 < A <= N  and  ceil(N/A) - 2 <= max_degree  =>  the generated instance passes the
   certificate, hence is solvable block by block ([C10_Mmst_generated_solvable], [C10_Mmst_generated_certificate]).
   Valid draws ([gen_valid_b]): ranges of randint / choice, distinct pairs (choice without replacement), the cross edge joins
   the graph built so far to the new block, the spanning loop has exited (every node of the block marked).  No hypothesis on
   num_edges is needed (connectivity comes from the spanning walk; later stages only append edges); the generator's own
   assertion K*A <= 0.8 N only makes valid [comps] draws exist.
   PROVED for ALL valid draws with NO hypothesis on max_degree / num_edges ([C10_Mmst_generated_wf]): node_edges is an N x N
   table consistent with the adjacency matrix, the instance is well-formed and its reset state satisfies the invariant [Inv]
   (so the step theorems C04/C05/C06/C11/C12 apply to every generated instance, also to the defective ones below).
   REFUTED without the hypothesis on max_degree ([C10_Mmst_generated_solvable_refuted], default sizes N=36 A=3 max_degree=5):
   add_edge refuses an edge when an endpoint already has degree > max_degree; random_walk then still moves to the unmarked
   node, and the next unmarked neighbour (possibly the node itself: a SELF LOOP) is linked to it and marked: the block is
   disconnected although every node is marked.  Reproduced on the real code: MMST().reset(PRNGKey(60800)) (about 1 reset in
   6000 of the default environment).
   The advertised "max_degree" and "num_edges" are REFUTED by the faithful model (off-by-one test in add_edge; the
   order-dependent Cantor code lets (b,a) in after (a,b)). *)
Require Import JV.Base.Prelude JV.Base.JaxIndex JV.Base.Codec JV.Base.TimeStep JV.Model.Mmst JV.Proofs.Mmst_lib JV.Proofs.Mmst JV.Proofs.Mmst_Episode JV.Proofs.Mmst_Obs JV.Proofs.Mmst_Gen JV.Proofs.Mmst_Init JV.Proofs.Mmst_Examples JV.Proofs.Mmst_GenWalk JV.Proofs.Mmst_GenAll JV.Proofs.Mmst_GenBase JV.Proofs.Mmst_InstWf.
Theorem C10_Mmst_generated_certificate A N maxd :
  0 < A -> A <= N -> (N + A - 1) / A - 2 <= maxd ->
  forall K subs ms comps,
    gen_valid_b A N maxd subs ms = true -> comps_ok_b A N K comps = true ->
    instance_ok_b A N K (adj_of_edges N (g_edges (gen_graph A N maxd subs ms))) comps = true.
Proof. exact (gen_instance_ok A N maxd). Qed.
Print Assumptions C10_Mmst_generated_certificate.
Theorem C10_Mmst_generated_solvable A N maxd :
  0 < A -> A <= N -> (N + A - 1) / A - 2 <= maxd ->
  forall K subs ms comps,
    gen_valid_b A N maxd subs ms = true -> comps_ok_b A N K comps = true ->
    let adj := adj_of_edges N (g_edges (gen_graph A N maxd subs ms)) in
    forall a, 0 <= a < A ->
      zlen (znth [] comps a) = K /\
      forall k, In k (znth [] comps a) ->
        0 <= k < N /\ in_block A N a k = true
        /\ conn_from (fun i j => gat 0 adj i j =? 1) (in_block A N a) (split_lo A N a) k.
Proof. exact (gen_solvable A N maxd). Qed.
Print Assumptions C10_Mmst_generated_solvable.
Theorem C10_Mmst_generated_solvable_refuted :
  gen_valid_b 3 36 5 bad_subs bad_ms = true /\
  let adj := adj_of_edges 36 (g_edges (gen_graph 3 36 5 bad_subs bad_ms)) in
  blocks_connected_b 3 36 adj = false /\ sym_loopless_b 36 adj = false /\ gat 0 adj 7 7 = 1.
Proof. exact gen_not_solvable_refuted. Qed.
Print Assumptions C10_Mmst_generated_solvable_refuted.
Theorem C10_Mmst_walk_connected maxd n start :
  0 < n -> n - 2 <= maxd ->
  forall ne wd ed, 0 <= start < n -> Forall (fun d => 0 <= d < n) wd -> Forall (eok n) ed ->
  all_true (snd (fst (walk maxd wd (jset (repeat false (Z.to_nat n)) start true) (init_graph n) start))) = true ->
  let g := random_walk n ne maxd start wd ed in
  (forall e, In e (g_edges g) -> eok n e) /\
  (forall u v, 0 <= u < n -> 0 <= v < n -> conn_from (adjE (g_edges g)) (inb n) u v).
Proof. exact (random_walk_connected maxd n start). Qed.
Theorem C10_Mmst_walk_disconnected_refuted :
  exists n maxd d, sub_valid_b maxd n d = true /\
    let g := random_walk n (sd_ne d) maxd (sd_start d) (sd_w d) (sd_e d) in
    zlen (g_edges g) = sd_ne d /\ In (7, 7) (g_edges g) /\
    connected_b n (fun i j => gat 0 (adj_of_edges n (g_edges g)) i j =? 1) (inb n) 0 = false.
Proof. exact walk_disconnected_refuted. Qed.
Theorem C10_Mmst_certificate_solvable A N K adj comps :
  0 < A -> 0 <= N -> instance_ok_b A N K adj comps = true ->
  forall a, 0 <= a < A ->
    zlen (znth [] comps a) = K /\
    forall k, In k (znth [] comps a) ->
      0 <= k < N /\ in_block A N a k = true
      /\ conn_from (fun i j => gat 0 adj i j =? 1) (in_block A N a) (split_lo A N a) k.
Proof. exact (instance_solvable A N K adj comps). Qed.
Print Assumptions C10_Mmst_certificate_solvable.
Theorem C10_Mmst_certificate_complete N adj vis st :
  (forall v, vis v = true -> 0 <= v < N) -> vis st = true ->
  (forall v, vis v = true -> conn_from adj vis st v) -> connected_b N adj vis st = true.
Proof. intro H. exact (connected_b_complete N adj vis H st). Qed.
Theorem C10_Mmst_blocks_disjoint A N a b v : 0 < A -> 0 <= N -> 0 <= a -> 0 <= b ->
  in_block A N a v = true -> in_block A N b v = true -> a = b.
Proof. exact (blocks_disjoint A N a b v). Qed.
Theorem C10_Mmst_symmetric N adj : sym_loopless_b N adj = true ->
  forall i j, 0 <= i < N -> 0 <= j < N -> gat 0 adj i i = 0 /\ gat 0 adj i j = gat 0 adj j i /\ (gat 0 adj i j = 0 \/ gat 0 adj i j = 1).
Proof. exact (sym_loopless_sound N adj). Qed.
(* the boolean checks the harness runs on every generated instance imply the hypothesis of the reset invariant *)
Theorem C10_Mmst_checks_wf c base adj comps :
  0 < cA c -> 0 < cN c -> 0 < cK c ->
  grid_shape_b (cN c) base = true -> base_consistent_b (cN c) adj base = true ->
  comps_ok_b (cA c) (cN c) (cK c) comps = true ->
  instance_wf c base adj comps.
Proof. exact (instance_checks_wf c base adj comps). Qed.
Theorem C10_Mmst_reset_shape_wf c base adj comps :
  0 < cA c -> 0 < cN c -> 0 < cK c ->
  shape_ok_b c (fst (init c base adj comps)) = true -> base_consistent_b (cN c) adj base = true ->
  instance_wf c base adj comps.
Proof. exact (reset_shape_wf c base adj comps). Qed.
Print Assumptions C10_Mmst_reset_shape_wf.
Theorem C10_Mmst_generated_wf c maxd subs ms comps :
  0 < cA c -> cA c <= cN c -> 0 < cK c ->
  gen_valid_b (cA c) (cN c) maxd subs ms = true -> comps_ok_b (cA c) (cN c) (cK c) comps = true ->
  let g := gen_graph (cA c) (cN c) maxd subs ms in
  let adj := adj_of_edges (cN c) (g_edges g) in
  instance_wf c (g_ne g) adj comps /\
  Inv c (fun a => jget 0 (znth [] comps a) 0) (fst (init c (g_ne g) adj comps)).
Proof. exact (gen_reset_Inv c maxd subs ms comps). Qed.
Print Assumptions C10_Mmst_generated_wf.
Theorem C10_Mmst_max_degree_refuted :
  exists n ne maxd start wd ed, let g := random_walk n ne maxd start wd ed in
    maxd < max_degree_of n (adj_of_edges n (g_edges g)).
Proof. exact degree_bound_refuted. Qed.
Theorem C10_Mmst_num_edges_refuted :
  exists n ne maxd start wd ed, let g := random_walk n ne maxd start wd ed in
    zlen (g_edges g) = ne /\ num_edges_of n (adj_of_edges n (g_edges g)) < ne.
Proof. exact num_edges_refuted. Qed.
Print Assumptions C10_Mmst_num_edges_refuted.
Example C10_Mmst_nonvacuous : instance_ok_b 2 6 2 ex_adj ex_comps = true /\ instance_wf ex_cfg ex_base ex_adj ex_comps.
Proof. exact (conj ex_instance_ok ex_instance_wf). Qed.
(* valid draws for N = 6, A = 2, max_degree = 1 = ceil(6/2) - 2: two paths joined by the cross edge 2-3 *)
Example C10_Mmst_generated_nonvacuous :
  gen_valid_b 2 6 1 ex_subs ex_ms = true /\ comps_ok_b 2 6 2 ex_comps = true /\
  adj_of_edges 6 (g_edges (gen_graph 2 6 1 ex_subs ex_ms)) = ex_adj.
Proof. exact ex_gen_valid. Qed.
