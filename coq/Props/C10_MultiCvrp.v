(* C10 MultiCVRP, UniformRandomGenerator over explicit draws (r = the randint(0, customer_demand_max) draws; the harness
   recovers them by mirroring the generator's key splits): demands = min(floor(r * V*max_capacity / sum r), customer_demand_max)
   with the depot's draw replaced by 0.  For ALL draws: depot demand 0, 0 <= demand <= customer_demand_max (<= max_capacity in
   every shipped setting: checked by instance_b on the implementation), the reset state satisfies the C06 invariant.
   Coordinates in [0, map_max], windows 0 <= start <= end = start + length <= max_end_window and zero depot coefficients are
   float facts checked on the implementation's instances (windows_b).  Note: a customer demand CAN be 0 (docs say >= 1). *)
Require Import JV.Base.Prelude JV.Base.JaxIndex JV.Base.Codec JV.Base.TimeStep JV.Model.MultiCvrp JV.Proofs.MultiCvrp JV.Proofs.MultiCvrp_Episode.
Theorem C10_MultiCvrp_demands total maxd r : 0 <= total -> 0 <= maxd -> Forall (fun d => 0 <= d) r ->
  let q := gen_demands total maxd r in
  zlen q = zlen r /\ (forall i, 0 <= znth 0 q i <= maxd) /\ (0 < zlen r -> znth 0 q 0 = 0).
Proof. exact (C10_gen_demands total maxd r). Qed.
Print Assumptions C10_MultiCvrp_demands.
Theorem C10_MultiCvrp_reset_feasible rnd n V mc maxd wl r ws ce cl : 0 <= V -> 0 <= mc -> 0 <= maxd -> zlen r = n + 1 -> 0 <= n ->
  Forall (fun d => 0 <= d) r ->
  let s0 := fst (init_r rnd n V mc maxd wl r ws ce cl) in
  Inv n V mc (demands s0) s0 [] /\ (forall i, 0 <= znth 0 (demands s0) i <= maxd) /\ obj s0 = 0 /\ scount s0 = 1.
Proof. exact (C10_init_Inv rnd n V mc maxd wl r ws ce cl). Qed.
Example C10_MultiCvrp_nonvacuous :
  gen_demands 40 10 [7; 3; 0; 9; 4] = [0; 7; 0; 10; 10]                      (* 3*40/16 = 7, 9*40/16 = 22 -> 10, a zero-demand customer *)
  /\ valid_draw 4 10 100 20 100 [7; 3; 0; 9; 4] [1; 2; 3; 4; 5] [0; 1; 2; 3; 4] [0; 9; 8; 7; 6] = true
  /\ instance_b 4 2 20 10 (gen_demands 40 10 [7; 3; 0; 9; 4]) = true
  /\ instance_b 4 2 20 10 [0; 7; 0; 11; 10] = false.
Proof. vm_compute. repeat split; reflexivity. Qed.
