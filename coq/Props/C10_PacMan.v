(* C10 PacMan (the constant map from the ASCII maze): the model of generate_maze_from_ascii / AsciiGenerator (compared
   with the real reset state field by field by the harness; the ASCII rows are dumped by value into Gen/PacManConsts.v
   on every run) applied to DEFAULT_MAZE yields a 31 x 28 grid that passes maze_ok_b (well-formed, no dead end, borders
   consistent with the wrap-around), with the player and the four ghosts on distinct free cells, four power-ups on free
   cells, and one pellet on every free cell: 318 pellets, all distinct, counter = 318 (the docs say 316).
   The generator is deterministic by documentation (it ignores the key); the harness checks that.
   For EVERY ASCII maze (any size, rectangular or not) whose corner cell (0, 0) is a wall: the reset state has one pellet
   on every non-wall cell of the maze and nowhere else, pellets and power-ups are pairwise distinct, none is the sentinel
   (0, 0), the pellet counter is their number, score and clock are 0, four edible ghosts
   (C10_PacMan_every_maze_counters; sel_nodup / sel_in: the generator enumerates every cell exactly once). *)
Require Import JV.Base.Prelude JV.Base.JaxIndex JV.Base.Codec JV.Base.TimeStep JV.Gen.PacManConsts JV.Model.PacMan JV.Proofs.PacMan JV.Proofs.PacMan_Inv JV.Proofs.PacMan_Rules JV.Proofs.PacMan_Book JV.Proofs.PacMan_Reset.
Theorem C10_PacMan_reset_wellformed :
  let s := gen_state DEFAULT_MAZE_ASCII in
  Inv X_SIZE Y_SIZE s /\ X_SIZE = 31 /\ Y_SIZE = 28
  /\ pellets_ok_b s = true /\ pellets s = 318
  /\ pellets s = zsum (map zsum (grid s))
  /\ forallb (fun p => free_b 31 28 (grid s) (snd p) (fst p)) (pellet_locs s ++ pu_locs s ++ ghosts s) = true
  /\ nodup_b ((py s, px s) :: ghosts s) = true /\ length (pu_locs s) = 4%nat /\ length (ghosts s) = 4%nat
  /\ (px s, py s) = (23, 13).
Proof. vm_compute. repeat split; reflexivity. Qed.
Print Assumptions C10_PacMan_reset_wellformed.
Theorem C10_PacMan_every_maze_counters maze :
  gat 0 (numpy_maze maze) 0 0 <> 1 ->
  let s := gen_state maze in
  pellets_ok_b s = true /\ nodup_b (live (pu_locs s)) = true /\ live (pellet_locs s) = pellet_locs s
  /\ length (g_eaten s) = 4%nat /\ score s = 0 /\ sc s = 0
  /\ (forall c r, In (c, r) (pellet_locs s) <->
        0 <= r < zlen maze /\ 0 <= c < zlen (znth [] maze r) /\ gat 0 (numpy_maze maze) r c = 1).
Proof. exact (reset_counters maze). Qed.
Print Assumptions C10_PacMan_every_maze_counters.
Theorem C10_PacMan_reset_Inv : Inv X_SIZE Y_SIZE (gen_state DEFAULT_MAZE_ASCII).
Proof. exact default_reset_Inv. Qed.
Example C10_PacMan_nonvacuous : gget 0 MAZE 14 0 = 1 /\ gget 0 MAZE 0 0 = 0 /\ gpos (ghosts (gen_state DEFAULT_MAZE_ASCII)) 0 = (13, 13).
Proof. vm_compute. repeat split; reflexivity. Qed.
