(* C10 RobotWarehouse: generated instances are well-formed.  RandomGenerator is modelled over its explicit draws (gen: agent
   cells by choice without replacement + unravel_index, directions, request queue by choice without replacement among the
   shelf ids; correspondence-checked on every reset).  Proved for ALL valid draws (valid_gen_draws: num_agents distinct flat
   cell indices inside the grid, directions in 0..3, request_queue_size distinct shelf ids) and all sizes (shelf_rows,
   shelf_columns, column_height >= 0, any number of agents): the generated state satisfies the full invariant Inv (both grid
   layers = the agent / shelf tables as bijections, agents on pairwise distinct cells inside the grid, mask = mask of the
   state, queue of distinct valid shelf ids with requested flags = queue membership), step_count 0, nobody carries, the
   shelves are exactly the non-highway cells of the layout in row-major order.  Also in boolean form: the well-formedness
   checker gen_wf_b that the harness runs on every reset state of the implementation returns true on the model's output,
   and that checker is sound (and Inv_b complete) for the declarative statement. *)
Require Import JV.Base.Prelude JV.Base.JaxIndex JV.Base.Codec JV.Base.TimeStep JV.Model.RobotWarehouse JV.Proofs.RobotWarehouse_lib JV.Proofs.RobotWarehouse JV.Proofs.RobotWarehouse_Step JV.Proofs.RobotWarehouse_Check JV.Proofs.RobotWarehouse_Gen.
Theorem C10_RobotWarehouse_gen_wf c cells dirs q :
  cfg_ok c -> valid_gen_draws c cells dirs q = true ->
  let s := gen c cells dirs q in
  Inv c s /\ cnt s = 0
  /\ (forall a, In a (agents s) -> acar a = false)
  /\ (forall i j, 0 <= i < nag c -> 0 <= j < nag c -> apos (agents s) i = apos (agents s) j -> i = j)
  /\ map (fun sh => (sx sh, sy sh)) (shelves s) = shelf_cells c
  /\ (forall sh, In sh (shelves s) -> highway_b c (sx sh) (sy sh) = false)
  /\ NoDup (queue s) /\ (forall j, In j (queue s) -> 0 <= j < zlen (shelves s))
  /\ zlen (shelves s) = nshelves c.
Proof. exact (gen_wf c cells dirs q). Qed.
Theorem C10_RobotWarehouse_gen_wf_checker c cells dirs q :
  cfg_ok c -> valid_gen_draws c cells dirs q = true -> gen_wf_b c (gen c cells dirs q) = true.
Proof. exact (gen_wf_bool c cells dirs q). Qed.
Theorem C10_RobotWarehouse_wf_checker c s : gen_wf_b c s = true ->
  Inv c s /\ cnt s = 0
  /\ (forall a, In a (agents s) -> acar a = false)
  /\ (forall i j, 0 <= i < nag c -> 0 <= j < nag c -> apos (agents s) i = apos (agents s) j -> i = j)
  /\ (forall sh, In sh (shelves s) -> highway_b c (sx sh) (sy sh) = false)
  /\ NoDup (queue s) /\ (forall j, In j (queue s) -> 0 <= j < zlen (shelves s)).
Proof. exact (gen_wf_b_sound c s). Qed.
Print Assumptions C10_RobotWarehouse_gen_wf.
Print Assumptions C10_RobotWarehouse_gen_wf_checker.
Print Assumptions C10_RobotWarehouse_wf_checker.
Example C10_RobotWarehouse_nonvacuous :
  cfg_ok ex_c /\ valid_gen_draws ex_c [5; 1] [1; 2] [0] = true /\ gen_wf_b ex_c ex_s0 = true
  /\ shelf_cells ex_c = [(1, 1); (1, 2)] /\ goals ex_c = [(1, 5); (2, 5)]
  (* two agents drawn on the same cell are not valid draws, and the result is rejected *)
  /\ valid_gen_draws ex_c [5; 5] [1; 2] [0] = false /\ gen_wf_b ex_c (gen ex_c [5; 5] [1; 2] [0]) = false.
Proof. split; [unfold cfg_ok, ex_c; cbn; lia|]. vm_compute. repeat split; reflexivity. Qed.
