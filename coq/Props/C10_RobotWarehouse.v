(* C10 RobotWarehouse (PARTIAL): RandomGenerator is modelled over its explicit draws (gen: agent cells without replacement,
   directions, request queue without replacement; correspondence-checked on every reset).  Proved: the well-formedness checker
   gen_wf_b, run by the harness on every generated state, is sound: it implies the full invariant Inv (layers = tables, agents
   on pairwise distinct cells inside the grid, mask = mask of the state), step_count 0, nobody carries, every shelf on a
   non-highway (shelf) cell, the request queue made of distinct valid shelf ids with the requested flags = queue membership.
   Missing: the proof that [gen c cells dirs q] satisfies gen_wf_b for ALL valid draws (only evaluated, by vm_compute below
   and by the harness on the draws recovered from the implementation's reset states). *)
Require Import JV.Base.Prelude JV.Base.JaxIndex JV.Base.Codec JV.Base.TimeStep JV.Model.RobotWarehouse JV.Proofs.RobotWarehouse_lib JV.Proofs.RobotWarehouse JV.Proofs.RobotWarehouse_Step JV.Proofs.RobotWarehouse_Check.
Theorem C10_RobotWarehouse_wf_checker_partial c s : gen_wf_b c s = true ->
  Inv c s /\ cnt s = 0
  /\ (forall a, In a (agents s) -> acar a = false)
  /\ (forall i j, 0 <= i < nag c -> 0 <= j < nag c -> apos (agents s) i = apos (agents s) j -> i = j)
  /\ (forall sh, In sh (shelves s) -> highway_b c (sx sh) (sy sh) = false)
  /\ NoDup (queue s) /\ (forall j, In j (queue s) -> 0 <= j < zlen (shelves s)).
Proof. exact (gen_wf_b_sound c s). Qed.
Print Assumptions C10_RobotWarehouse_wf_checker_partial.
Example C10_RobotWarehouse_nonvacuous :
  valid_gen_draws ex_c [5; 1] [1; 2] [0] = true /\ gen_wf_b ex_c ex_s0 = true
  /\ shelf_cells ex_c = [(1, 1); (1, 2)] /\ goals ex_c = [(1, 5); (2, 5)]
  (* two agents drawn on the same cell are not valid draws, and the result is rejected *)
  /\ valid_gen_draws ex_c [5; 5] [1; 2] [0] = false /\ gen_wf_b ex_c (gen ex_c [5; 5] [1; 2] [0]) = false.
Proof. vm_compute. repeat split; reflexivity. Qed.
