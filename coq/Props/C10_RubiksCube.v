(* C10 RubiksCube: for EVERY draw of scramble actions (any length, any values) and every n >= 2 the generated cube is a
   well-shaped 6 x n x n array with stickers in 0..5, each colour n*n times (a permutation of the goal's stickers), and
   it is solvable: the computed inverse sequence leads back to the goal. *)
Require Import JV.Base.Prelude JV.Base.JaxIndex JV.Base.Codec JV.Base.TimeStep JV.Gen.RubikTables JV.Model.RubiksCube.
Require Import JV.Proofs.RubiksCube_Lists JV.Proofs.RubiksCube_Cube JV.Proofs.RubiksCube_Action JV.Proofs.RubiksCube_Group JV.Proofs.RubiksCube_Env.
From Coq Require Import Permutation.
Theorem C10_RubiksCube_scramble_solvable n acts :
  2 <= n -> fold_left (rotate_cube n) (solution n acts) (scramble n acts) = solved_cube n.
Proof. exact (scramble_solvable n acts). Qed.
Theorem C10_RubiksCube_scramble_wellformed n acts :
  2 <= n -> shape n (scramble n acts) /\ Permutation (stickers (scramble n acts)) (stickers (solved_cube n))
            /\ in_spec_b (scramble n acts) = true.
Proof.
  exact (fun Hn => conj (reach_shape n _ Hn (reach_scramble n acts))
                  (conj (reach_multiset n _ Hn (reach_scramble n acts)) (reach_in_spec n _ Hn (reach_scramble n acts)))).
Qed.
Print Assumptions C10_RubiksCube_scramble_solvable.
Print Assumptions C10_RubiksCube_scramble_wellformed.
Example C10_RubiksCube_nonvacuous :
  valid_draw 3 4 [3; 7; 4; 16] = true /\ is_solved (scramble 3 [3; 7; 4; 16]) = false /\ balanced_b 3 (scramble 3 [3; 7; 4; 16]) = true.
Proof. vm_compute. auto. Qed.
