(* C10 SlidingTile: RandomWalkGenerator modelled over explicit draws (draw = index chosen by jax.random.choice(MOVES, p = mask);
   oracle contract valid_draws: in range and of non-zero weight).  For every board size n >= 1, every number of moves and
   every valid draw sequence the generated board is in the orbit of the goal (reachable by in-spec moves), is well-shaped with
   the blank where the state says, its tiles are a permutation of 0..n^2-1, and it is SOLVED by the reversed walk of opposite
   moves, every one of which is legal.  The contract is satisfiable iff the board has at least two rows
   (grid_size = 1 with num_random_moves > 0 has no valid move: see the report). *)
Require Import JV.Base.Prelude JV.Base.JaxIndex JV.Base.Codec JV.Base.TimeStep JV.Model.SlidingTile JV.Proofs.SlidingTile JV.Proofs.SlidingTile_Episode.
From Coq Require Import Permutation.
Theorem C10_SlidingTile_generated_in_orbit n draws : 0 < n -> valid_draws n (gen_start n) draws = true -> reach n (generate n draws).
Proof. exact (generate_reach n draws). Qed.
Theorem C10_SlidingTile_generated_solvable n draws : 0 < n -> valid_draws n (gen_start n) draws = true ->
  run_moves n (generate n draws) (rev (map opp draws)) = gen_start n
  /\ legal_run_b n (generate n draws) (rev (map opp draws)) = true.
Proof. exact (generate_solution n draws). Qed.
Theorem C10_SlidingTile_generated_wellformed n draws key : 0 < n -> valid_draws n (gen_start n) draws = true ->
  Inv n (bd (gen_state n draws key)) /\ Permutation (concat (puz (gen_state n draws key))) (zrange (n * n)).
Proof. exact (gen_state_Good n draws key). Qed.
Theorem C10_SlidingTile_draw_exists n e : 2 <= n -> in_grid n e = true -> exists d, valid_draw n e d = true.
Proof. exact (valid_draw_exists n e). Qed.
Theorem C10_SlidingTile_no_draw_on_1x1 d : valid_draw 1 (0, 0) d = false.
Proof. exact (valid_draw_none_1x1 d). Qed.
Print Assumptions C10_SlidingTile_generated_solvable.
Print Assumptions C10_SlidingTile_generated_wellformed.
Example C10_SlidingTile_nonvacuous :
  valid_draws 3 (gen_start 3) [0; 3; 0] = true /\ generate 3 [0; 3; 0] = ([[1; 0; 3]; [4; 2; 5]; [7; 8; 6]], (0, 1))
  /\ rev (map opp [0; 3; 0]) = [2; 1; 2] /\ valid_draws 3 (gen_start 3) [2] = false.
Proof. vm_compute. repeat split; reflexivity. Qed.
