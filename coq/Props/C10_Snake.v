(* C10 Snake: reset over its two draws (head cell uniform in the grid; fruit cell = a valid draw, i.e. an in-grid
   cell off the body): head and fruit are on distinct in-grid cells, the snake has length 1 at its head, step
   count 0, FIRST timestep, and the state satisfies the full invariant (chain, mask, time). *)
Require Import JV.Base.Prelude JV.Base.JaxIndex JV.Base.Codec JV.Base.TimeStep JV.Model.Snake JV.Proofs.Snake JV.Proofs.Snake_rules JV.Proofs.Snake_examples.
Theorem C10_Snake_reset_wellformed R C hd fr :
  in_grid R C hd -> valid_draw R C (body (fst (init R C hd fr))) fr = true ->
  let s := fst (init R C hd fr) in
  in_grid R C (head s) /\ in_grid R C (fruit s) /\ head s <> fruit s /\ len s = 1 /\ steps s = 0
  /\ bs_at s (head s) = 1 /\ bs_at s (fruit s) = 0 /\ snd (init R C hd fr) = restart 1.
Proof. exact (init_wellformed R C hd fr). Qed.
Print Assumptions C10_Snake_reset_wellformed.
Theorem C10_Snake_reset_inv R C T hd fr :
  0 < T -> in_grid R C hd -> valid_draw R C (body (fst (init R C hd fr))) fr = true -> Inv R C T (fst (init R C hd fr)).
Proof. exact (init_Inv R C T hd fr). Qed.
Example C10_Snake_nonvacuous :
  in_grid 3 3 (1, 0) /\ valid_draw 3 3 (body (fst (init 3 3 (1, 0) (1, 1)))) (1, 1) = true
  /\ valid_draw 3 3 (body e0) (1, 0) = false /\ valid_draw 3 3 (body e0) (3, 0) = false.
Proof. exact ex_reset. Qed.
