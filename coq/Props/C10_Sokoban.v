(* C10 Sokoban: the levels of ToyGenerator (both draws) and SimpleSolveGenerator, built by the modelled
   convert_level_to_array / get_agent_coordinates from the literal texts of generator.py, are well-formed: 10 x 10,
   exactly one agent whose stored location agrees with the grid, exactly 4 boxes and 4 targets, nothing on a wall, not
   already solved, and enclosed by walls (a closed region holding agent and boxes that does not touch the border);
   consequently every state reachable under ANY in-spec actions keeps all of this.  ToyGenerator depends on its
   draw.  SimpleSolveGenerator's level and ToyGenerator's level1 are solvable (explicit solutions).  The dataset
   generators (DeepMind / HuggingFace) are not modelled: their data is absent offline. *)
Require Import JV.Base.Prelude JV.Base.JaxIndex JV.Base.Codec JV.Base.TimeStep JV.Model.Sokoban JV.Proofs.Sokoban_Grid JV.Proofs.Sokoban JV.Proofs.Sokoban_Levels JV.Proofs.Sokoban_Toy2.
Theorem C10_Sokoban_toy_well_formed i : valid_draw i = true ->
  let s := fst (gen_toy i) in WellFormed 10 s /\ Enclosed_b 10 s (flood 10 s) = true.
Proof. exact (gen_toy_wf i). Qed.
Print Assumptions C10_Sokoban_toy_well_formed.
Theorem C10_Sokoban_simple_well_formed : let s := fst gen_simple in WellFormed 10 s /\ Enclosed_b 10 s (flood 10 s) = true.
Proof. exact gen_simple_wf. Qed.
Print Assumptions C10_Sokoban_simple_well_formed.
Theorem C10_Sokoban_toy_depends_on_draw : fst (gen_toy 0) <> fst (gen_toy 1).
Proof. exact gen_toy_depends_on_draw. Qed.
Theorem C10_Sokoban_checker G s : WellFormed_b G s = true -> WellFormed G s.
Proof. exact (WellFormed_b_spec G s). Qed.
Theorem C10_Sokoban_simple_solvable :
  cnt_of (run 10 120 true (fst gen_simple) solve_simple) = N_BOXES
  /\ types 10 120 true (fst gen_simple) solve_simple = repeat MID 9 ++ [LAST]
  /\ zsum (rewards 10 120 true (fst gen_simple) solve_simple) = 130
  /\ zsum (rewards 10 120 false (fst gen_simple) solve_simple) = 100.
Proof. exact simple_solvable. Qed.
Theorem C10_Sokoban_toy1_solvable :
  cnt_of (run 10 120 true (fst (gen_toy 0)) solve_toy1) = N_BOXES
  /\ types 10 120 true (fst (gen_toy 0)) solve_toy1 = repeat MID 30 ++ [LAST]
  /\ zsum (rewards 10 120 true (fst (gen_toy 0)) solve_toy1) = 40 + 100 - 31.
Proof. exact toy1_solvable. Qed.
(* observation (solvability is advertised only for the Boxoban dataset, not for the toy levels): ToyGenerator's level2
   can never be solved -- its box at (2,1) stands against the left wall in a column without a target -- so every
   episode on it runs to the time limit, whatever in-spec actions are played *)
Theorem C10_Sokoban_toy_level2_never_solved T dense acts a :
  Forall (fun a => 0 <= a < 4) acts -> 0 <= a < 4 ->
  let s := run 10 T dense (fst (gen_toy 1)) acts in
  cnt_of s < N_BOXES
  /\ (st (snd (step 10 T dense s a)) = LAST <-> T <= zlen acts + 1).
Proof. exact (toy_level2_never_solved T dense acts a). Qed.
Print Assumptions C10_Sokoban_toy_level2_never_solved.
Example C10_Sokoban_nonvacuous :
  valid_draw 0 = true /\ valid_draw 1 = true /\ valid_draw 2 = false
  /\ (ar (fst (gen_toy 0)), ac (fst (gen_toy 0))) = (1, 2) /\ (ar (fst (gen_toy 1)), ac (fst (gen_toy 1))) = (5, 2)
  /\ WellFormed_b 10 (mkS (fixed (fst gen_simple)) (gput (var (fst gen_simple)) 3 2 EMPTY) 4 2 0) = false.  (* 3 boxes *)
Proof. vm_compute. repeat split; reflexivity. Qed.
