(* C10 Sudoku: DatabaseGenerator over an explicit draw (the index): if every record of the database passes the checker
   [puzzle_ok_b] (9x9, values 0..9, no digit twice in a row / column / box) then every valid draw yields a reset state that is
   well-shaped, conflict-free and carries the exact mask.  [sudoku_puzzles_io] - the entry the harness runs over the records of
   every shipped database (all of them in the thorough tier) - answers 0 only if every decoded record passes the checker.      *)
Require Import JV.Base.Prelude JV.Base.JaxIndex JV.Base.Codec JV.Base.TimeStep JV.Model.Sudoku JV.Proofs.Sudoku.
Theorem C10_Sudoku_generator db idx : Forall puzzle_ok db -> valid_draw db idx = true -> Inv6 (fst (gen_db db idx)).
Proof. exact (gen_Inv6 db idx). Qed.
Print Assumptions C10_Sudoku_generator.
Theorem C10_Sudoku_scan_sound l :
  hd 1 (sudoku_puzzles_io l) = 0 ->
  Forall puzzle_ok (fst (dec_many (take_grid W W) (Z.to_nat (fst (take1 l))) (snd (take1 l)))).
Proof. exact (puzzles_io_sound l). Qed.
Print Assumptions C10_Sudoku_scan_sound.
Example C10_Sudoku_nonvacuous :
  puzzle_ok_b sample_puzzle = true /\ valid_draw [sample_puzzle; one_hole] 1 = true
  /\ sudoku_puzzles_io (2 :: concat sample_puzzle ++ concat one_hole) = [0; -1; 1; 64]
  /\ puzzle_ok_b (gset sample_puzzle 0 0 8) = false
  /\ hd 1 (sudoku_puzzles_io (1 :: concat (gset sample_puzzle 0 0 8))) = 1.
Proof. vm_compute. repeat split. Qed.
