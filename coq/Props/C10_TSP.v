(* C10 TSP: for EVERY draw of the generator (2*num_cities coordinates in [0,1) on the grid of scale sc) the reset state has
   the declared shapes, every coordinate inside the declared box (0 <= x < sc, so also inside the spec's [0,1]), position
   -1, nothing visited, a trajectory of -1, counter 0, encodes the empty tour (Inv), and comes with the FIRST timestep.
   (That the real uniform draws are in [0,1) and depend on the key is checked by the harness.) *)
Require Import JV.Base.Prelude JV.Base.JaxIndex JV.Base.Codec JV.Base.TimeStep JV.Model.TSP JV.Proofs.TSP_lists JV.Proofs.TSP.
Theorem C10_TSP_init_wf n sc c : 0 <= n -> valid_draw n sc c = true ->
  let s0 := fst (init n c) in
  Inv n s0 /\ ranges_b n sc s0 = true /\ position s0 = -1 /\ nvis s0 = 0 /\ tour_of s0 = []
  /\ visited s0 = repeat false (Z.to_nat n) /\ traj s0 = repeat (-1) (Z.to_nat n) /\ coords s0 = c
  /\ snd (init n c) = restart 1
  /\ zlen c = 2 * n /\ Forall (fun x => 0 <= x < sc) c.
Proof. intro Hn. exact (C10_init_wf n (fun _ _ => 0) Hn sc c). Qed.
Print Assumptions C10_TSP_init_wf.
Example C10_TSP_nonvacuous :
  valid_draw 3 16 [0; 5; 15; 2; 7; 7] = true /\ valid_draw 3 16 [0; 5; 16; 2; 7; 7] = false /\ valid_draw 3 16 [0; 5; 15; 2; 7] = false.
Proof. vm_compute. repeat split; reflexivity. Qed.
