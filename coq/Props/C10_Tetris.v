(* C10 Tetris: for EVERY valid draw of the first piece (index in [0, 7)) the reset state is physical, empty, and
   playable (placement (rotation 0, column 0) is legal); valid_draw is checked on the implementation's reset states. *)
Require Import JV.Base.Prelude JV.Base.JaxIndex JV.Base.Codec JV.Base.TimeStep JV.Gen.TetrisConsts JV.Model.Tetris.
Require Import JV.Proofs.Tetris JV.Proofs.Tetris_place JV.Proofs.Tetris_clear JV.Proofs.Tetris_phys JV.Proofs.Tetris_step.
Theorem C10_Tetris_reset nr nc d :
  4 <= nr -> 4 <= nc -> valid_draw d = true ->
  let '(s0, ts, o) := init nr nc d in
  Physical nr nc s0 /\ cells (grid s0) = 0 /\ ts = restart 1 /\ o = view nr nc s0
  /\ gget false (amask s0) 0 0 = true /\ step_count s0 = 0 /\ score s0 = 0.
Proof. exact (init_physical nr nc d). Qed.
Print Assumptions C10_Tetris_reset.
Example C10_Tetris_nonvacuous : forallb (fun d => valid_draw d && Physical_b 5 4 (fst (fst (init 5 4 d)))) (zrange 7) = true
  /\ valid_draw 7 = false /\ valid_draw (-1) = false.
Proof. vm_compute. repeat split; reflexivity. Qed.
