(* C11 — episodes end exactly at the configured time limit.  Generic part: the counter argument every time-limited
   environment's model instantiates, and the meaning of the checker [limit_ok] that the harness evaluates on the first
   LAST index of every real episode ("other cause" being decided differentially on an instance with a larger limit). *)
Require Import JV.Base.Prelude JV.Base.Codec JV.Base.TimeStep JV.Proofs.TimeStep_laws.

Theorem C11_limit_ok_sound T types other i0 : limit_ok T i0 types other = true ->
  forall j, (j < length types)%nat ->
    (forall j', (j' < j)%nat -> nth j' types 0 <> LAST) ->
    (nth j types 0 <> LAST -> i0 + Z.of_nat j < T)
    /\ (nth j types 0 = LAST -> i0 + Z.of_nat j = T \/ (z2b (nth j other 0) = true /\ i0 + Z.of_nat j <= T)).
Proof. exact (limit_ok_sound T types other i0). Qed.
Print Assumptions C11_limit_ok_sound.

(* any environment whose step increments its counter and is LAST exactly when (another cause or counter+1 >= T):
   never later ... *)
Theorem C11_generic_upper S A cnt stp other T
  (Hcnt : forall s a, cnt (fst (stp s a)) = cnt s + 1)
  (Hlast : forall s a, st (snd (stp s a)) = LAST <-> (other s a = true \/ T <= cnt s + 1)) acts s :
  cnt s = 0 \/ 0 <= cnt s ->
  Forall (fun x => st (snd x) <> LAST) (run S A stp s acts) -> cnt s + Z.of_nat (length acts) < T \/ acts = [].
Proof. exact (limit_upper S A cnt stp other T Hcnt Hlast acts s). Qed.
(* ... never earlier without another cause, and LAST when the counter reaches T *)
Theorem C11_generic_exact S A (cnt : S -> Z) (stp : S -> A -> S * tstep) other T
  (Hcnt : forall s a, cnt (fst (stp s a)) = cnt s + 1)
  (Hlast : forall s a, st (snd (stp s a)) = LAST <-> (other s a = true \/ T <= cnt s + 1)) s a :
  (st (snd (stp s a)) = LAST -> other s a = false -> T <= cnt s + 1) /\ (cnt s + 1 = T -> st (snd (stp s a)) = LAST).
Proof. split; [exact (limit_exact S A cnt stp other T Hlast s a)|exact (limit_reached S A cnt stp other T Hcnt Hlast s a)]. Qed.
Print Assumptions C11_generic_exact.
Example C11_nonvacuous :
  limit_ok 3 1 [MID; MID; LAST] [0; 0; 0] = true /\ limit_ok 3 1 [MID; LAST] [0; 0] = false
  /\ limit_ok 3 1 [MID; LAST] [0; 1] = true /\ limit_ok 3 1 [MID; MID; MID; LAST] [0; 0; 0; 0] = false.
Proof. vm_compute. repeat split. Qed.
