(* C11 BinPack (structural horizon max_num_items): a step that does not end the episode has placed exactly one more item and
   leaves at least one item unplaced; hence after k consecutive non-terminal steps from a state with c items placed, c + k < n:
   from reset at most n - 1 steps are MID and the LAST step comes at step number <= n = max_num_items. *)
Require Import JV.Base.Prelude JV.Base.JaxIndex JV.Base.Codec JV.Base.TimeStep JV.Model.BinPack JV.Proofs.BinPack_lib JV.Proofs.BinPack JV.Proofs.BinPack_obs.
(* a concrete instance: container 4x2x2, two items 2x2x2 and one 3x2x2, buffer of 4 EMSs, 2 observed *)
Definition ex_c := make_container 4 2 2.
Definition ex_items := [mkIt 2 2 2; mkIt 2 2 2; mkIt 3 2 2].
Definition ex_s0 := fst (init 2 ex_c 4 ex_items [true; true; true]).
Definition ex_s1 := fst (step 2 false ex_s0 0 0).
Definition ex_s2 := fst (step 2 false ex_s1 0 1).
Theorem C11_BinPack_progress n m obs sparse s a0 a1 :
  shape n m s -> consistent obs s -> obs <= m -> inspec obs n a0 a1 ->
  st (snd (step obs sparse s a0 a1)) = MID ->
  count_placed (fst (step obs sparse s a0 a1)) = count_placed s + 1 /\ count_placed (fst (step obs sparse s a0 a1)) < n.
Proof. exact (mid_step_progress n m obs sparse s a0 a1). Qed.
Theorem C11_BinPack_horizon n m obs sparse : obs <= m -> forall acts s,
  shape n m s -> consistent obs s -> Forall (fun a => inspec obs n (fst a) (snd a)) acts ->
  all_mid obs sparse s acts -> count_placed s + zlen acts < n \/ acts = [].
Proof. exact (horizon n m obs sparse). Qed.
Print Assumptions C11_BinPack_horizon.
Example C11_BinPack_nonvacuous :
  shape_b 3 4 ex_s0 = true /\ all_mid 2 false ex_s0 [(0, 0)] /\ count_placed ex_s0 = 0 /\ count_placed ex_s1 = 1
  /\ st (snd (step 2 false ex_s1 0 1)) = LAST /\ count_placed ex_s2 = 2.
Proof. vm_compute. repeat split; reflexivity. Qed.
