(* C11 CVRP (structural horizon 2*num_nodes): from a reset state every episode, under ANY in-spec actions, both reward
   functions and every distance oracle, has at most 2n steps, and any 2n in-spec actions do reach a LAST step.  In general,
   from a state whose route has k < 2n entries at most 2n - k steps remain. *)
Require Import JV.Base.Prelude JV.Base.JaxIndex JV.Base.Codec JV.Base.TimeStep JV.Model.CVRP JV.Proofs.CVRP.
Theorem C11_CVRP_episode_within_2n dist n mc sp pen draw acts :
  1 <= n -> 0 <= mc -> zlen draw = n + 1 -> Forall (fun a => 0 <= a <= n) acts ->
  let tr := run dist sp mc pen (fst (init n mc draw)) acts in
  zlen tr <= 2 * n /\ (2 * n <= zlen acts -> ended tr).
Proof.
  intros Hn Hmc L F tr. subst tr.
  pose proof (C11_horizon dist n mc sp pen acts _ [] Hn Hmc (init_Inv n mc draw Hn Hmc L)) as H.
  change (zlen (@nil Z)) with 0 in H. rewrite Z.sub_0_r in H. apply H; [lia|exact F].
Qed.
Print Assumptions C11_CVRP_episode_within_2n.
Theorem C11_CVRP_horizon dist n mc sp pen acts s h : 1 <= n -> 0 <= mc -> Inv n mc s h -> zlen h < 2 * n ->
  Forall (fun a => 0 <= a <= n) acts ->
  zlen (run dist sp mc pen s acts) <= 2 * n - zlen h /\ (2 * n - zlen h <= zlen acts -> ended (run dist sp mc pen s acts)).
Proof. exact (C11_horizon dist n mc sp pen acts s h). Qed.
(* the bound is attained: customer, depot, customer, depot = 2n = 4 steps *)
Example C11_CVRP_nonvacuous :
  let d := fun i j => 10 * Z.abs (i - j) in
  map (fun p => st (snd p)) (run d false 3 99 (fst (init 2 3 [1; 2; 2])) [1; 0; 2; 0; 1; 1]) = [MID; MID; MID; LAST].
Proof. vm_compute. reflexivity. Qed.
