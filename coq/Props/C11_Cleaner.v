(* C11 Cleaner: step_count grows by one per step from 0; a step taken when step_count + 1 >= limit is LAST (never
   later); a LAST step before that has another cause (an invalid action or no dirty tile left: never earlier without
   another cause); an episode from a state below the limit has at most limit - step_count steps, and exactly that many,
   ending in LAST, when no other cause occurs.  limit = eff_limit(time_limit): None (and 0) => rows * cols. *)
Require Import JV.Base.Prelude JV.Base.JaxIndex JV.Base.Codec JV.Base.TimeStep JV.Model.Cleaner JV.Proofs.Cleaner.
Theorem C11_Cleaner_at_limit_last c s acts : tlim c <= cnt s + 1 -> st (snd (step c s acts)) = LAST.
Proof. exact (C11_at_limit_last c s acts). Qed.
Theorem C11_Cleaner_last_cause c s acts :
  st (snd (step c s acts)) = LAST -> tlim c <= cnt s + 1 \/ other_cause c s acts = true.
Proof. exact (C11_last_cause c s acts). Qed.
Theorem C11_Cleaner_never_later c al s : cnt s < tlim c -> zlen (episode c s al) <= tlim c - cnt s.
Proof. exact (C11_never_later c al s). Qed.
Theorem C11_Cleaner_exact c al s :
  cnt s < tlim c -> tlim c - cnt s <= zlen al -> no_other c s al = true ->
  zlen (episode c s al) = tlim c - cnt s /\ st (last (episode c s al) (restart 1)) = LAST.
Proof. exact (C11_exact c al s). Qed.
Print Assumptions C11_Cleaner_exact.
Theorem C11_Cleaner_default_limit r k : eff_limit 0 r k = r * k.
Proof. exact (eff_limit_none r k). Qed.
Theorem C11_Cleaner_given_limit t r k : t <> 0 -> eff_limit t r k = t.
Proof. exact (eff_limit_some t r k). Qed.
Example C11_Cleaner_nonvacuous :
  let c := mkC 2 3 1 (eff_limit 0 2 3) 2 in
  let s0 := fst (init c ex_maze) in
  tlim c = 6 /\ map st (episode c s0 [[1]; [3]; [1]; [3]; [1]; [3]; [1]]) = [MID; MID; MID; MID; MID; LAST]
  /\ no_other c s0 [[1]; [3]; [1]; [3]; [1]; [3]; [1]] = true.
Proof. exact nonvacuous_limit. Qed.
