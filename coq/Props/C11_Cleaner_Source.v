(* C11 Cleaner over the SOURCE-TRANSLATED step (Gen/CleanerSrc.v; see C09_Cleaner_Source.v; limit wiring: C11_Wiring.v): every step taken when
   the step count reaches the limit is LAST; a LAST before the limit has another cause (an invalid move of some agent, or no dirty tile left). *)
Require Import JV.Base.Prelude JV.Base.JaxIndex JV.Base.Codec JV.Base.TimeStep JV.Gen.TimeStepSrc JV.Gen.CleanerSrc JV.Proofs.Cleaner JV.Proofs.Cleaner_Src.
Require JV.Model.Cleaner.
Theorem C11_Cleaner_Source_at_limit_last (R C N T pen : Z) s acts : T <= s_step_count s + 1 -> st (snd (step R C T pen s acts)) = LAST.
Proof. exact (src_at_limit_last R C N T pen s acts). Qed.
Print Assumptions C11_Cleaner_Source_at_limit_last.
Theorem C11_Cleaner_Source_last_cause (R C N T pen : Z) s acts :
  st (snd (step R C T pen s acts)) = LAST ->
  T <= s_step_count s + 1 \/ JV.Proofs.Cleaner.other_cause (JV.Model.Cleaner.mkC R C N T pen) (conv s) acts = true.
Proof. exact (src_last_cause R C N T pen s acts). Qed.
Print Assumptions C11_Cleaner_Source_last_cause.
