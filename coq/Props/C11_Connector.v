(* C11 Connector: step_count grows by one per step; a step taken when step_count + 1 >= time_limit is LAST (never later);
   a LAST step before that has another cause (every agent connected or blocked: never earlier without another cause); an
   episode from a state below the limit has at most limit - step_count steps, and exactly that many, ending in LAST, when
   no other cause occurs.  Every time_limit, every size, every action sequence. *)
Require Import JV.Base.Prelude JV.Base.JaxIndex JV.Base.Codec JV.Base.TimeStep JV.Model.Connector JV.Proofs.Connector.
Theorem C11_Connector_at_limit_last c s acts : tlim c <= cnt s + 1 -> st (tsof c s acts) = LAST.
Proof. exact (C11_at_limit_last c s acts). Qed.
Theorem C11_Connector_last_cause c s acts : st (tsof c s acts) = LAST -> tlim c <= cnt s + 1 \/ all_done c s acts = true.
Proof. exact (C11_last_cause c s acts). Qed.
Theorem C11_Connector_never_later c al s : cnt s < tlim c -> zlen (episode c s al) <= tlim c - cnt s.
Proof. exact (C11_never_later c al s). Qed.
Theorem C11_Connector_exact c al s :
  cnt s < tlim c -> tlim c - cnt s <= zlen al -> no_other c s al = true ->
  zlen (episode c s al) = tlim c - cnt s /\ st (last (episode c s al) (restart 1)) = LAST.
Proof. exact (C11_exact c al s). Qed.
Print Assumptions C11_Connector_exact.
Example C11_Connector_nonvacuous :
  let c := mkC 3 2 3 100 (-3) in
  map st (episode c ex_s0 [[0; 0]; [0; 0]; [0; 0]; [0; 0]]) = [MID; MID; LAST] /\ no_other c ex_s0 [[0; 0]; [0; 0]; [0; 0]; [0; 0]] = true.
Proof. vm_compute. split; reflexivity. Qed.
