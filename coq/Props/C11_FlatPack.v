(* C11 FlatPack: structural horizon.  From reset, for ANY action sequence (in-spec or not, legal or not), the i-th step is
   LAST iff i >= num_blocks: the episode ends exactly at step num_blocks, never earlier, never later. *)
Require Import JV.Base.Prelude JV.Base.JaxIndex JV.Base.Codec JV.Base.TimeStep JV.Model.FlatPack JV.Proofs.FlatPack JV.Proofs.FlatPack_Pack.
Theorem C11_FlatPack_horizon_exact cf bl acts s' ts i t :
  run cf (fst (init cf bl)) acts = (s', ts) -> nth_error ts i = Some t ->
  (st t = LAST <-> cN cf <= Z.of_nat i + 1).
Proof. exact (horizon_exact cf bl acts s' ts i t). Qed.
Print Assumptions C11_FlatPack_horizon_exact.
Example C11_FlatPack_nonvacuous :
  let cf := mkC 5 5 4 0 in
  map st (snd (run cf (fst (init cf toy_blocks_rot)) [(0, 2, 0, 0); (1, 0, 0, 0); (1, 2, 0, 2); (3, 0, 2, 2); (2, 1, 2, 0)]))
  = [MID; MID; MID; LAST; LAST].
Proof. vm_compute. reflexivity. Qed.
