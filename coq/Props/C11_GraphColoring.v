(* C11 GraphColoring (no time limit; structural horizon num_nodes): from reset, under mask-respecting in-spec play an episode
   has EXACTLY num_nodes steps (it ends iff num_nodes colours were played, never earlier); under ANY in-spec play it has at
   most num_nodes steps and num_nodes in-spec colours always reach a LAST step.  In general, with k nodes coloured, at most
   n - k steps remain. *)
Require Import JV.Base.Prelude JV.Base.JaxIndex JV.Base.Codec JV.Base.TimeStep JV.Model.GraphColoring JV.Proofs.GraphColoring
  JV.Proofs.GraphColoring_rules JV.Proofs.GraphColoring_episode JV.Proofs.GraphColoring_gen.
Theorem C11_GraphColoring_exact_under_mask n adj0 acts :
  0 < n -> graph_wf n adj0 ->
  let s0 := fst (init n adj0) in
  inspec n acts -> legal_run n s0 acts ->
  zlen (run n s0 acts) = Z.min (zlen acts) n /\ (ended n s0 acts <-> n <= zlen acts).
Proof. exact (C11_exact_from_reset n adj0 acts). Qed.
Print Assumptions C11_GraphColoring_exact_under_mask.
Theorem C11_GraphColoring_any_play n adj0 acts :
  0 < n -> let s0 := fst (init n adj0) in
  inspec n acts -> zlen (run n s0 acts) <= n /\ (n <= zlen acts -> ended n s0 acts).
Proof. exact (C11_any_play_from_reset n adj0 acts). Qed.
Print Assumptions C11_GraphColoring_any_play.
Theorem C11_GraphColoring_horizon n acts k s :
  Seq n k s -> Forall (fun a => 0 <= a < n) acts -> Z.of_nat (length (run n s acts)) <= n - k.
Proof. exact (C11_horizon n acts k s). Qed.
Theorem C11_GraphColoring_init n adj0 : 0 < n -> Seq n 0 (fst (init n adj0)).
Proof. exact (init_Seq n adj0). Qed.
Print Assumptions C11_GraphColoring_horizon.
Example C11_GraphColoring_nonvacuous :
  let adj0 := gen_adj 3 [[true;true;true];[true;true;true];[false;true;true]] in
  let s0 := fst (init 3 adj0) in
  map (fun p => st (snd p)) (run 3 s0 [0; 1; 0; 2; 2]) = [MID; MID; LAST]       (* mask-respecting: exactly n *)
  /\ map (fun p => st (snd p)) (run 3 s0 [0; 0; 1]) = [MID; LAST]               (* an illegal colour: earlier *)
  /\ legal_run 3 s0 [0; 1; 0; 2; 2] /\ ~ legal_run 3 s0 [0; 0; 1].
Proof. vm_compute. repeat split; try reflexivity; intuition (try discriminate; try lia). Qed.
