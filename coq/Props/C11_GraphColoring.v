(* C11 GraphColoring: an episode lasts at most num_nodes steps (structural horizon), for every in-spec action sequence *)
Require Import JV.Base.Prelude JV.Base.JaxIndex JV.Base.Codec JV.Base.TimeStep JV.Model.GraphColoring JV.Proofs.GraphColoring.
Theorem C11_GraphColoring_horizon n acts k s :
  Seq n k s -> Forall (fun a => 0 <= a < n) acts -> Z.of_nat (length (run n s acts)) <= n - k.
Proof. exact (C11_horizon n acts k s). Qed.
Theorem C11_GraphColoring_init n adj0 : 0 < n -> Seq n 0 (fst (init n adj0)).
Proof. exact (init_Seq n adj0). Qed.
Print Assumptions C11_GraphColoring_horizon.
