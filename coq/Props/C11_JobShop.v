(* C11 JobShop (structural horizon; the env has no time limit): from reset on a well-formed instance, under ANY in-spec
   actions, the episode reaches LAST within num_jobs*max_num_ops*max_op_duration steps.  Reason: [potential] = the work not yet
   done (full duration of pending operations + remaining part of running ones) is at most J*O*D at reset, is >= 1 in every
   unfinished state, and drops by at least 1 on every step that is not LAST - a non-LAST step was mask-respecting and left
   some machine non-idle, i.e. it started an operation or a machine was busy. *)
Require Import JV.Base.Prelude JV.Base.JaxIndex JV.Base.Codec JV.Base.TimeStep JV.Proofs.TimeStep_laws.
Require Import JV.Model.JobShop JV.Proofs.JobShop_lib JV.Proofs.JobShop_step JV.Proofs.JobShop_sched JV.Proofs.JobShop_episode JV.Proofs.JobShop_gen.
Theorem C11_JobShop_episode_within_horizon c om od acts : 0 < nj c -> 0 <= nm c -> 0 < no c -> rows_ok od (nj c) (no c) ->
  inst_wf c (fst (init c om od)) -> Forall (in_spec c) acts ->
  Z.of_nat (length (run c (fst (init c om od)) acts)) <= nj c * no c * nd c.
Proof. exact (episode_within_horizon c om od acts). Qed.
Theorem C11_JobShop_mid_step_consumes_work c s act : Inv c s -> in_spec c act -> (st (snd (step c s act)) =? LAST) = false ->
  potential c (fst (step c s act)) + 1 <= potential c s.
Proof. exact (mid_step_consumes c s act). Qed.
Theorem C11_JobShop_run_length c acts s : Inv c s -> Forall (in_spec c) acts -> finished_b c (omask s) (mrem s) = false ->
  Z.of_nat (length (run c s acts)) <= potential c s.
Proof. exact (run_length c acts s). Qed.
Theorem C11_JobShop_unfinished_has_work c s : Inv c s -> finished_b c (omask s) (mrem s) = false -> 1 <= potential c s.
Proof. exact (potential_pos c s). Qed.
Print Assumptions C11_JobShop_episode_within_horizon.
Definition toy_s0 := fst (init toy_cfg toy_mach toy_dur).
Definition toy_acts : list (list Z) := [[3;4;0;1];[5;5;5;5];[5;5;1;0];[5;2;5;5];[4;5;5;3];[3;0;5;2];[1;4;0;5];[3;5;5;5]].
Example C11_JobShop_nonvacuous :
  potential toy_cfg toy_s0 = 32 /\ 32 <= 5 * 4 * 4
  /\ map (fun p => potential toy_cfg (fst p)) (run toy_cfg toy_s0 toy_acts) = [28;24;20;16;12;8;4;0]
  /\ Z.of_nat (length (run toy_cfg toy_s0 toy_acts)) = 8.
Proof. vm_compute. repeat split; try reflexivity; intro; discriminate. Qed.
