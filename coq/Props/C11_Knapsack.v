(* C11 Knapsack (structural horizon num_items): from a reset state every episode, under ANY in-spec actions, both reward
   functions and every rounding (exact or float32), has at most num_items steps, and any num_items in-spec actions do
   reach a LAST step.  In general an episode has at most max(1, number of unpacked items) steps. *)
Require Import JV.Base.Prelude JV.Base.JaxIndex JV.Base.Codec JV.Base.TimeStep JV.Model.Knapsack JV.Proofs.Knapsack.
Theorem C11_Knapsack_episode_within_num_items n total w v rnd sparse acts :
  1 <= n -> zlen w = n -> zlen v = n -> Forall (fun a => 0 <= a < n) acts ->
  let tr := run rnd sparse (fst (init n total w v)) acts in
  Z.of_nat (length tr) <= n /\ (n <= Z.of_nat (length acts) -> ended tr).
Proof. exact (C11_episode_within_num_items n total w v rnd sparse acts). Qed.
Print Assumptions C11_Knapsack_episode_within_num_items.
Theorem C11_Knapsack_horizon n rnd sparse acts s :
  shape n s -> Forall (fun a => 0 <= a < n) acts ->
  Z.of_nat (length (run rnd sparse s acts)) <= Z.max 1 (unpacked s).
Proof. exact (C11_horizon n rnd sparse acts s). Qed.
Print Assumptions C11_Knapsack_horizon.
(* the bound is attained: everything fits, the episode has exactly num_items = 3 steps *)
Example C11_Knapsack_nonvacuous :
  let s0 := fst (init 3 4096 [512; 512; 700] [100; 200; 300]) in
  map (fun p => st (snd p)) (run rid false s0 [2; 0; 1; 1]) = [MID; MID; LAST].
Proof. vm_compute. reflexivity. Qed.
