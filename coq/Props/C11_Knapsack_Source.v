(* C11 Knapsack over the SOURCE-TRANSLATED step (Gen/KnapsackSrc.v; see C09_Knapsack_Source.v): an episode of the translated step (run_src: the
   steps up to and including the first LAST) lasts at most max(1, number of unpacked items) steps -- the known horizon -- for every rounding
   of the one inexact float operation and both reward functions. *)
Require Import JV.Base.Prelude JV.Base.JaxIndex JV.Base.Codec JV.Base.TimeStep JV.Gen.TimeStepSrc JV.Gen.KnapsackSrc JV.Proofs.Knapsack_Src.
Require JV.Model.Knapsack.
Theorem C11_Knapsack_Source_horizon n rnd sparse acts s : JV.Model.Knapsack.shape n (conv s) -> Forall (fun a => 0 <= a < n) acts ->
  Z.of_nat (length (run_src rnd sparse s acts)) <= Z.max 1 (JV.Model.Knapsack.unpacked (conv s)).
Proof. exact (src_horizon n rnd sparse acts s). Qed.
Print Assumptions C11_Knapsack_Source_horizon.
