(* C11 LevelBasedForaging: step_count grows by one per step; the step that makes step_count reach time_limit is LAST
   (never later); a LAST step before that has the one other cause (all food eaten: never earlier without a cause);
   an episode from a state below the limit has at most limit - step_count steps, and exactly that many, ending in LAST,
   when food is left throughout.  (At the limit the step is a truncation, see C03_Lbf.) *)
From Coq Require Import QArith.
Require Import JV.Base.Prelude JV.Base.JaxIndex JV.Base.Codec JV.Base.TimeStep JV.Model.Lbf JV.Proofs.Lbf.
Open Scope Z_scope.
Theorem C11_Lbf_counter c s acts : cnt (fst (step c s acts)) = cnt s + 1.
Proof. exact (step_cnt c s acts). Qed.
Theorem C11_Lbf_at_limit_last c s acts : tlim c <= cnt s + 1 -> st (snd (step c s acts)) = LAST.
Proof. exact (C11_at_limit_last c s acts). Qed.
Theorem C11_Lbf_last_iff c s acts :
  st (snd (step c s acts)) = LAST <-> (other_cause c s acts = true \/ tlim c <= cnt s + 1).
Proof. exact (C11_last_iff c s acts). Qed.
Theorem C11_Lbf_never_later c al s : cnt s < tlim c -> zlen (episode c s al) <= tlim c - cnt s.
Proof. exact (C11_never_later c al s). Qed.
Theorem C11_Lbf_exact c al s :
  cnt s < tlim c -> tlim c - cnt s <= zlen al -> no_other c s al = true ->
  zlen (episode c s al) = tlim c - cnt s /\ st (last (episode c s al) (restart 1)) = LAST.
Proof. exact (C11_exact c al s). Qed.
Print Assumptions C11_Lbf_exact.
Print Assumptions C11_Lbf_last_iff.
Example C11_Lbf_nonvacuous :
  tlim ex_cfg = 3 /\ map st (episode ex_cfg ex_s0 [[0; 0]; [4; 1]; [0; 0]; [0; 0]]) = [MID; MID; LAST]
  /\ no_other ex_cfg ex_s0 [[0; 0]; [4; 1]; [0; 0]; [0; 0]] = true.
Proof. vm_compute. repeat split; reflexivity. Qed.
