(* C11 Maze: the counter advances by one per step; in a maze whose agent and target are connected (every generated
   maze, see C10; connectivity is preserved by every step) a step is LAST exactly when the target is reached or the
   counter reaches the limit.  From reset: step number T is LAST (never later), and a LAST before step T happens
   only by reaching the target (never earlier without cause).  time_limit None/0 resolves to rows * cols.
   [C11_Maze_generated_episode]: the same with NO connectivity hypothesis for every instance of the shipped
   RandomGenerator (all sizes, all valid generator draws -- at least gen_fuel cols rows <= rows*cols of them -- and position draws), by the
   unconditional connectivity theorem of the recursive-division generator (C10, Proofs/Maze_GenTotal.v). *)
Require Import JV.Base.Prelude JV.Base.JaxIndex JV.Base.Codec JV.Base.TimeStep JV.Model.MazeGen JV.Model.Maze JV.Proofs.MazeGen JV.Proofs.Maze JV.Proofs.Maze_GenTotal.
Theorem C11_Maze_last_iff rows cols T s a :
  Physical rows cols s -> linked rows cols s -> 0 <= a < 4 ->
  let s' := fst (step rows cols T s a) in
  (st (snd (step rows cols T s a)) = LAST <-> (at_target s' \/ T <= sc s')).
Proof. exact (last_iff_limit_or_target rows cols T s a). Qed.
Print Assumptions C11_Maze_last_iff.
Theorem C11_Maze_episode rows cols T s0 acts a :
  Physical rows cols s0 -> linked rows cols s0 -> sc s0 = 0 ->
  Forall (fun a => 0 <= a < 4) acts -> 0 <= a < 4 ->
  let s := run rows cols T s0 acts in
  let n := zlen acts in
  let t := snd (step rows cols T s a) in
  (n + 1 = T -> st t = LAST) /\
  (n + 1 < T -> st t = LAST -> at_target (fst (step rows cols T s a))) /\
  (T <= n + 1 -> st t = LAST).
Proof. exact (episode_limit rows cols T s0 acts a). Qed.
Print Assumptions C11_Maze_episode.
Theorem C11_Maze_generated_episode rows cols T draws i1 i2 acts a :
  1 <= rows -> 1 <= cols ->
  draws_valid (gen_start cols rows) draws = true -> gen_fuel cols rows <= zlen draws ->
  let w := maze (fst (generate_maze cols rows draws)) in
  valid_draw rows cols w i1 i2 = true ->
  Forall (fun a => 0 <= a < 4) acts -> 0 <= a < 4 ->
  let s := run rows cols T (fst (gen_init rows cols w i1 i2)) acts in
  let n := zlen acts in
  let t := snd (step rows cols T s a) in
  (n + 1 = T -> st t = LAST) /\
  (n + 1 < T -> st t = LAST -> at_target (fst (step rows cols T s a))) /\
  (T <= n + 1 -> st t = LAST).
Proof. exact (generated_episode_limit rows cols T draws i1 i2 acts a). Qed.
Print Assumptions C11_Maze_generated_episode.
Theorem C11_Maze_linked_preserved rows cols T s a :
  Physical rows cols s -> 0 <= a < 4 -> linked rows cols s -> linked rows cols (fst (step rows cols T s a)).
Proof. exact (step_linked rows cols T s a). Qed.
Theorem C11_Maze_default_limit rows cols : resolve_limit rows cols 0 = rows * cols.
Proof. exact (resolve_limit_default rows cols). Qed.
Theorem C11_Maze_given_limit rows cols t : t <> 0 -> resolve_limit rows cols t = t.
Proof. exact (resolve_limit_given rows cols t). Qed.
Example C11_Maze_nonvacuous :
  let s0 := fst toy_init in
  st (snd (step 5 5 3 (run 5 5 3 s0 [2;2]) 2)) = LAST /\ st (snd (step 5 5 3 (run 5 5 3 s0 [2]) 2)) = MID
  /\ st (snd (step 5 5 (resolve_limit 5 5 0) (run 5 5 25 s0 (repeat 1 24)) 1)) = LAST
  /\ st (snd (step 5 5 (resolve_limit 5 5 0) (run 5 5 25 s0 (repeat 1 23)) 1)) = MID.
Proof. vm_compute. repeat split; reflexivity. Qed.
