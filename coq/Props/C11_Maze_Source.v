(* C11 Maze over the SOURCE-TRANSLATED step (Gen/MazeSrc.v; see C09_Maze_Source.v; the default / given limit wiring is C11_Wiring.v): an
   episode of the translated step from a fresh, connected state ends exactly when the step count reaches the limit T, earlier only on the
   target, and every step from the limit on is LAST. *)
Require Import JV.Base.Prelude JV.Base.JaxIndex JV.Base.Codec JV.Base.TimeStep JV.Gen.TimeStepSrc JV.Gen.MazeSrc JV.Proofs.Maze_Src.
Require JV.Model.Maze JV.Proofs.Maze.
Theorem C11_Maze_Source_episode rows cols T s0 acts a :
  JV.Model.Maze.Physical rows cols (conv s0) -> JV.Proofs.Maze.linked rows cols (conv s0) -> s_step_count s0 = 0 ->
  Forall (fun a => 0 <= a < 4) acts -> 0 <= a < 4 ->
  let s := run_src rows cols T s0 acts in
  let n := zlen acts in
  let t := snd (step rows cols T s a) in
  (n + 1 = T -> st t = LAST) /\
  (n + 1 < T -> st t = LAST -> JV.Proofs.Maze.at_target (conv (fst (step rows cols T s a)))) /\
  (T <= n + 1 -> st t = LAST).
Proof. exact (src_episode_limit rows cols T s0 acts a). Qed.
Print Assumptions C11_Maze_Source_episode.
