(* C11 Minesweeper (no time limit): an episode from reset lasts at most rows*cols - num_mines steps, for every in-spec action
   sequence (run stops at the first LAST); more generally at most (safe squares not yet revealed) steps from any running
   state.  The bound is tight, and an episode that ends without an explored square or a mine being selected ends exactly
   when the last safe square is revealed (never earlier): the final board shows every safe square. *)
Require Import JV.Base.Prelude JV.Base.JaxIndex JV.Base.Codec JV.Base.TimeStep JV.Model.Minesweeper.
Require Import JV.Proofs.Minesweeper_lists JV.Proofs.Minesweeper_count JV.Proofs.Minesweeper.
Theorem C11_Minesweeper_horizon rc rows cols nm locs acts :
  0 <= rows -> 0 <= cols -> valid_draw rows cols nm locs = true -> nm < rows * cols -> Forall (in_spec_p rows cols) acts ->
  Z.of_nat (length (run rc rows cols (fst (init rows cols locs)) acts)) <= rows * cols - nm.
Proof. exact (horizon_from_reset rc rows cols nm locs acts). Qed.
Print Assumptions C11_Minesweeper_horizon.
Theorem C11_Minesweeper_horizon_from_state rc rows cols nm acts s :
  Phys rows cols nm s -> Live rows cols s -> Forall (in_spec_p rows cols) acts ->
  Z.of_nat (length (run rc rows cols s acts)) <= rows * cols - zlen (mines s) - revealed rows cols (board s).
Proof. exact (horizon rc rows cols nm acts s). Qed.
Theorem C11_Minesweeper_ends_only_when_solved rc rows cols nm s r c :
  0 < cols -> Phys rows cols nm s -> Live rows cols s -> 0 <= r < rows -> 0 <= c < cols ->
  st (snd (step rc rows cols s r c)) = LAST -> cell (board s) r c = -1 -> is_mine rows cols (mines s) r c = false ->
  forall r' c', 0 <= r' < rows -> 0 <= c' < cols -> is_mine rows cols (mines s) r' c' = false ->
  0 <= cell (board (fst (step rc rows cols s r c))) r' c'.
Proof. exact (solved_means_complete rc rows cols nm s r c). Qed.
Print Assumptions C11_Minesweeper_ends_only_when_solved.
Theorem C11_Minesweeper_never_earlier rc rows cols nm s r c :
  Phys rows cols nm s -> 0 <= r < rows -> 0 <= c < cols -> cell (board s) r c = -1 -> is_mine rows cols (mines s) r c = false ->
  revealed rows cols (board s) + 1 < rows * cols - zlen (mines s) -> st (snd (step rc rows cols s r c)) = MID.
Proof. exact (safe_step_continues rc rows cols nm s r c). Qed.
Example C11_Minesweeper_nonvacuous :
  valid_draw 2 3 2 ex_locs = true /\ Z.of_nat (length (run default_rcfg 2 3 ex_s0 (ex_acts ++ [(0, 1)]))) = 2 * 3 - 2
  /\ map (fun p => st (snd p)) (run default_rcfg 2 3 ex_s0 ex_acts) = [MID; MID; MID; LAST].
Proof. vm_compute. repeat split; reflexivity. Qed.
