(* C11 MMST: the n-th step of an episode (n = number of earlier steps + 1, reset state has step_count 0) is LAST
   exactly when n >= time_limit or every agent is finished: never later than time_limit, never earlier without
   completion.  (time_limit is the ENV's parameter; the generator's max_step only sizes the route array.) *)
Require Import JV.Base.Prelude JV.Base.JaxIndex JV.Base.Codec JV.Base.TimeStep JV.Model.Mmst JV.Proofs.Mmst_lib JV.Proofs.Mmst JV.Proofs.Mmst_Episode JV.Proofs.Mmst_Obs JV.Proofs.Mmst_Gen JV.Proofs.Mmst_Examples.
Theorem C11_Mmst_time_limit_exact c s0 l a p :
  sc s0 = 0 ->
  (st (snd (step c (run c s0 l) a p)) = LAST
   <-> (cT c <= zlen l + 1 \/ all_true (fin (fst (step c (run c s0 l) a p))) = true)).
Proof. exact (time_limit_exact c s0 l a p). Qed.
Print Assumptions C11_Mmst_time_limit_exact.
Theorem C11_Mmst_step_count c s l : sc (run c s l) = sc s + zlen l.
Proof. exact (run_count c s l). Qed.
Example C11_Mmst_nonvacuous :
  let run4 := run ex_cfg ex_s0 [([0;5],[0;1]); ([0;5],[0;1]); ([0;5],[0;1])] in
  sc run4 = 3 /\ st (snd (step ex_cfg run4 [0; 5] [0; 1])) = LAST
  /\ st (snd (step ex_cfg (run ex_cfg ex_s0 [([0;5],[0;1]); ([0;5],[0;1])]) [0; 5] [0; 1])) = MID.
Proof. exact ex_time_limit. Qed.
