(* C11 MultiCVRP: no time_limit argument; the structural horizon.  step_count starts at 1 and grows by one per step; a step
   taken at step_count >= 2n is LAST whatever the vehicles do, and before that a step is LAST only by completion.  Hence
   from reset a LAST step comes within 2*num_customers steps (one less than the 2n+1 used by the generic harness). *)
Require Import JV.Base.Prelude JV.Base.JaxIndex JV.Base.Codec JV.Base.TimeStep JV.Model.MultiCvrp JV.Proofs.MultiCvrp JV.Proofs.MultiCvrp_Episode.
Theorem C11_MultiCvrp_limit_is_last rnd sp n mc dist s acts : 2 * n <= scount s ->
  st (snd (step_r rnd sp n mc dist s acts)) = LAST.
Proof. exact (C11_limit_is_last rnd sp n mc dist s acts). Qed.
Theorem C11_MultiCvrp_never_earlier rnd sp n mc dist s acts : scount s < 2 * n ->
  (st (snd (step_r rnd sp n mc dist s acts)) = LAST <-> complete (update rnd mc dist s acts) = true).
Proof. exact (C11_before_limit rnd sp n mc dist s acts). Qed.
Theorem C11_MultiCvrp_horizon rnd sp n mc dist (k : nat) al s : 2 * n <= scount s + Z.of_nat k -> (k < length al)%nat ->
  exists j, (j <= k)%nat /\ st (snd (nth j (run rnd sp n mc dist s al) dflt)) = LAST.
Proof. exact (C11_horizon rnd sp n mc dist k al s). Qed.
Print Assumptions C11_MultiCvrp_horizon.
(* idling at the depot is always legal: the episode runs into the limit exactly at step 2n = 6 *)
Example C11_MultiCvrp_nonvacuous :
  map (fun p => st (snd p)) (run rid false 3 4 dlin (st0 [0; 2; 3; 2] 2 4 3) (repeat [0; 0] 7)) = [MID; MID; MID; MID; MID; LAST; LAST].
Proof. vm_compute. reflexivity. Qed.
