(* C11 PacMan: the counter advances by one per step; a step is LAST exactly when the counter reaches the limit T, the
   player was caught by a ghost, or no pellet is left.  From reset (counter 0): step number T is LAST (never later), a
   LAST before step T has another cause (death / board cleared).  The limit is the constructor argument:
   time_limit None (or 0) resolves to 1000, any other value is honoured as given (resolve_limit mirrors
   self.time_limit = time_limit or 1000, read from the source by the translator).
   Since the pellet counter is the number of pellets left on the map (invariant Book, C07/C08), "no pellet is left" can be
   read off the map itself: C11_PacMan_last_iff_board. *)
Require Import JV.Base.Prelude JV.Base.JaxIndex JV.Base.Codec JV.Base.TimeStep JV.Gen.PacManConsts JV.Model.PacMan JV.Proofs.PacMan JV.Proofs.PacMan_Inv JV.Proofs.PacMan_Rules JV.Proofs.PacMan_Book.
Theorem C11_PacMan_last_iff xs ys T s a d :
  let s' := fst (step xs ys T s a d) in
  st (snd (step xs ys T s a d)) = LAST <-> (T <= sc s' \/ dead s' = true \/ pellets s' = 0).
Proof. exact (last_iff xs ys T s a d). Qed.
Print Assumptions C11_PacMan_last_iff.
Theorem C11_PacMan_last_iff_board xs ys T s a d :
  Book xs ys s ->
  let s' := fst (step xs ys T s a d) in
  st (snd (step xs ys T s a d)) = LAST <-> (T <= sc s' \/ dead s' = true \/ live (pellet_locs s') = []).
Proof. exact (last_iff_board xs ys T s a d). Qed.
Print Assumptions C11_PacMan_last_iff_board.
Theorem C11_PacMan_episode xs ys T s0 acts a d :
  sc s0 = 0 ->
  let s := run xs ys T s0 acts in
  let n := zlen acts in
  let t := snd (step xs ys T s a d) in
  let s' := fst (step xs ys T s a d) in
  (T <= n + 1 -> st t = LAST) /\
  (n + 1 < T -> st t = LAST -> dead s' = true \/ pellets s' = 0).
Proof. exact (episode_limit xs ys T s0 acts a d). Qed.
Print Assumptions C11_PacMan_episode.
Theorem C11_PacMan_default_limit : resolve_limit 0 = 1000.
Proof. exact resolve_limit_default. Qed.
Theorem C11_PacMan_given_limit t : t <> 0 -> resolve_limit t = t.
Proof. exact (resolve_limit_given t). Qed.
Example C11_PacMan_nonvacuous :
  let s0 := gen_state DEFAULT_MAZE_ASCII in
  let w := (1, [4; 4; 4; 4]) in
  st (snd (step 31 28 3 (run 31 28 3 s0 [w; w]) 3 [0; 4; 4; 4])) = LAST
  /\ st (snd (step 31 28 3 (run 31 28 3 s0 [w]) 1 [4; 4; 4; 4])) = MID
  /\ st (snd (step 31 28 (resolve_limit 7) (run 31 28 7 s0 [w]) 1 [4; 4; 4; 4])) = MID.
Proof. vm_compute. repeat split; reflexivity. Qed.
