(* C11 RobotWarehouse: step_count grows by one per step; the step that makes it reach time_limit is LAST (never later);
   a LAST step before that has the one other cause, an agent collision (never earlier without a cause). *)
Require Import JV.Base.Prelude JV.Base.JaxIndex JV.Base.Codec JV.Base.TimeStep JV.Model.RobotWarehouse JV.Proofs.RobotWarehouse_lib JV.Proofs.RobotWarehouse JV.Proofs.RobotWarehouse_Step JV.Proofs.RobotWarehouse_Check.
Theorem C11_RobotWarehouse_counter c s acts draws : cnt (fst (step c s acts draws)) = cnt s + 1.
Proof. exact (step_cnt c s acts draws). Qed.
Theorem C11_RobotWarehouse_last_iff c s acts draws :
  st (snd (step c s acts draws)) = LAST <-> (collided c s acts = true \/ tlim c <= cnt s + 1).
Proof. exact (step_last_iff c s acts draws). Qed.
Print Assumptions C11_RobotWarehouse_last_iff.
Example C11_RobotWarehouse_nonvacuous :
  tlim ex_c = 5
  /\ (let s := mkS (gsh ex_s0) (gag ex_s0) (agents ex_s0) (shelves ex_s0) (queue ex_s0) 3 (amask ex_s0) in
      st (snd (step ex_c s [NOOP; NOOP] [0; 0])) = MID)
  /\ (let s := mkS (gsh ex_s0) (gag ex_s0) (agents ex_s0) (shelves ex_s0) (queue ex_s0) 4 (amask ex_s0) in
      st (snd (step ex_c s [NOOP; NOOP] [0; 0])) = LAST /\ collided ex_c s [NOOP; NOOP] = false).
Proof. vm_compute. repeat split; reflexivity. Qed.
