(* C11 RubiksCube: along an episode started with 0 <= step_count < time_limit the counter counts the steps, never
   exceeds time_limit, and the episode has ended (last timestep LAST) exactly when the counter equals time_limit or
   the cube is solved; as long as it has not ended every supplied action was consumed (it does not stop earlier). *)
Require Import JV.Base.Prelude JV.Base.JaxIndex JV.Base.Codec JV.Base.TimeStep JV.Gen.RubikTables JV.Model.RubiksCube.
Require Import JV.Proofs.RubiksCube_Lists JV.Proofs.RubiksCube_Cube JV.Proofs.RubiksCube_Action JV.Proofs.RubiksCube_Group JV.Proofs.RubiksCube_Env.
From Coq Require Import Permutation.
Theorem C11_RubiksCube_time_limit n T acts s : 0 <= count s < T ->
  let ts := fst (run n T s acts) in let sf := snd (run n T s acts) in
  count sf = count s + Z.of_nat (length ts) /\ count sf <= T /\
  (ended ts = true <-> ts <> [] /\ (count sf = T \/ Solved (cube_of sf))) /\
  (ended ts = false -> length ts = length acts).
Proof. exact (run_spec n T acts s). Qed.
Theorem C11_RubiksCube_reset_count n acts : count (fst (init n acts)) = 0.
Proof. reflexivity. Qed.
Print Assumptions C11_RubiksCube_time_limit.
Example C11_RubiksCube_nonvacuous :
  let s := fst (init 3 [3; 7; 4]) in
  map st (fst (run 3 3 s [(0, 0, 0); (1, 0, 0); (2, 0, 0); (3, 0, 0)])) = [MID; MID; LAST] /\
  count (snd (run 3 3 s [(0, 0, 0); (1, 0, 0); (2, 0, 0); (3, 0, 0)])) = 3.
Proof. vm_compute. auto. Qed.
