(* C11 SlidingTile: for every time_limit T >= 1, every board size, reward function, reset state (step counter 0) and every
   in-spec action sequence of length >= T: the episode (cut at its first LAST) has at most T steps, its last timestep is LAST,
   every earlier one is MID, and a LAST occurs only on the goal board or exactly at step number T -- never later, never
   earlier without another cause. *)
Require Import JV.Base.Prelude JV.Base.JaxIndex JV.Base.Codec JV.Base.TimeStep JV.Model.SlidingTile JV.Proofs.SlidingTile JV.Proofs.SlidingTile_Episode.
From Coq Require Import Permutation.
Theorem C11_SlidingTile_time_limit_exact n T rw s acts d : steps s = 0 -> 0 < T -> T <= Z.of_nat (length acts) ->
  let e := ep n T rw s acts in
  Z.of_nat (length e) <= T
  /\ st (snd (fst (last e d))) = LAST
  /\ Forall (fun x : item => st (snd (fst x)) = MID) (removelast e)
  /\ Forall (fun x : item => st (snd (fst x)) = LAST -> solved n (fst (fst x)) = true \/ steps (fst (fst x)) = T) e.
Proof. exact (time_limit_exact n T rw s acts d). Qed.
Theorem C11_SlidingTile_step_numbers n T rw acts s i x :
  nth_error (run n T rw s acts) i = Some x -> steps (fst (fst x)) = steps s + Z.of_nat i + 1.
Proof. exact (run_steps n T rw acts s i x). Qed.
Theorem C11_SlidingTile_last_iff n T rw s a : Inv n (bd s) -> 0 <= a < 4 ->
  (st (ts_of n T rw s a) = LAST <-> puz (nxt n T rw s a) = goal n \/ T <= steps (nxt n T rw s a)).
Proof. exact (fun I H => proj1 (proj2 (proj2 (proj2 (step_follows_rules n T rw s a I H))))). Qed.
Print Assumptions C11_SlidingTile_time_limit_exact.
Example C11_SlidingTile_nonvacuous :
  let s0 := gen_state 3 [0; 3; 0] [7; 9] in
  map (fun x : item => (steps (fst (fst x)), st (snd (fst x)))) (ep 3 3 0 s0 [0; 0; 1; 3; 2; 1]) = [(1, MID); (2, MID); (3, LAST)]
  /\ map (fun x : item => (steps (fst (fst x)), st (snd (fst x)))) (ep 3 1 1 s0 [0; 0]) = [(1, LAST)].
Proof. vm_compute. repeat split; reflexivity. Qed.
