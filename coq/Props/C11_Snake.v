(* C11 Snake: an episode ends exactly at time_limit unless it ended earlier for another cause:
   - never later: the step taken at step_count = T-1 is LAST; an episode has at most T steps and step_count <= T;
   - never earlier without a cause: a LAST step with step_count + 1 < T comes from an illegal move or a full board;
   - an episode that has not ended has had fewer than T steps; step_count counts the steps. *)
Require Import JV.Base.Prelude JV.Base.JaxIndex JV.Base.Codec JV.Base.TimeStep JV.Model.Snake JV.Proofs.Snake JV.Proofs.Snake_rules JV.Proofs.Snake_examples.
Theorem C11_Snake_never_later R C T s a d : T <= steps s + 1 -> st (snd (step R C T s a d)) = LAST.
Proof. exact (limit_is_last R C T s a d). Qed.
Theorem C11_Snake_not_earlier_without_cause R C T s a d :
  st (snd (step R C T s a d)) = LAST -> steps s + 1 < T ->
  jget false (amask s) a = false \/ all_true (body (fst (step R C T s a d))) = true.
Proof. exact (last_has_cause R C T s a d). Qed.
Theorem C11_Snake_episode_within_limit R C T acts s :
  Timed T s -> steps s + nsteps R C T s acts <= T /\ 0 <= steps (final R C T s acts) <= T.
Proof. exact (episode_within_limit R C T acts s). Qed.
Theorem C11_Snake_running_below_limit R C T acts s :
  Timed T s -> ended R C T s acts = false -> steps s + nsteps R C T s acts < T.
Proof. exact (running_below_limit R C T acts s). Qed.
Theorem C11_Snake_steps_counted R C T acts s : steps (final R C T s acts) = steps s + nsteps R C T s acts.
Proof. exact (steps_counted R C T acts s). Qed.
Print Assumptions C11_Snake_episode_within_limit.
Example C11_Snake_nonvacuous :
  nsteps 3 3 3 e0 ex_acts = 3 /\ ended 3 3 3 e0 ex_acts = true /\ steps (final 3 3 3 e0 ex_acts) = 3
  /\ ended 3 3 9 e0 [(1, (1, 2)); (1, (0, 0))] = false.
Proof. exact (proj2 (proj2 (proj2 (proj2 ex_episode)))). Qed.
