(* C11 Snake over the SOURCE-TRANSLATED step (Gen/SnakeSrc.v, regenerated from /repo on every run; see C09_Snake_Source.v; the limit wiring
   is C11_Wiring.v): every step taken when the step count reaches the limit is LAST (never later); a LAST before the limit has a cause --
   a masked-out move or a full board (never earlier without cause). *)
Require Import JV.Base.Prelude JV.Base.JaxIndex JV.Base.Codec JV.Base.TimeStep JV.Gen.TimeStepSrc JV.Gen.SnakeSrc JV.Proofs.Snake_Src.
Require JV.Model.Snake.
Theorem C11_Snake_Source_never_later R C T (draw : list (list bool) -> Z * Z) s a : T <= s_step_count s + 1 -> st (snd (step R C T draw s a)) = LAST.
Proof. exact (src_never_later R C T draw s a). Qed.
Print Assumptions C11_Snake_Source_never_later.
Theorem C11_Snake_Source_not_earlier_without_cause R C T (draw : list (list bool) -> Z * Z) s a :
  st (snd (step R C T draw s a)) = LAST -> s_step_count s + 1 < T ->
  jget false (s_action_mask s) a = false \/ JV.Model.Snake.all_true (s_body (fst (step R C T draw s a))) = true.
Proof. exact (src_not_earlier_without_cause R C T draw s a). Qed.
Print Assumptions C11_Snake_Source_not_earlier_without_cause.
