(* C11 Sokoban: for ALL states and actions a step is LAST exactly when the four boxes are on targets or the advanced
   counter reached the limit; the counter advances by one per step.  From reset: step number T is LAST (never later),
   and a LAST before step T happens only by solving the level (never earlier without cause). *)
Require Import JV.Base.Prelude JV.Base.JaxIndex JV.Base.Codec JV.Base.TimeStep JV.Model.Sokoban JV.Proofs.Sokoban_Grid JV.Proofs.Sokoban JV.Proofs.Sokoban_Levels.
Theorem C11_Sokoban_last_iff G T dense s a :
  let s' := fst (step G T dense s a) in
  st (snd (step G T dense s a)) = LAST <-> (cnt_of s' = N_BOXES \/ T <= sc s').
Proof. exact (step_last_iff G T dense s a). Qed.
Print Assumptions C11_Sokoban_last_iff.
Theorem C11_Sokoban_episode G T dense s0 acts a :
  sc s0 = 0 ->
  let s := run G T dense s0 acts in
  let n := zlen acts in
  let t := snd (step G T dense s a) in
  (n + 1 = T -> st t = LAST) /\
  (n + 1 < T -> st t = LAST -> cnt_of (fst (step G T dense s a)) = N_BOXES) /\
  (T <= n + 1 -> st t = LAST).
Proof. exact (episode_limit G T dense s0 acts a). Qed.
Print Assumptions C11_Sokoban_episode.
Theorem C11_Sokoban_counter G T dense s a : sc (fst (step G T dense s a)) = sc s + 1.
Proof. exact (step_sc G T dense s a). Qed.
Example C11_Sokoban_nonvacuous :
  let s0 := fst (gen_toy 0) in
  st (snd (step 10 3 true (run 10 3 true s0 [2;2]) 2)) = LAST /\ st (snd (step 10 3 true (run 10 3 true s0 [2]) 2)) = MID
  /\ st (snd (step 10 120 true (run 10 120 true s0 (repeat 0 119)) 0)) = LAST
  /\ st (snd (step 10 120 true (run 10 120 true s0 (repeat 0 118)) 0)) = MID.
Proof. vm_compute. repeat split; reflexivity. Qed.
