(* C11 Sokoban over the SOURCE-TRANSLATED step (Gen/SokobanSrc.v; see C09_Sokoban_Source.v; limit wiring: C11_Wiring.v): a step is LAST exactly
   when all boxes stand on targets or the step count has reached the limit; an episode of the translated step from a fresh state ends
   exactly at the limit unless the level is completed earlier. *)
Require Import JV.Base.Prelude JV.Base.JaxIndex JV.Base.Codec JV.Base.TimeStep JV.Gen.TimeStepSrc JV.Gen.SokobanSrc JV.Proofs.Sokoban_Src.
Require JV.Model.Sokoban.
Theorem C11_Sokoban_Source_last_iff T dense s a :
  let s' := conv (fst (step T (reward_src dense) s a)) in
  st (snd (step T (reward_src dense) s a)) = LAST <-> (JV.Proofs.Sokoban.cnt_of s' = JV.Model.Sokoban.N_BOXES \/ T <= JV.Model.Sokoban.sc s').
Proof. exact (src_last_iff T dense s a). Qed.
Print Assumptions C11_Sokoban_Source_last_iff.
Theorem C11_Sokoban_Source_episode T dense s0 acts a : s_step_count s0 = 0 ->
  let s := run_src T dense s0 acts in
  let n := zlen acts in
  let t := snd (step T (reward_src dense) s a) in
  (n + 1 = T -> st t = LAST) /\
  (n + 1 < T -> st t = LAST -> JV.Proofs.Sokoban.cnt_of (conv (fst (step T (reward_src dense) s a))) = JV.Model.Sokoban.N_BOXES) /\
  (T <= n + 1 -> st t = LAST).
Proof. exact (src_episode_limit T dense s0 acts a). Qed.
Print Assumptions C11_Sokoban_Source_episode.
