(* C11 Sudoku (no time limit): for every Inv state and every in-spec action sequence the episode has at most
   max 1 (number of empty cells) steps, and the number of empty cells is 81 - givens: a non-terminal step needs a masked-in
   action, fills exactly one empty cell and leaves at least one.  (A reset on a complete grid still takes one step to end.)   *)
Require Import JV.Base.Prelude JV.Base.JaxIndex JV.Base.Codec JV.Base.TimeStep JV.Model.Sudoku JV.Proofs.Sudoku.
Theorem C11_Sudoku_horizon acts s :
  Inv s -> Forall act_ok acts -> Z.of_nat (length (run s acts)) <= Z.max 1 (empties (board s)).
Proof. exact (C11_horizon acts s). Qed.
Print Assumptions C11_Sudoku_horizon.
Theorem C11_Sudoku_empties_is_81_minus_givens b : shape_b b = true -> empties b = 81 - givens b.
Proof. exact (empties_givens b). Qed.
Theorem C11_Sudoku_mid_step_fills_one s r c d :
  Inv s -> in_spec r c d -> st (snd (step s r c d)) = MID ->
  mask_at (amask s) r c d = true /\
  empties (board (fst (step s r c d))) = empties (board s) - 1 /\ 1 <= empties (board (fst (step s r c d))).
Proof. exact (mid_step_consumes s r c d). Qed.
Print Assumptions C11_Sudoku_mid_step_fills_one.
Example C11_Sudoku_nonvacuous :
  let s0 := fst (init sample_puzzle) in
  empties (board s0) = 64 /\ givens (board s0) = 17
  /\ length (run s0 [(0, 0, 1); (0, 1, 2); (0, 3, 0); (5, 5, 5)]) = 3%nat
  /\ length (run (fst (init one_hole)) [(4, 7, 2); (0, 0, 0)]) = 1%nat.
Proof. vm_compute. repeat split. Qed.
