(* C11 TSP (structural horizon num_cities; the environment has no time limit): from a reset state every episode, under ANY
   in-spec actions, both reward functions, every rounding and every distance oracle, has at most num_cities steps, and any
   num_cities in-spec actions DO reach a LAST step.  In general an episode from a consistent state has at most
   max(1, num_cities - num_visited) steps.  Mask-respecting episodes take exactly num_cities steps (C08_TSP_return). *)
Require Import JV.Base.Prelude JV.Base.JaxIndex JV.Base.Codec JV.Base.TimeStep JV.Model.TSP JV.Proofs.TSP_lists JV.Proofs.TSP.
Theorem C11_TSP_episode_within_num_cities n pen dist c rnd sparse acts :
  1 <= n -> Forall (fun a => 0 <= a < n) acts ->
  let tr := run n pen dist rnd sparse (fst (init n c)) acts in
  Z.of_nat (length tr) <= n /\ (n <= Z.of_nat (length acts) -> ended tr).
Proof. intro H1. exact (C11_episode_within_num_cities n pen dist (ltac:(lia) : 0 <= n) c rnd sparse acts H1). Qed.
Print Assumptions C11_TSP_episode_within_num_cities.
Theorem C11_TSP_horizon n pen dist rnd sparse acts s : 0 <= n ->
  Inv n s -> Forall (fun a => 0 <= a < n) acts ->
  Z.of_nat (length (run n pen dist rnd sparse s acts)) <= Z.max 1 (n - nvis s).
Proof. intro Hn. exact (C11_horizon n pen dist Hn rnd sparse acts s). Qed.
Print Assumptions C11_TSP_horizon.
Theorem C11_TSP_legal_episode_exact n pen dist c acts : 0 <= n ->
  let s0 := fst (init n c) in
  legal_run n pen dist rid true s0 acts -> ended (run n pen dist rid true s0 acts) ->
  length (run n pen dist rid true s0 acts) = Z.to_nat n /\ nvis (final (run n pen dist rid true s0 acts) s0) = n.
Proof. exact (C11_legal_episode_exact n pen dist c acts). Qed.
Print Assumptions C11_TSP_legal_episode_exact.
(* the bound is attained (4 legal cities: MID MID MID LAST), and an early revisit ends at once *)
Example C11_TSP_nonvacuous :
  let s0 := fst (init 4 [0; 0; 3; 0; 7; 0; 12; 0]) in
  map (fun p => st (snd p)) (run 4 99 ex_dist rid false s0 [2; 0; 3; 1; 1]) = [MID; MID; MID; LAST]
  /\ map (fun p => st (snd p)) (run 4 99 ex_dist rid false s0 [2; 0; 2; 1; 3]) = [MID; MID; LAST].
Proof. vm_compute. split; reflexivity. Qed.
