(* C11 TSP over the SOURCE-TRANSLATED state part of the step (Gen/TspSrc.v; see C09_TSP_Source.v): an episode of the translated step lasts at
   most max(1, number of unvisited cities) steps -- the known horizon. *)
Require Import JV.Base.Prelude JV.Base.JaxIndex JV.Base.Codec JV.Base.TimeStep JV.Gen.TimeStepSrc JV.Gen.TspSrc.
Require Import JV.Proofs.TSP_lists JV.Proofs.TSP JV.Proofs.Tsp_Src.
Require JV.Model.TSP.
Theorem C11_TSP_Source_horizon n pen dist rnd sparse acts s : 0 <= n -> JV.Model.TSP.Inv n (conv s) -> Forall (fun a => 0 <= a < n) acts ->
  Z.of_nat (length (run_src rnd sparse n pen dist s acts)) <= Z.max 1 (n - JV.Model.TSP.nvis (conv s)).
Proof. exact (src_horizon n pen dist rnd sparse acts s). Qed.
Print Assumptions C11_TSP_Source_horizon.
