(* C11 Tetris: episodes end exactly at time_limit.  step_count counts the steps; a step is LAST iff no placement is left,
   the action was masked out, or step_count reached time_limit (never earlier without one of the two other causes, never
   later): over a run, if all emitted steps are MID then step_count < time_limit, and the k-th step with
   step_count + k + 1 >= time_limit is LAST. *)
Require Import JV.Base.Prelude JV.Base.JaxIndex JV.Base.Codec JV.Base.TimeStep JV.Gen.TetrisConsts JV.Model.Tetris.
Require Import JV.Proofs.Tetris JV.Proofs.Tetris_place JV.Proofs.Tetris_clear JV.Proofs.Tetris_phys JV.Proofs.Tetris_step.
Theorem C11_Tetris_last_iff nr nc tl s rot x d :
  Shape nr nc (grid s) -> 1 <= nr -> 1 <= nc ->
  let '(s', ts, _) := step nr nc tl s rot x d in
  step_count s' = step_count s + 1
  /\ (st ts = LAST <-> (mask_any (amask s') = false \/ gget false (amask s) rot x = false \/ tl <= step_count s')).
Proof.
  intros HS Hnr Hnc. pose proof (step_type_cases nr nc tl s rot x d HS Hnr Hnc) as H.
  destruct (step nr nc tl s rot x d) as [[s' ts] o]. exact (conj (proj1 H) (proj1 (proj2 H))).
Qed.
Print Assumptions C11_Tetris_last_iff.
Theorem C11_Tetris_run nr nc tl l s :
  Shape nr nc (grid s) -> 1 <= nr -> 1 <= nc ->
  let '(s', ts) := run nr nc tl s l in
  step_count s' = step_count s + zlen l /\ zlen ts = zlen l
  /\ score s' = score s + zsum (map (fun t => zsum (reward t)) ts)
  /\ (all_mid ts -> step_count s' < tl \/ l = [])
  /\ (forall k, 0 <= k < zlen l -> tl <= step_count s + k + 1 -> st (znth (restart 1) ts k) = LAST).
Proof. exact (run_counter nr nc tl l s). Qed.
Print Assumptions C11_Tetris_run.
Example C11_Tetris_nonvacuous :
  map st (snd (run 4 4 2 ex_s0 [(1, 0, 3); (0, 0, 0)])) = [MID; LAST] /\ map st (snd (run 4 4 3 ex_s0 [(1, 0, 3); (0, 0, 0)])) = [MID; MID].
Proof. vm_compute. repeat split; reflexivity. Qed.
