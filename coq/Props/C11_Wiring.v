(* C11, time-limit WIRING, over definitions TRANSLATED FROM /repo's CURRENT SOURCE on every run (Gen/TimeLimitSrc.v, produced by
   harness/translators/time_limit.py from the `ast` of each env.py): the expression assigned to `self.time_limit`, the default of
   the constructor argument, and the comparison that ends the episode.  Every statement is for ALL values of the limit / counter. *)
Require Import ZArith Bool.
Require Import JV.Gen.TimeLimitSrc JV.Proofs.TimeLimit_Wiring.
Require JV.Model.Cleaner JV.Model.Maze JV.Model.PacMan JV.Model.MultiCvrp.
Open Scope Z_scope.

(* an explicit time limit t is the limit the environment uses -- for every t (t <> 0 where the source says `time_limit or ...`) *)
Theorem C11_Wiring_explicit_limit_is_used t r c :
  snake_limit_src (Some t) r c = Some t /\ lbf_limit_src (Some t) r c = Some t /\ mmst_limit_src (Some t) r c = Some t
  /\ connector_limit_src (Some t) r c = Some t /\ robot_warehouse_limit_src (Some t) r c = Some t
  /\ sokoban_limit_src (Some t) r c = Some t /\ tetris_limit_src (Some t) r c = Some t
  /\ sliding_tile_puzzle_limit_src (Some t) r c = Some t /\ rubiks_cube_limit_src (Some t) r c = Some t
  /\ (t <> 0 -> cleaner_limit_src (Some t) r c = Some t /\ maze_limit_src (Some t) r c = Some t /\ pac_man_limit_src (Some t) r c = Some t).
Proof.
  exact (conj (snake_explicit t r c) (conj (lbf_explicit t r c) (conj (mmst_explicit t r c) (conj (connector_explicit t r c)
        (conj (robot_warehouse_explicit t r c) (conj (sokoban_explicit t r c) (conj (tetris_explicit t r c)
        (conj (sliding_tile_puzzle_explicit t r c) (conj (rubiks_cube_explicit t r c)
        (fun H => conj (cleaner_explicit t r c H) (conj (maze_explicit t r c H) (pac_man_explicit t r c H)))))))))))).
Qed.
Print Assumptions C11_Wiring_explicit_limit_is_used.

Theorem C11_Wiring_documented_defaults r c :
  (snake_default = Some 4000 /\ lbf_default = Some 100 /\ mmst_default = Some 70 /\ connector_default = Some 50
   /\ robot_warehouse_default = Some 500 /\ sokoban_default = Some 120 /\ tetris_default = Some 400
   /\ sliding_tile_puzzle_default = Some 500 /\ rubiks_cube_default = Some 200
   /\ cleaner_default = None /\ maze_default = None /\ pac_man_default = None)
  /\ (cleaner_limit_src cleaner_default r c = Some (r * c) /\ cleaner_limit_src (Some 0) r c = Some (r * c))
  /\ (maze_limit_src maze_default r c = Some (r * c) /\ maze_limit_src (Some 0) r c = Some (r * c))
  /\ (pac_man_limit_src pac_man_default r c = Some 1000 /\ pac_man_limit_src (Some 0) r c = Some 1000).
Proof. exact (conj defaults_positive (conj (cleaner_none r c) (conj (maze_none r c) (pac_man_none r c)))). Qed.
Print Assumptions C11_Wiring_documented_defaults.

(* the translated wiring is the wiring of the hand models used by every other C11 theorem *)
Theorem C11_Wiring_source_is_model o r c :
  cleaner_limit_src o r c = Some (JV.Model.Cleaner.eff_limit (opt0 o) r c)
  /\ maze_limit_src o r c = Some (JV.Model.Maze.resolve_limit r c (opt0 o))
  /\ pac_man_limit_src o r c = Some (JV.Model.PacMan.resolve_limit (opt0 o)).
Proof. exact (conj (cleaner_model o r c) (conj (maze_model o r c) (pac_man_model o r c))). Qed.
Print Assumptions C11_Wiring_source_is_model.

Theorem C11_Wiring_limit_test_is_geq count limit :
  snake_limit_test count limit = (limit <=? count) /\ cleaner_limit_test count limit = (limit <=? count)
  /\ lbf_limit_test count limit = (limit <=? count) /\ pac_man_limit_test count limit = (limit <=? count)
  /\ maze_limit_test count limit = (limit <=? count) /\ mmst_limit_test count limit = (limit <=? count)
  /\ connector_limit_test count limit = (limit <=? count) /\ robot_warehouse_limit_test count limit = (limit <=? count)
  /\ sokoban_limit_test count limit = (limit <=? count) /\ tetris_limit_test count limit = (limit <=? count)
  /\ sliding_tile_puzzle_limit_test count limit = (limit <=? count) /\ rubiks_cube_limit_test count limit = (limit <=? count).
Proof. exact (tests_are_geq count limit). Qed.
Print Assumptions C11_Wiring_limit_test_is_geq.

Theorem C11_Wiring_structural_horizons count n v nb s' :
  (multi_cvrp_env_horizon_test_0 count n v = (2 * n <? count)
   /\ multi_cvrp_reward_horizon_test_0 count n v = (2 * n <? count)
   /\ multi_cvrp_reward_horizon_test_1 count n v = (2 * n <? count))
  /\ multi_cvrp_env_horizon_test_0 (JV.Model.MultiCvrp.scount s') n v = JV.Model.MultiCvrp.at_limit n s'
  /\ flat_pack_env_horizon_test_0 count nb = (nb <=? count).
Proof. exact (conj (multi_cvrp_horizon count n v) (conj (multi_cvrp_model n v s') (flat_pack_horizon count nb))). Qed.
Print Assumptions C11_Wiring_structural_horizons.

Example C11_Wiring_nonvacuous :
  pac_man_limit_src (Some 5) 31 28 = Some 5 /\ maze_limit_src None 5 11 = Some 55 /\ cleaner_limit_src (Some 0) 3 4 = Some 12
  /\ snake_limit_test 7 7 = true /\ snake_limit_test 6 7 = false /\ multi_cvrp_env_horizon_test_0 12 6 3 = false
  /\ multi_cvrp_env_horizon_test_0 13 6 3 = true.
Proof. vm_compute. repeat split; reflexivity. Qed.
