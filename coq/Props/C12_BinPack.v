(* C12 BinPack.  sorted_ems_indexes (recomputed by reset and by every step) lists every buffer slot exactly once, by DECREASING
   masked float32 volume (inactive slots count 0), equal volumes by increasing index (stable argsort); the observation shows the
   first obs_num_ems slots of that order - coordinates as numerators over the container lengths when normalize_dimensions - with
   their activity flags, and action[0] = e is resolved through the same table: the step packs into slot sorted[e], the one shown
   at position e (mask row e is about that slot: C04).  Item sizes / items_mask / items_placed / action_mask are copies or ratios
   of state fields (compared by the harness, float32(num)/float32(den) exactly). *)
Require Import JV.Base.Prelude JV.Base.JaxIndex JV.Base.Codec JV.Base.TimeStep JV.Model.BinPack JV.Proofs.BinPack_lib JV.Proofs.BinPack JV.Proofs.BinPack_obs.
(* a concrete instance: container 4x2x2, two items 2x2x2 and one 3x2x2, buffer of 4 EMSs, 2 observed *)
Definition ex_c := make_container 4 2 2.
Definition ex_items := [mkIt 2 2 2; mkIt 2 2 2; mkIt 3 2 2].
Definition ex_s0 := fst (init 2 ex_c 4 ex_items [true; true; true]).
Definition ex_s1 := fst (step 2 false ex_s0 0 0).
Definition ex_s2 := fst (step 2 false ex_s1 0 1).
Theorem C12_BinPack_order ks :
  sorted_b ks (argsort_desc ks) = true /\ NoDup (argsort_desc ks) /\
  (forall x, In x (argsort_desc ks) <-> 0 <= x < zlen ks) /\ zlen (argsort_desc ks) = zlen ks.
Proof. exact (argsort_spec ks). Qed.
Theorem C12_BinPack_order_meaning ks l :
  sorted_b ks l = true -> forall a b, (a < b < length l)%nat -> before ks (nth a l 0) (nth b l 0) = true.
Proof. exact (sorted_b_spec ks l). Qed.
Theorem C12_BinPack_view n m obs s e :
  shape n m s -> consistent obs s -> obs <= m -> 0 <= e < obs ->
  let k := znth 0 (sorted_idx s) e in
  0 <= k < m /\
  znth sp0 (obs_ems obs s) e = ems_at s k /\ znth false (obs_ems_mask obs s) e = emask_at s k /\
  jget 0 (sorted_idx s) e = k.
Proof. exact (observation_view n m obs s e). Qed.
Theorem C12_BinPack_step_consistent obs s a0 a1 :
  sorted_idx (step_state obs s a0 a1) = sorted_of (ems (step_state obs s a0 a1)) (ems_mask (step_state obs s a0 a1)).
Proof. exact (proj1 (step_state_consistent obs s a0 a1)). Qed.
Print Assumptions C12_BinPack_order.
Print Assumptions C12_BinPack_view.
Example C12_BinPack_nonvacuous :
  argsort_desc [5; 0; 9; 5; 9; 0] = [2; 4; 0; 3; 1; 5] /\ sorted_b [5; 0; 9; 5; 9; 0] [2; 4; 0; 3; 1; 5] = true
  /\ sorted_b [5; 0; 9; 5; 9; 0] [4; 2; 0; 3; 1; 5] = false
  /\ sorted_idx ex_s1 = [0; 1; 2; 3] /\ obs_ems 2 ex_s1 = [mkSp 2 4 0 2 0 2; sp0] /\ obs_ems_mask 2 ex_s1 = [true; false].
Proof. vm_compute. repeat split; reflexivity. Qed.
