(* C12 CVRP: the observation is (demands, ~visited_mask, position, trajectory, capacity) copied from the state - demands and
   capacity are shown divided by max_capacity, a scaling checked exactly (up to XLA's one-ulp reciprocal rewrite) by the
   harness - and the action mask, which is the rule of C04 evaluated on THAT state (not a stale one) for every node. *)
Require Import JV.Base.Prelude JV.Base.JaxIndex JV.Base.Codec JV.Base.TimeStep JV.Model.CVRP JV.Proofs.CVRP.
Theorem C12_CVRP_observation n s : shape n s ->
  observe s = (demands s, map negb (visited s), pos s, traj s, cap s, mask s)
  /\ zlen (mask s) = n + 1 /\ (forall a, 0 <= a <= n -> jget false (mask s) a = legal_b n s a).
Proof. exact (C12_observation n s). Qed.
Print Assumptions C12_CVRP_observation.
Example C12_CVRP_nonvacuous :
  observe (mkS [0; 2; 3; 1] 3 2 [false; false; false; true] [0; 3; 0; 0; 0; 0] 2)
  = ([0; 2; 3; 1], [true; true; true; false], 3, [0; 3; 0; 0; 0; 0], 2, [true; true; false; false]).
Proof. vm_compute. reflexivity. Qed.
