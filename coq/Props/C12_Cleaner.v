(* C12 Cleaner: the observation is the copy (grid, agents_locations, action_mask, step_count) of the state, and the
   mask shown is exactly the set of legal moves in the grid shown (no stale mask). *)
Require Import JV.Base.Prelude JV.Base.JaxIndex JV.Base.Codec JV.Base.TimeStep JV.Model.Cleaner JV.Proofs.Cleaner.
Theorem C12_Cleaner_observe c s :
  Inv c s ->
  let '(g, ls, m, n) := observe s in
  g = grid s /\ ls = locs s /\ m = amask s /\ n = cnt s /\
  forall i a, 0 <= i < nag c -> 0 <= a < 4 ->
    (jget false (znth [] m i) a = true <-> legal (rows c) (cols c) g (znth (0, 0) ls i) a).
Proof. exact (C12_observe c s). Qed.
Print Assumptions C12_Cleaner_observe.
Example C12_Cleaner_nonvacuous :
  observe (fst (step ex_cfg ex_s0 [1; 1]))
  = ([[1; 1; 0]; [2; 2; 0]], [(0, 1); (0, 1)], [[false; true; false; true]; [false; true; false; true]], 1).
Proof. vm_compute. reflexivity. Qed.
