(* C12 Connector: the observation is (state.grid, the action mask of the successor's grid and agents, step_count): plain
   copies of the successor state plus the mask function characterised in C04.  NOTE: in the pinned source the grid is NOT
   relabelled per agent (env.py emits grid=state.grid with spec shape (grid_size, grid_size), as docs/environments/
   connector.md says); the docstring of types.Observation still describes an older (num_agents, G, G) relabelled view. *)
Require Import JV.Base.Prelude JV.Base.JaxIndex JV.Base.Codec JV.Base.TimeStep JV.Model.Connector JV.Proofs.Connector.
Theorem C12_Connector_observation c s acts :
  observe c (next c s acts) = (grid (next c s acts), maskof c s acts, cnt s + 1).
Proof. exact (C12_observation c s acts). Qed.
Theorem C12_Connector_mask_is_legal_table c s :
  dims (gsz c) (grid s) -> snd (fst (observe c s)) = map (fun ag => map (legal_b (gsz c) (grid s) ag) (zrange 5)) (agents s).
Proof. intro D. unfold observe. cbn [fst snd]. apply map_ext. intro ag. exact (C04_mask_table (gsz c) (grid s) ag D). Qed.
Print Assumptions C12_Connector_observation.
Example C12_Connector_nonvacuous :
  observe ex_cfg (next ex_cfg ex_s0 [2; 4]) =
  ([[1; 2; 3]; [5; 4; 0]; [0; 0; 6]], [[true; false; true; false; false]; [true; false; false; true; false]], 1).
Proof. vm_compute. reflexivity. Qed.
