(* C12 FlatPack: the observation is the triple (grid, blocks, action_mask) copied from the state; with the invariant the
   observed mask is the mask of the observed grid (never stale). *)
Require Import JV.Base.Prelude JV.Base.JaxIndex JV.Base.Codec JV.Base.TimeStep JV.Model.FlatPack JV.Proofs.FlatPack JV.Proofs.FlatPack_Pack.
Theorem C12_FlatPack_observation_is_state s : observe s = (grid s, blocks s, amask s).
Proof. exact eq_refl. Qed.
Theorem C12_FlatPack_observed_mask_fresh cf s b k r c :
  let s' := fst (step cf s b k r c) in
  amask s' = make_mask (cR cf) (cC cf) (cN cf) (grid s') (blocks s) (placed s').
Proof. exact (step_amask cf s b k r c). Qed.
Print Assumptions C12_FlatPack_observed_mask_fresh.
Example C12_FlatPack_nonvacuous : let cf := mkC 5 5 4 0 in
  fst (fst (observe (fst (step cf (fst (init cf toy_blocks_rot)) 0 2 0 0)))) = [[1;1;1;0;0];[1;1;0;0;0];[0;1;0;0;0];[0;0;0;0;0];[0;0;0;0;0]].
Proof. vm_compute. reflexivity. Qed.
