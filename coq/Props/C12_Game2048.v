(* C12 Game2048: the observation is (board, action_mask) of the state, and the observed mask is exactly the legal set of the
   observed board (never stale), on every state satisfying Inv. *)
Require Import JV.Base.Prelude JV.Base.JaxIndex JV.Base.Codec JV.Base.TimeStep JV.Model.Game2048
  JV.Proofs.Game2048_Row JV.Proofs.Game2048_Board JV.Proofs.Game2048.
Theorem C12_Game2048_observe n s : Inv n s ->
  observe s = (board s, amask s) /\ snd (observe s) = rules_mask n (fst (observe s))
  /\ (forall a, 0 <= a < 4 -> (jget false (snd (observe s)) a = true <-> legal n (fst (observe s)) a)).
Proof. exact (observe_faithful n s). Qed.
Print Assumptions C12_Game2048_observe.
Example C12_Game2048_nonvacuous : Inv 4 ex_state /\ observe ex_state = (ex_board, [true; true; true; true]).
Proof. split; [exact ex_Inv|reflexivity]. Qed.
