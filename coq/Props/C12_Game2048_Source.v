(* C12 Game2048 over the SOURCE-TRANSLATED step (Gen/Game2048Src.v; see C09_Game2048_Source.v): the observation handed out by a step is the board
   and the mask of the NEW state -- the same objects, so it can never be stale. *)
Require Import JV.Base.Prelude JV.Base.JaxIndex JV.Base.Codec JV.Base.TimeStep JV.Gen.TimeStepSrc JV.Gen.Game2048Src JV.Proofs.Game2048_Row JV.Proofs.Game2048_Board JV.Proofs.Game2048 JV.Proofs.Game2048_Src.
Require JV.Model.Game2048.
Theorem C12_Game2048_Source_obs_is_new_state n (mv : list (list Z) -> Z -> list (list Z) * Z) cm di dv s a :
  let r := step n mv cm di dv s a in
  step_obs n mv cm di dv s a = mkObservation (s_board (fst r)) (s_action_mask (fst r)).
Proof. exact (obs_src n mv cm di dv s a). Qed.
Print Assumptions C12_Game2048_Source_obs_is_new_state.
