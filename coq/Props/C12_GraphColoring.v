(* C12 GraphColoring: the observation the code builds in step (old state's adjacency, new colours, next node index, next
   state's mask) and in reset is exactly the view (adj_matrix, colors, current_node_index, action_mask) of the state it
   returns; and the observed mask is the legal set of THAT observed state: colour c is shown True iff no neighbour of the
   observed current node has colour c in the observed colours (not a stale node / stale colouring) - at reset, after every
   in-spec colour, legal or not, and on the terminal step. *)
Require Import JV.Base.Prelude JV.Base.JaxIndex JV.Base.Codec JV.Base.TimeStep JV.Model.GraphColoring JV.Proofs.GraphColoring
  JV.Proofs.GraphColoring_rules JV.Proofs.GraphColoring_episode JV.Proofs.GraphColoring_gen.
Theorem C12_GraphColoring_obs_step_is_view n s a : obs_step n s a = observe (fst (step n s a)).
Proof. exact (C12_obs_step_is_view n s a). Qed.
Theorem C12_GraphColoring_obs_init_is_view n adj0 : obs_init n adj0 = observe (fst (init n adj0)).
Proof. exact (C12_obs_init_is_view n adj0). Qed.
Theorem C12_GraphColoring_observation n s :
  0 < n -> Inv0 n s ->
  observe s = (adj s, colors s, cur s, map (legal_b n (adj s) (colors s) (cur s)) (zrange n)).
Proof. exact (C12_observation n s). Qed.
Print Assumptions C12_GraphColoring_observation.
Theorem C12_GraphColoring_step_observation n s a :
  0 < n -> Inv0 n s -> 0 <= a < n ->
  let s' := fst (step n s a) in
  obs_step n s a = (adj s, colors s', cur s', map (legal_b n (adj s) (colors s') (cur s')) (zrange n))
  /\ colors s' = paint n (colors s) (cur s) a /\ cur s' = next_node n (cur s).
Proof. exact (C12_step_observation n s a). Qed.
Print Assumptions C12_GraphColoring_step_observation.
Theorem C12_GraphColoring_reset_observation n adj0 :
  0 < n -> graph_wf n adj0 ->
  obs_init n adj0 = (adj0, repeat (-1) (Z.to_nat n), 0, map (legal_b n adj0 (repeat (-1) (Z.to_nat n)) 0) (zrange n)).
Proof. exact (C12_reset_observation n adj0). Qed.
Example C12_GraphColoring_nonvacuous :
  let adj0 := gen_adj 3 [[true;true;true];[true;true;true];[false;true;true]] in
  let s1 := fst (step 3 (fst (init 3 adj0)) 0) in
  adj0 = [[false; true; false]; [true; false; true]; [false; true; false]]
  /\ obs_step 3 s1 1 = (adj0, [0; 1; -1], 2, [true; false; true])
  /\ map (legal_b 3 adj0 [0; 1; -1] 2) (zrange 3) = [true; false; true]
  /\ map (legal_b 3 adj0 [0; 1; -1] 1) (zrange 3) = [false; true; true].   (* the stale node's legal set would differ *)
Proof. vm_compute. repeat split; reflexivity. Qed.
