(* C12 JobShop: the observation is the six state fields copied (ops_machine_ids, ops_durations, ops_mask, machines_job_ids,
   machines_remaining_times, action_mask) and the action mask among them is the one computed from THAT state (not a stale
   one), hence - by C04 - the exact set of legal (machine, job) pairs of the observed state. *)
Require Import JV.Base.Prelude JV.Base.JaxIndex JV.Base.Codec JV.Base.TimeStep JV.Proofs.TimeStep_laws.
Require Import JV.Model.JobShop JV.Proofs.JobShop_lib JV.Proofs.JobShop_step JV.Proofs.JobShop_sched JV.Proofs.JobShop_episode JV.Proofs.JobShop_gen.
Theorem C12_JobShop_observe_step c s act : let s' := fst (step c s act) in
  observe s' = (omach s, odur s, omask s', mjob s', mrem s', create_mask c (mjob s') (mrem s') (omach s') (omask s')).
Proof. exact (observe_step c s act). Qed.
Theorem C12_JobShop_observe_init c om od : let s := fst (init c om od) in
  observe s = (om, od, omask s, mjob s, mrem s, create_mask c (mjob s) (mrem s) (omach s) (omask s)).
Proof. exact (observe_init c om od). Qed.
Theorem C12_JobShop_observed_mask_is_legal c s act m j : shape c s -> 0 <= m < nm c -> 0 <= j < nj c ->
  let s' := fst (step c s act) in
  let '(_, _, _, _, _, mask) := observe s' in (gat false mask m j = true <-> legal c s' m j).
Proof.
  intros Sh Hm Hj. cbv zeta. unfold observe.
  exact (mask_iff_legal c _ m j (step_shape c s act Sh) (step_mask_fresh c s act) Hm Hj).
Qed.
Print Assumptions C12_JobShop_observed_mask_is_legal.
Definition toy_s0 := fst (init toy_cfg toy_mach toy_dur).
Definition toy_acts : list (list Z) := [[3;4;0;1];[5;5;5;5];[5;5;1;0];[5;2;5;5];[4;5;5;3];[3;0;5;2];[1;4;0;5];[3;5;5;5]].
Example C12_JobShop_nonvacuous :
  let '(_, _, ok, mj, mr, mask) := observe (fst (step toy_cfg toy_s0 [3;4;0;1])) in
  mj = [3;4;0;1] /\ mr = [3;2;1;1] /\ nth 0 ok [] = [false;true;true;true] /\ nth 3 mask [] = [false;false;false;false;false;true].
Proof. vm_compute. repeat split; reflexivity. Qed.
