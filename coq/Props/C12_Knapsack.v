(* C12 Knapsack: the observation is (weights, values, packed_items) copied from the state and the action mask, which is the
   rule "unpacked and weight <= remaining budget" evaluated on THAT state (not a stale one) for every item. *)
Require Import JV.Base.Prelude JV.Base.JaxIndex JV.Base.Codec JV.Base.TimeStep JV.Model.Knapsack JV.Proofs.Knapsack.
Theorem C12_Knapsack_observation n s : shape n s ->
  observe s = (weights s, values s, packed s, map (legal_b s) (zrange n)).
Proof. exact (C12_observation n s). Qed.
Print Assumptions C12_Knapsack_observation.
Example C12_Knapsack_nonvacuous :
  observe (mkS [512; 513; 100] [1; 2; 3] [false; false; true] 512)
  = ([512; 513; 100], [1; 2; 3], [false; false; true], [true; false; false]).
Proof. vm_compute. reflexivity. Qed.
