(* C12 Knapsack over the SOURCE-TRANSLATED observation (Gen/KnapsackSrc.v: _state_to_observation; see C09_Knapsack_Source.v): the observation is
   the state's weights, values and packed flags -- plain copies -- plus the mask, whose entry i is True exactly when item i is legal (not
   packed and fitting the remaining budget). *)
Require Import JV.Base.Prelude JV.Base.JaxIndex JV.Base.Codec JV.Base.TimeStep JV.Gen.TimeStepSrc JV.Gen.KnapsackSrc JV.Proofs.Knapsack_Src.
Require JV.Model.Knapsack.
Theorem C12_Knapsack_Source_observation n s : JV.Model.Knapsack.shape n (conv s) ->
  let o := state_to_observation s in
  (o_weights o, o_values o, o_packed_items o, o_action_mask o)
  = (s_weights s, s_values s, s_packed_items s, map (JV.Model.Knapsack.legal_b (conv s)) (zrange n)).
Proof. exact (src_observation n s). Qed.
Print Assumptions C12_Knapsack_Source_observation.
