(* C12 LevelBasedForaging, BOTH observers, on every physically consistent state (Inv: all states reachable under any actions)
   with fov >= 1 (the constructor's assertion):
   - VectorObserver: the view of agent a = food triplets (x, y, level) in food order, then a itself, then the other agents in
     list (= id) order; coordinates relative to the corner of a's field of view clipped to the grid; (-1, -1, 0) for anything
     outside the field of view or eaten ([view_spec]);
   - GridObserver: the three (2 fov + 1)^2 windows = agent level / uneaten food level / accessibility (on the grid, no agent, no
     uneaten food) of grid cell (x - fov + dr, y - fov + dk), 0 outside the grid ([gview_spec]);
   - the mask shown is the table of legal actions of the state shown (C04_Lbf) and step_count is copied. *)
From Coq Require Import QArith.
Require Import JV.Base.Prelude JV.Base.JaxIndex JV.Base.Codec JV.Base.TimeStep JV.Model.Lbf JV.Proofs.Lbf JV.Proofs.Lbf_Obs.
Open Scope Z_scope.
Theorem C12_Lbf_vector_view c s a : Inv c s -> In a (agents s) -> 0 <= fov c -> vector_view c s a = view_spec c s a.
Proof. exact (vector_view_spec c s a). Qed.
Theorem C12_Lbf_grid_view c s a : Inv c s -> In a (agents s) -> 1 <= fov c -> grid_view c s a = gview_spec c s a.
Proof. exact (grid_view_spec c s a). Qed.
Theorem C12_Lbf_view c s a : Inv c s -> In a (agents s) -> 1 <= fov c -> view_agent c s a = obs_spec c s a.
Proof. exact (view_agent_spec c s a). Qed.
Theorem C12_Lbf_checker c s : Inv c s -> 1 <= fov c -> view_exact_b c s = true.
Proof. exact (view_exact c s). Qed.
Print Assumptions C12_Lbf_vector_view.
Print Assumptions C12_Lbf_grid_view.
Example C12_Lbf_nonvacuous :
  (* agent 0 at (1,0) with fov 1 sees food 0 at (1,1) (relative (1,1), level 2) but not food 1, itself at (1,0), not agent 1 *)
  vector_view ex_cfg ex_s0 (mkA 0 1 0 1 false) = [1; 1; 2; -1; -1; 0; 1; 0; 1; -1; -1; 0]
  /\ view_spec ex_cfg ex_s0 (mkA 0 1 0 1 false) = [1; 1; 2; -1; -1; 0; 1; 0; 1; -1; -1; 0]
  /\ grid_view (mkC 5 2 2 1 3 true 0%Q true 2) ex_s0 (mkA 0 1 0 1 false)
     = [0; 0; 0; 0; 1; 0; 0; 0; 0] ++ [0; 0; 0; 0; 0; 2; 0; 0; 0] ++ [0; 1; 1; 0; 0; 0; 0; 1; 1]
  /\ gview_spec (mkC 5 2 2 1 3 true 0%Q true 2) ex_s0 (mkA 0 1 0 1 false)
     = [0; 0; 0; 0; 1; 0; 0; 0; 0] ++ [0; 0; 0; 0; 0; 2; 0; 0; 0] ++ [0; 1; 1; 0; 0; 0; 0; 1; 1].
Proof. vm_compute. repeat split; reflexivity. Qed.
