(* C12 Maze over the environment AS TRANSLATED FROM /repo's CURRENT SOURCE on every run (Gen/MazeSrc.v; see C09_Maze_Source.v):
   the translated `_observation_from_state` is the model's view: plain copies of the state's fields. *)
Require Import JV.Base.Prelude JV.Base.JaxIndex JV.Base.Codec JV.Base.TimeStep JV.Gen.TimeStepSrc JV.Gen.MazeSrc JV.Proofs.Maze_Src.
Require JV.Model.Maze.
Theorem C12_Maze_Source_observation_view s : obs_flat (observation_from_state s) = JV.Model.Maze.observe (conv s).
Proof. exact (observe_src s). Qed.
Print Assumptions C12_Maze_Source_observation_view.
Theorem C12_Maze_Source_observation_fields s :
  let o := observation_from_state s in
  o_agent_position o = s_agent_position s /\ o_target_position o = s_target_position s /\ o_walls o = s_walls s
  /\ o_step_count o = s_step_count s /\ o_action_mask o = s_action_mask s.
Proof. repeat split; reflexivity. Qed.
