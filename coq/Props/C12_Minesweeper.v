(* C12 Minesweeper: the observation is (board, board == -1, num_mines, step_count) -- plain copies except the mask plane,
   which is the view "unexplored" of the SAME board (so it can never be stale or shifted): entry (r, c) of the mask is
   (board[r][c] == -1), with the board's shape.  The copies and the whole encoded observation are compared with the
   implementation's on every step by the harness (minesweeper_step_io). *)
Require Import JV.Base.Prelude JV.Base.JaxIndex JV.Base.Codec JV.Base.TimeStep JV.Model.Minesweeper.
Require Import JV.Proofs.Minesweeper_lists JV.Proofs.Minesweeper_count JV.Proofs.Minesweeper.
Theorem C12_Minesweeper_mask_view rows cols b r c :
  shaped rows cols b -> 0 <= r < rows -> 0 <= c < cols ->
  gat false (action_mask b) r c = (cell b r c =? -1)
  /\ zlen (action_mask b) = rows /\ zlen (znth [] (action_mask b) r) = cols.
Proof. exact (obs_mask_view rows cols b r c). Qed.
Print Assumptions C12_Minesweeper_mask_view.
Theorem C12_Minesweeper_obs_fields nm s :
  enc_obs nm s = concat (board s) ++ concat (map unbools (action_mask (board s))) ++ [nm; step_count s].
Proof. exact (enc_obs_fields nm s). Qed.
Example C12_Minesweeper_nonvacuous :
  let s1 := fst (step default_rcfg 2 3 ex_s0 1 1) in
  enc_obs 2 s1 = [-1; -1; -1; -1; 2; -1] ++ [1; 1; 1; 1; 0; 1] ++ [2; 1].
Proof. vm_compute. reflexivity. Qed.
