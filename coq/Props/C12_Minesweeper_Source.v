(* C12 Minesweeper over the SOURCE-TRANSLATED observation (Gen/MinesweeperSrc.v: _state_to_observation): the observation is the state's
   board, the unexplored view of that SAME board, the configured number of mines and the state's step count. *)
Require Import JV.Base.Prelude JV.Base.JaxIndex JV.Base.Codec JV.Base.TimeStep JV.Gen.TimeStepSrc JV.Gen.MinesweeperSrc JV.Proofs.Minesweeper_lists JV.Proofs.Minesweeper_count JV.Proofs.Minesweeper JV.Proofs.Minesweeper_Src.
Require JV.Model.Minesweeper.
Theorem C12_Minesweeper_Source_obs_view nm s : let o := state_to_observation nm s in
  o_board o = s_board s /\ o_action_mask o = JV.Model.Minesweeper.action_mask (s_board s) /\ o_num_mines o = nm /\ o_step_count o = s_step_count s.
Proof. exact (src_obs_view nm s). Qed.
Print Assumptions C12_Minesweeper_Source_obs_view.
