(* C12 MMST (_state_to_observation, agent_id = 0): the observed node_types are the declarative relabelling [view]:
   a node connected by agent a (and by no later agent) shows 2a (0 = own route), an unconnected node of agent t shows
   2t+1 (1 = own nodes still to connect), an unconnected utility node shows -1.  For utility nodes the connecting agent
   is unique (C06), for required nodes the highest-numbered visitor wins.  The other observation fields are copies
   (checked by the harness). *)
Require Import JV.Base.Prelude JV.Base.JaxIndex JV.Base.Codec JV.Base.TimeStep JV.Model.Mmst JV.Proofs.Mmst_lib JV.Proofs.Mmst JV.Proofs.Mmst_Episode JV.Proofs.Mmst_Obs JV.Proofs.Mmst_Gen JV.Proofs.Mmst_Examples.
Theorem C12_Mmst_obs_is_view c s :
  0 <= cN c -> zlen (ntypes s) = cN c ->
  (forall j, 0 <= j < cN c -> -1 <= znth (-1) (ntypes s) j < cA c) ->
  (forall a, 0 <= a < cA c -> zlen (znth [] (cidx s) a) = cN c) ->
  obs_types c s = tab (cN c) (view (cA c) s).
Proof. exact (obs_types_view c s). Qed.
Print Assumptions C12_Mmst_obs_is_view.
Theorem C12_Mmst_view_unvisited c s j : (forall a, 0 <= a < cA c -> visited s a j = false) ->
  view (cA c) s j = (let t := znth (-1) (ntypes s) j in if t =? -1 then -1 else 2 * t + 1).
Proof. exact (view_unvisited c s j). Qed.
Theorem C12_Mmst_view_visited c s a j :
  (forall j, 0 <= j < cN c -> -1 <= znth (-1) (ntypes s) j < cA c) ->
  (forall a, 0 <= a < cA c -> zlen (znth [] (cidx s) a) = cN c) ->
  0 <= a < cA c -> visited s a j = true ->
  (forall b, a < b < cA c -> visited s b j = false) -> view (cA c) s j = 2 * a.
Proof. intros H1 H2. exact (view_visited c s H1 H2 a j). Qed.
Print Assumptions C12_Mmst_view_visited.
Example C12_Mmst_nonvacuous :
  pos ex_s1 = [1; 4] /\ fin ex_s1 = [true; false] /\ reward (snd (step ex_cfg ex_s0 [1; 4] [0; 1])) = [10 + -1]
  /\ st (snd (step ex_cfg ex_s0 [1; 4] [0; 1])) = MID
  /\ obs_types ex_cfg ex_s1 = [0; 0; -1; 3; 2; 2]
  /\ edges_ok_b 2 6 ex_s1 = true /\ excl_b 2 6 ex_s1 = true /\ route_connected_b 2 6 ex_s1 = true.
Proof. exact ex_step1. Qed.
