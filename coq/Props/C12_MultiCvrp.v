(* C12 MultiCVRP: the observation consists of copies of state fields (demands, local times, capacities, the mask - which is
   create_action_mask of the CURRENT demands and capacities - and the constant instance arrays) plus the vehicles'
   coordinates = coordinates[positions]; under the invariant the positions are node indices, so the clamping gather shows the
   coordinates of the node the vehicle is at.  (For position n+1, reachable only with the out-of-spec index n+1, it shows node n.) *)
Require Import JV.Base.Prelude JV.Base.JaxIndex JV.Base.Codec JV.Base.TimeStep JV.Model.MultiCvrp JV.Proofs.MultiCvrp JV.Proofs.MultiCvrp_Episode.
Theorem C12_MultiCvrp_observation n V mc d0 s H : 0 <= n -> Inv n V mc d0 s H ->
  observe s = (demands s, pos s, ltime s, cap s, create_mask (demands s) (cap s)).
Proof. exact (C12_observation n V mc d0 s H). Qed.
Print Assumptions C12_MultiCvrp_observation.
Example C12_MultiCvrp_nonvacuous :
  observe (fst (step false 3 4 dlin (st0 [0; 2; 3; 2] 2 4 3) [2; 4]))
  = ([0; 2; 0; 2], [2; 3], [20; 40], [1; 2], [[true; false; false; false]; [true; true; false; true]]).
Proof. vm_compute. reflexivity. Qed.
