(* C12 PacMan: the observation is a view of the state: grid, player_locations, ghost_locations, power_up_locations,
   frightened_state_time, pellet_locations and score are copies of the state fields, action_mask is compute_mask of the
   state's grid and player position -- which is exactly the set of legal moves (C04).  The harness compares
   observe(state) with the implementation's observation on every visited state. *)
Require Import JV.Base.Prelude JV.Base.JaxIndex JV.Base.Codec JV.Base.TimeStep JV.Gen.PacManConsts JV.Model.PacMan JV.Proofs.PacMan JV.Proofs.PacMan_Inv JV.Proofs.PacMan_Rules.
Theorem C12_PacMan_observation_is_view s :
  observe s = concat (grid s) ++ [px s; py s] ++ enc_pos (ghosts s) ++ enc_pos (pu_locs s) ++ [fright s]
              ++ enc_pos (pellet_locs s) ++ unbools (compute_mask (grid s) (px s) (py s)) ++ [score s].
Proof. exact (observe_view s). Qed.
Print Assumptions C12_PacMan_observation_is_view.
Theorem C12_PacMan_mask_is_legal xs ys s :
  Inv xs ys s -> compute_mask (grid s) (px s) (py s) = map (legal_b xs ys (grid s) (px s) (py s)) [0; 1; 2; 3; 4].
Proof. intro I. destruct (Inv_unpack xs ys s I) as (M & F & _). exact (mask_legal xs ys _ _ _ M F). Qed.
Example C12_PacMan_nonvacuous :
  let s := gen_state DEFAULT_MAZE_ASCII in length (observe s) = (868 + 2 + 8 + 8 + 1 + 636 + 5 + 1)%nat.
Proof. vm_compute. reflexivity. Qed.
