(* C12 RobotWarehouse: observations are faithful views of the state.  The observation's action_mask is the mask of the
   successor state and step_count its counter.  The sensor vectors: the code's writer (jnp.pad + dynamic_slice window,
   dynamic_update_slice at a running index over a zero vector, index skips for empty cells, nothing for the agent's own
   cell) is modelled exactly ([agent_obs], correspondence-checked on every step incl. terminal collision states); the
   documented view ([view_spec]: own x, y, carrying, one-hot direction, highway flag; then per sensor cell other than the own
   one "agent there? + its one-hot direction" read off the agent TABLE; then per sensor cell "shelf there? + requested?"
   read off the shelf TABLE, row-major over the (2r+1)^2 window, cells outside the grid empty) is an independent
   statement.  Proved: [agent_obs = view_spec] for EVERY consistent state (Inv), every agent and every sensor range r >= 0
   and every grid size; hence also for the successor of every collision-free step with valid re-request draws. *)
Require Import JV.Base.Prelude JV.Base.JaxIndex JV.Base.Codec JV.Base.TimeStep JV.Model.RobotWarehouse JV.Proofs.RobotWarehouse_lib JV.Proofs.RobotWarehouse JV.Proofs.RobotWarehouse_Step JV.Proofs.RobotWarehouse_Check JV.Proofs.RobotWarehouse_Obs JV.Proofs.RobotWarehouse_Queue.
Theorem C12_RobotWarehouse_copied_fields c s acts draws :
  let s' := fst (step c s acts draws) in
  amask s' = compute_mask (gh c) (gw c) (gsh s') (agents s') /\ cnt s' = cnt s + 1.
Proof. exact (conj (step_mask c s acts draws) (step_cnt c s acts draws)). Qed.
Theorem C12_RobotWarehouse_agent_view c s i :
  Inv c s -> 0 <= srange c -> 0 <= i < nag c -> agent_obs c s i = view_spec c s i.
Proof. exact (agent_obs_view c s i). Qed.
Theorem C12_RobotWarehouse_view c s :
  Inv c s -> 0 <= srange c -> observe c s = map (view_spec c s) (zrange (nag c)).
Proof. exact (observe_view c s). Qed.
Theorem C12_RobotWarehouse_step_view c s acts draws :
  Inv c s -> 0 <= srange c -> zlen acts = nag c -> collided c s acts = false ->
  draws_ok (zlen (shelves s)) (w_gs (moved c s acts)) (queue s, w_sh (moved c s acts), 0) (goals c) draws = true ->
  let s' := fst (step c s acts draws) in observe c s' = map (view_spec c s') (zrange (nag c)).
Proof. exact (fun I Hr L Hc Hd => observe_view c _ (step_preserves_Inv c s acts draws I L Hc Hd) Hr). Qed.
Print Assumptions C12_RobotWarehouse_copied_fields.
Print Assumptions C12_RobotWarehouse_agent_view.
Print Assumptions C12_RobotWarehouse_view.
Print Assumptions C12_RobotWarehouse_step_view.
Example C12_RobotWarehouse_nonvacuous :
  Inv_b ex_c ex_s1 = true /\ observe ex_c ex_s1 = map (view_spec ex_c ex_s1) (zrange 2)
  (* agent 0 at (1,1) carrying, facing RIGHT, off the highway; sees agent 1 (facing DOWN) above it, the requested shelf 1 under
     itself and shelf 2 to its right *)
  /\ agent_obs ex_c ex_s1 0 =
     [1; 1; 1;  0; 1; 0; 0;  0;
      0;0;0;0;0;  1;0;0;1;0;  0;0;0;0;0;   0;0;0;0;0;  0;0;0;0;0;   0;0;0;0;0;  0;0;0;0;0;  0;0;0;0;0;
      0;0; 0;0; 0;0;   0;0; 1;1; 1;0;   0;0; 0;0; 0;0]
  (* on an INconsistent state (the terminal state of a collision: agent 0's mark is lost) the two differ, so Inv matters *)
  /\ Inv_b ex_c (fst (step ex_c ex_s1 [NOOP; FORWARD] [0; 0])) = false
  /\ list_eqb (list_eqb Z.eqb) (observe ex_c (fst (step ex_c ex_s1 [NOOP; FORWARD] [0; 0])))
              (map (view_spec ex_c (fst (step ex_c ex_s1 [NOOP; FORWARD] [0; 0]))) (zrange 2)) = false.
Proof. vm_compute. repeat split; reflexivity. Qed.
