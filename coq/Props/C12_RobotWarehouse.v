(* C12 RobotWarehouse (PARTIAL): the observation's action_mask is the mask of the successor state and step_count its counter
   (proved).  The sensor vectors: the code's writer (padded window, dynamic_update_slice, skip of the agent's own cell) is
   modelled exactly ([agent_obs], correspondence-checked on every step incl. terminal collision states) and the documented view
   ([view_spec]: own x, y, carrying, one-hot direction, highway flag; then per sensor cell other than the own one "agent there?
   + its one-hot direction" read off the agent TABLE; then per sensor cell "shelf there? + requested?" read off the shelf
   TABLE, row-major) is an independent executable statement; their equality [agent_obs = view_spec] is evaluated by the
   harness on every visited consistent state and below, but NOT proved for all states. *)
Require Import JV.Base.Prelude JV.Base.JaxIndex JV.Base.Codec JV.Base.TimeStep JV.Model.RobotWarehouse JV.Proofs.RobotWarehouse_lib JV.Proofs.RobotWarehouse JV.Proofs.RobotWarehouse_Step JV.Proofs.RobotWarehouse_Check.
Theorem C12_RobotWarehouse_copied_fields_partial c s acts draws :
  let s' := fst (step c s acts draws) in
  amask s' = compute_mask (gh c) (gw c) (gsh s') (agents s') /\ cnt s' = cnt s + 1.
Proof. exact (conj (step_mask c s acts draws) (step_cnt c s acts draws)). Qed.
Print Assumptions C12_RobotWarehouse_copied_fields_partial.
Example C12_RobotWarehouse_nonvacuous :
  observe ex_c ex_s1 = map (view_spec ex_c ex_s1) (zrange 2)
  (* agent 0 at (1,1) carrying, facing RIGHT, off the highway; sees agent 1 (facing DOWN) above it, the requested shelf 1 under
     itself and shelf 2 to its right *)
  /\ agent_obs ex_c ex_s1 0 =
     [1; 1; 1;  0; 1; 0; 0;  0;
      0;0;0;0;0;  1;0;0;1;0;  0;0;0;0;0;   0;0;0;0;0;  0;0;0;0;0;   0;0;0;0;0;  0;0;0;0;0;  0;0;0;0;0;
      0;0; 0;0; 0;0;   0;0; 1;1; 1;0;   0;0; 0;0; 0;0].
Proof. vm_compute. split; reflexivity. Qed.
