(* C12 RubiksCube: the observation is the pair (cube, step_count) of the state it is emitted with. *)
Require Import JV.Base.Prelude JV.Base.JaxIndex JV.Base.Codec JV.Base.TimeStep JV.Gen.RubikTables JV.Model.RubiksCube.
Require Import JV.Proofs.RubiksCube_Lists JV.Proofs.RubiksCube_Cube JV.Proofs.RubiksCube_Action JV.Proofs.RubiksCube_Group JV.Proofs.RubiksCube_Env.
From Coq Require Import Permutation.
Theorem C12_RubiksCube_step_observation n T s a :
  observe (fst (step n T s a)) = (cube_of (fst (step n T s a)), count (fst (step n T s a))).
Proof. exact (step_observation n T s a). Qed.
Theorem C12_RubiksCube_reset_observation n acts : observe (fst (init n acts)) = (scramble n acts, 0).
Proof. exact (init_observation n acts). Qed.
Print Assumptions C12_RubiksCube_step_observation.
Example C12_RubiksCube_nonvacuous : snd (observe (fst (step 3 9 (fst (init 3 [2])) (1, 0, 2)))) = 1.
Proof. vm_compute. auto. Qed.
