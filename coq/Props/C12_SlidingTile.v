(* C12 SlidingTile: the observation returned by step is the view of the SUCCESSOR state and the one returned by reset is the
   view of the reset state, where the view copies board, blank position and step counter and shows as action mask exactly the
   legal moves of that state (never the mask of the previous state). *)
Require Import JV.Base.Prelude JV.Base.JaxIndex JV.Base.Codec JV.Base.TimeStep JV.Model.SlidingTile JV.Proofs.SlidingTile JV.Proofs.SlidingTile_Episode.
From Coq Require Import Permutation.
Theorem C12_SlidingTile_step_obs n T rw s a : ob_of n T rw s a = observe n (nxt n T rw s a).
Proof. exact (step_obs_faithful n T rw s a). Qed.
Theorem C12_SlidingTile_reset_obs n s0 : snd (reset n s0) = observe n s0.
Proof. exact (reset_obs_faithful n s0). Qed.
Theorem C12_SlidingTile_view n s : in_grid n (blank s) = true ->
  o_puz (observe n s) = puz s /\ o_blank (observe n s) = blank s /\ o_steps (observe n s) = steps s
  /\ o_mask (observe n s) = map (legal_b n (blank s)) (zrange 4)
  /\ forall a, 0 <= a < 4 -> (jget false (o_mask (observe n s)) a = true <-> legal n (blank s) a).
Proof. exact (observe_view n s). Qed.
Print Assumptions C12_SlidingTile_view.
Example C12_SlidingTile_nonvacuous :
  let s0 := gen_state 3 [0; 3; 0] [7; 9] in
  ob_of 3 5 0 s0 2 = mkO [[1; 2; 3]; [4; 0; 5]; [7; 8; 6]] (1, 1) [true; true; true; true] 1
  /\ snd (reset 3 s0) = mkO [[1; 0; 3]; [4; 2; 5]; [7; 8; 6]] (0, 1) [false; true; true; true] 0.
Proof. vm_compute. repeat split; reflexivity. Qed.
