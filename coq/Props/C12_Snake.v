(* C12 Snake: the observation of a consistent state shows, at every in-grid cell p:
   plane 0 (body) = [body_state p > 0], plane 1 (head) = [p = head], plane 2 (tail) = [body_state p = 1],
   plane 3 (fruit) = [p = fruit], plane 4 = body_state p / length (the denominator max(1, max body_state) IS the
   length), and step_count / action_mask are copies of the state's. *)
Require Import JV.Base.Prelude JV.Base.JaxIndex JV.Base.Codec JV.Base.TimeStep JV.Model.Snake JV.Proofs.Snake JV.Proofs.Snake_rules JV.Proofs.Snake_examples.
Theorem C12_Snake_observation R C s p :
  Phys R C s -> in_grid R C p ->
  let o := observe s in
  gat false (o_body o) (fst p) (snd p) = pos (bs_at s p) /\
  gat false (o_head o) (fst p) (snd p) = cell_eqb (head s) p /\
  gat false (o_tail o) (fst p) (snd p) = is1 (bs_at s p) /\
  gat false (o_fruit o) (fst p) (snd p) = cell_eqb (fruit s) p /\
  gat 0 (o_num o) (fst p) (snd p) = bs_at s p /\ o_den o = len s /\
  o_steps o = steps s /\ o_mask o = amask s.
Proof. exact (observe_planes R C s p). Qed.
Print Assumptions C12_Snake_observation.
Example C12_Snake_nonvacuous :
  o_body (observe e3) = [[false; false; true]; [false; true; true]; [false; false; false]]
  /\ o_head (observe e3) = [[false; false; true]; [false; false; false]; [false; false; false]]
  /\ o_tail (observe e3) = [[false; false; false]; [false; true; false]; [false; false; false]]
  /\ o_fruit (observe e3) = [[true; false; false]; [false; false; false]; [false; false; false]]
  /\ o_num (observe e3) = [[0; 0; 3]; [0; 1; 2]; [0; 0; 0]] /\ o_den (observe e3) = 3 /\ o_steps (observe e3) = 3
  /\ o_steps (observe (fst (step 3 3 3 e2 0 (2, 2)))) = 3.
Proof. exact ex_obs. Qed.
