(* C12 Snake over the SOURCE-TRANSLATED `_state_to_observation` (Gen/SnakeSrc.v; see C09_Snake_Source.v): the translated observation
   is the documented view of the state -- body plane, head cell, tail plane, fruit cell, and the body order divided by max(1, its maximum)
   (kept as numerators over the common denominator), plus the copied step count and action mask -- for EVERY state. *)
Require Import JV.Base.Prelude JV.Base.JaxIndex JV.Base.Codec JV.Base.TimeStep JV.Gen.TimeStepSrc JV.Gen.SnakeSrc JV.Proofs.Snake_Src.
Require JV.Model.Snake.
Theorem C12_Snake_Source_observation_is_view s : conv_obs (state_to_observation s) = JV.Model.Snake.observe (conv s).
Proof. exact (observe_src s). Qed.
Print Assumptions C12_Snake_Source_observation_is_view.
Theorem C12_Snake_Source_fifth_plane s :
  let '(_, _, _, _, (num, den)) := o_grid (state_to_observation s) in
  num = s_body_state s /\ den = Z.max 1 (JV.Model.Snake.gmax (s_body_state s)).
Proof. split; reflexivity. Qed.
Example C12_Snake_Source_nonvacuous :
  let bs := [[0; 0; 0]; [1; 2; 3]; [0; 0; 0]] in
  let s := mkState (m_map (fun x => x >? 0) bs) bs (1, 2) (m_map (fun x => x =? 1) bs) (0, 0) 3 4 [true; false; true; false] in
  let '(b, h, t, f, (num, den)) := o_grid (state_to_observation s) in
  h = [[false; false; false]; [false; false; true]; [false; false; false]] /\ f = [[true; false; false]; [false; false; false]; [false; false; false]]
  /\ den = 3 /\ num = bs.
Proof. vm_compute. repeat split; reflexivity. Qed.
