(* C12 Sokoban: the observed grid is jnp.stack([variable_grid, fixed_grid], axis=-1): channel 0 of every cell is the
   variable grid, channel 1 the fixed grid (for all well-shaped grids), followed by the state's step counter. *)
Require Import JV.Base.Prelude JV.Base.JaxIndex JV.Base.Codec JV.Base.TimeStep JV.Model.Sokoban JV.Proofs.Sokoban_Grid JV.Proofs.Sokoban JV.Proofs.Sokoban_Levels.
Theorem C12_Sokoban_obs_faithful G vr fx : wf_grid G vr -> wf_grid G fx ->
  map (map fst) (obs_grid vr fx) = vr /\ map (map snd) (obs_grid vr fx) = fx.
Proof. exact (obs_faithful G vr fx). Qed.
Print Assumptions C12_Sokoban_obs_faithful.
Theorem C12_Sokoban_observe s : observe s = flat_pairs (obs_grid (var s) (fixed s)) ++ [sc s].
Proof. exact (observe_spec s). Qed.
Example C12_Sokoban_nonvacuous :
  let s := run 10 120 true (fst gen_simple) [0;2] in
  znth (0, 0) (znth [] (obs_grid (var s) (fixed s)) 2) 2 = (BOX, TARGET) /\ znth 0 (observe s) 200 = 2
  /\ zlen (observe s) = 201.
Proof. vm_compute. repeat split; reflexivity. Qed.
