(* C12 TSP: the observation is (coordinates, position, trajectory) copied from the state and the action mask, which is the
   rule "city not visited yet" evaluated on THAT state (not a stale one) for every city. *)
Require Import JV.Base.Prelude JV.Base.JaxIndex JV.Base.Codec JV.Base.TimeStep JV.Model.TSP JV.Proofs.TSP_lists JV.Proofs.TSP.
Theorem C12_TSP_observation n s : zlen (visited s) = n ->
  observe s = (coords s, position s, traj s, map (legal_b s) (zrange n)).
Proof. exact (C12_observation n s). Qed.
Print Assumptions C12_TSP_observation.
Example C12_TSP_nonvacuous :
  observe (mkS [0; 5; 15; 2; 7; 7] 2 [false; false; true] [2; -1; -1] 1) = ([0; 5; 15; 2; 7; 7], 2, [2; -1; -1], [true; true; false]).
Proof. vm_compute. reflexivity. Qed.
