(* C12 TSP over the SOURCE-TRANSLATED observation (Gen/TspSrc.v: _state_to_observation; see C09_TSP_Source.v): the observation is the state's
   coordinates, position and trajectory -- plain copies -- plus the mask, whose entry a is True exactly when city a is legal (not yet visited). *)
Require Import JV.Base.Prelude JV.Base.JaxIndex JV.Base.Codec JV.Base.TimeStep JV.Gen.TimeStepSrc JV.Gen.TspSrc.
Require Import JV.Proofs.TSP_lists JV.Proofs.TSP JV.Proofs.Tsp_Src.
Require JV.Model.TSP.
Theorem C12_TSP_Source_observation n s : zlen (s_visited_mask s) = n ->
  let o := state_to_observation s in
  (o_coordinates o, o_position o, o_trajectory o, o_action_mask o)
  = (s_coordinates s, s_position s, s_trajectory s, map (JV.Model.TSP.legal_b (conv s)) (zrange n)).
Proof. exact (src_observation n s). Qed.
Print Assumptions C12_TSP_Source_observation.
