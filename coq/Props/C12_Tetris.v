(* C12 Tetris: the observation emitted by step (any action) and reset is the declarative view of the successor state:
   grid[i][j] = (cell (i,j) occupied ? 1 : 0) for i < num_rows, j < num_cols; tetromino = rotation 0 of the piece whose
   index the state holds; action_mask = the state's mask; step_count = the state's step_count. *)
Require Import JV.Base.Prelude JV.Base.JaxIndex JV.Base.Codec JV.Base.TimeStep JV.Gen.TetrisConsts JV.Model.Tetris.
Require Import JV.Proofs.Tetris JV.Proofs.Tetris_place JV.Proofs.Tetris_clear JV.Proofs.Tetris_phys JV.Proofs.Tetris_step.
Theorem C12_Tetris_obs_is_view nr nc tl s rot x d :
  Shape nr nc (grid s) -> 1 <= nr -> 1 <= nc ->
  let '(s', _, o) := step nr nc tl s rot x d in o = view nr nc s'.
Proof. exact (step_obs_view nr nc tl s rot x d). Qed.
Print Assumptions C12_Tetris_obs_is_view.
Theorem C12_Tetris_reset_obs_is_view nr nc d :
  4 <= nr -> 4 <= nc -> valid_draw d = true -> let '(s0, _, o) := init nr nc d in o = view nr nc s0.
Proof.
  intros Hnr Hnc Hd. pose proof (init_physical nr nc d Hnr Hnc Hd) as H.
  destruct (init nr nc d) as [[s0 ts] o]. exact (proj1 (proj2 (proj2 (proj2 H)))).
Qed.
Print Assumptions C12_Tetris_reset_obs_is_view.
Example C12_Tetris_nonvacuous :
  let '(s', _, o) := step 4 4 9 ex_s1 0 0 0 in
  o_grid o = [[0; 0; 0; 0]; [0; 0; 0; 0]; [1; 1; 0; 0]; [1; 1; 0; 0]] /\ o_step o = 2 /\ o_tet o = piece 0 0.
Proof. vm_compute. repeat split; reflexivity. Qed.
