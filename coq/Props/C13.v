(* C13 — AutoResetWrapper resets exactly when an episode ends, with a fresh instance.  Proved ONCE for every environment:
   St/Obs/Act/Rw, reset, step and state.key are universally quantified (parametricity is how "every environment, not only
   the test fake" is reached).  The model (Model/Wrappers.v) is tied to jumanji/wrappers.py by running the REAL wrapper on
   the real environments against the extracted [ar_run] instantiated with tables of the native environment's behaviour. *)
Require Import JV.Base.Prelude JV.Base.Codec JV.Base.TimeStep JV.Model.Wrappers JV.Proofs.Wrappers.

(* a step that is not LAST returns precisely what the wrapped environment's step returns (+ next_obs when asked) *)
Theorem C13_not_last St Obs Act Rw reset step skey nx s a : w_ty _ _ (snd (step s a)) <> LAST ->
  ar_step St Obs Act Rw reset step skey nx s a = (fst (step s a), maybe_add Obs Rw nx (snd (step s a))).
Proof. exact (ar_not_last St Obs Act Rw reset step skey nx s a). Qed.
Print Assumptions C13_not_last.

(* a LAST step: the state is the one reset produces for the key freshly derived from the terminal state's key, the
   observation is that reset's observation; step type, reward, discount, extras are the terminal step's *)
Theorem C13_last St Obs Act Rw reset step skey nx s a : w_ty _ _ (snd (step s a)) = LAST ->
  let s' := fst (step s a) in let t := snd (step s a) in
  let k := KL (skey s') in
  let r := ar_step St Obs Act Rw reset step skey nx s a in
  fst r = fst (reset k)
  /\ w_obs _ _ (snd r) = w_obs _ _ (snd (reset k))
  /\ w_ty _ _ (snd r) = LAST /\ w_rew _ _ (snd r) = w_rew _ _ t /\ w_disc _ _ (snd r) = w_disc _ _ t
  /\ w_ext _ _ (snd r) = w_ext _ _ t
  /\ w_next _ _ (snd r) = if nx then Some (w_obs _ _ t) else w_next _ _ t.
Proof. exact (ar_last St Obs Act Rw reset step skey nx s a). Qed.
Print Assumptions C13_last.

(* next_obs_in_extras: the true successor observation of EVERY step is under extras["next_obs"] *)
Theorem C13_next_obs St Obs Act Rw reset step skey s a :
  w_next _ _ (snd (ar_step St Obs Act Rw reset step skey true s a)) = Some (w_obs _ _ (snd (step s a))).
Proof. exact (ar_next_obs St Obs Act Rw reset step skey s a). Qed.
Theorem C13_no_next_obs St Obs Act Rw reset step skey s a :
  w_next _ _ (snd (ar_step St Obs Act Rw reset step skey false s a)) = w_next _ _ (snd (step s a))
  /\ w_ext _ _ (snd (ar_step St Obs Act Rw reset step skey false s a)) = w_ext _ _ (snd (step s a)).
Proof. exact (ar_no_next_obs St Obs Act Rw reset step skey s a). Qed.
Print Assumptions C13_next_obs.

(* successive automatic resets start from pairwise different keys (any number of episodes), none equal to the key of the
   initial reset — under the key discipline (state.key is derived from the reset key and only replaced by keys derived
   from itself).  Key algebra: split is injective and acyclic (ideal-PRNG abstraction, stated in the trusted base). *)
Theorem C13_fresh_keys St Obs Act Rw reset step skey
  (Hreset : forall k, kdesc k (skey (fst (reset k))) = true)
  (Hstep : forall s a, kdesc (skey s) (skey (fst (step s a))) = true) acts s :
  NoDup (ar_reset_keys St Obs Act Rw reset step skey s acts).
Proof. exact (ar_fresh_keys St Obs Act Rw reset step skey Hreset Hstep acts s). Qed.
Theorem C13_fresh_keys_start St Obs Act Rw reset step skey
  (Hreset : forall k, kdesc k (skey (fst (reset k))) = true)
  (Hstep : forall s a, kdesc (skey s) (skey (fst (step s a))) = true) acts k0 :
  ~ In k0 (ar_reset_keys St Obs Act Rw reset step skey (fst (reset k0)) acts).
Proof. exact (ar_keys_differ_from_start St Obs Act Rw reset step skey Hreset Hstep acts k0). Qed.
Print Assumptions C13_fresh_keys.

(* non-vacuity: a 2-step counter environment (LAST every second step) whose state key is the right half of its reset key *)
Example C13_nonvacuous :
  let run := ar_run (Z * key) Z Z Z toy_reset toy_step snd true (fst (toy_reset (KRoot 5))) [10; 11; 12; 13] in
  map (fun x => w_ty _ _ (snd x)) run = [MID; LAST; MID; LAST]
  /\ map (fun x => w_obs _ _ (snd x)) run = [1; 0; 1; 0]
  /\ map (fun x => w_next _ _ (snd x)) run = [Some 1; Some 2; Some 1; Some 2]
  /\ map (fun x => w_rew _ _ (snd x)) run = [10; 11; 12; 13]
  /\ ar_reset_keys (Z * key) Z Z Z toy_reset toy_step snd (fst (toy_reset (KRoot 5))) [10; 11; 12; 13]
     = [KL (KR (KRoot 5)); KL (KR (KL (KR (KRoot 5))))]
  /\ (forall k, kdesc k (snd (fst (toy_reset k))) = true).
Proof. repeat split; try (vm_compute; reflexivity). intro k. cbn. rewrite (kdesc_refl k). apply orb_true_r. Qed.
