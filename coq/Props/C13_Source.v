(* C13 over jumanji/wrappers.py AS TRANSLATED FROM /repo's CURRENT SOURCE on every run (Gen/WrappersSrc.v, produced from the `ast`
   of AutoResetWrapper.__init__/_auto_reset/reset/step and add_obs_to_extras by harness/translators/wrappers_src.py): the
   translated functions equal the hand model for EVERY environment, so every C13 theorem holds of the code as written; the two
   central ones are restated directly on the translated step.  A change to the wrapper's source changes Gen/WrappersSrc.v and
   these statements are re-checked by the kernel. *)
Require Import JV.Base.Prelude JV.Base.Codec JV.Base.TimeStep JV.Model.Wrappers JV.Gen.WrappersSrc JV.Proofs.Wrappers JV.Proofs.Wrappers_Src.

Theorem C13_Source_step_is_model St Obs Act Rw reset step skey nx s a :
  AutoResetWrapper_step St Obs Act Rw reset step skey nx s a = ar_step St Obs Act Rw reset step skey nx s a.
Proof. exact (ar_step_src St Obs Act Rw reset step skey nx s a). Qed.
Print Assumptions C13_Source_step_is_model.
Theorem C13_Source_reset_is_model St Obs Rw reset nx k :
  AutoResetWrapper_reset St Obs Rw reset nx k = ar_reset St Obs Rw reset nx k.
Proof. exact (ar_reset_src St Obs Rw reset nx k). Qed.
Theorem C13_Source_auto_reset_is_model St Obs Rw reset skey nx s t :
  AutoResetWrapper_auto_reset St Obs Rw reset skey nx s t = auto_reset St Obs Rw reset skey nx s t.
Proof. exact (auto_reset_src St Obs Rw reset skey nx s t). Qed.
Print Assumptions C13_Source_auto_reset_is_model.

Theorem C13_Source_not_last St Obs Act Rw reset step skey nx s a : w_ty _ _ (snd (step s a)) <> LAST ->
  AutoResetWrapper_step St Obs Act Rw reset step skey nx s a = (fst (step s a), maybe_add Obs Rw nx (snd (step s a))).
Proof. exact (src_not_last St Obs Act Rw reset step skey nx s a). Qed.
Print Assumptions C13_Source_not_last.
Theorem C13_Source_last St Obs Act Rw reset step skey nx s a : w_ty _ _ (snd (step s a)) = LAST ->
  let s' := fst (step s a) in let t := snd (step s a) in
  let k := KL (skey s') in
  let r := AutoResetWrapper_step St Obs Act Rw reset step skey nx s a in
  fst r = fst (reset k)
  /\ w_obs _ _ (snd r) = w_obs _ _ (snd (reset k))
  /\ w_ty _ _ (snd r) = LAST /\ w_rew _ _ (snd r) = w_rew _ _ t /\ w_disc _ _ (snd r) = w_disc _ _ t
  /\ w_ext _ _ (snd r) = w_ext _ _ t
  /\ w_next _ _ (snd r) = if nx then Some (w_obs _ _ t) else w_next _ _ t.
Proof. exact (src_last St Obs Act Rw reset step skey nx s a). Qed.
Print Assumptions C13_Source_last.

Example C13_Source_nonvacuous :
  let st := AutoResetWrapper_step (Z * key) Z Z Z toy_reset toy_step snd true in
  let s0 := fst (toy_reset (KRoot 5)) in
  let x1 := st s0 10 in let x2 := st (fst x1) 11 in
  (w_ty _ _ (snd x1), w_ty _ _ (snd x2)) = (MID, LAST) /\ w_next _ _ (snd x2) = Some 2 /\ w_obs _ _ (snd x2) = 0
  /\ snd (fst x2) = KR (KL (KR (KRoot 5))).
Proof. vm_compute. repeat split; reflexivity. Qed.
