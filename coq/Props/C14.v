(* C14 — batched wrappers equal per-instance execution; VmapAutoReset = Vmap(AutoReset).  Generic in the environment.
   A batch is a list; jax.vmap f = map f and jax.lax.map f = map f are the MODELLED semantics of the JAX transformations
   (trusted base), tied by running both real wrappers and per-instance execution on identical batches. *)
Require Import JV.Base.Prelude JV.Base.Codec JV.Base.TimeStep JV.Model.Wrappers JV.Proofs.Wrappers.

Theorem C14_vmap_step_pointwise St Obs Act Rw step ss acts i ds da dd :
  (i < length ss)%nat -> (i < length acts)%nat ->
  nth i (vmap_step St Obs Act Rw step ss acts) dd = step (nth i ss ds) (nth i acts da).
Proof. exact (vmap_step_pointwise St Obs Act Rw step ss acts i ds da dd). Qed.
Theorem C14_vmap_reset_pointwise St Obs Rw reset ks i dk dd : (i < length ks)%nat ->
  nth i (vmap_reset St Obs Rw reset ks) dd = reset (nth i ks dk).
Proof. exact (vmap_reset_pointwise St Obs Rw reset ks i dk dd). Qed.
Theorem C14_vmap_step_length St Obs Act Rw step ss acts :
  length (vmap_step St Obs Act Rw step ss acts) = Nat.min (length ss) (length acts).
Proof. exact (vmap_step_length St Obs Act Rw step ss acts). Qed.
Print Assumptions C14_vmap_step_pointwise.

(* VmapAutoResetWrapper = VmapWrapper(AutoResetWrapper(env)) for every batch: whichever subset of episodes ends on a step *)
Theorem C14_var_is_vmap_ar St Obs Act Rw reset step skey nx ss acts :
  var_step St Obs Act Rw reset step skey nx ss acts = vmap_ar_step St Obs Act Rw reset step skey nx ss acts.
Proof. exact (var_is_vmap_ar St Obs Act Rw reset step skey nx ss acts). Qed.
Theorem C14_var_reset_is_vmap_ar St Obs Rw reset nx ks :
  var_reset St Obs Rw reset nx ks = vmap_ar_reset St Obs Rw reset nx ks.
Proof. exact (var_reset_is_vmap_ar St Obs Rw reset nx ks). Qed.
Theorem C14_var_step_pointwise St Obs Act Rw reset step skey nx ss acts i ds da dd :
  (i < length ss)%nat -> (i < length acts)%nat ->
  nth i (var_step St Obs Act Rw reset step skey nx ss acts) dd
  = ar_step St Obs Act Rw reset step skey nx (nth i ss ds) (nth i acts da).
Proof. exact (var_step_pointwise St Obs Act Rw reset step skey nx ss acts i ds da dd). Qed.
Print Assumptions C14_var_step_pointwise.
(* both render the first element of the batch *)
Theorem C14_render_first St s ss : render_arg St (s :: ss) = Some s.
Proof. exact (render_first St s ss). Qed.

Example C14_nonvacuous :
  let ss := [(1, KRoot 1); (0, KRoot 2); (1, KRoot 3)] in      (* elements 0 and 2 end on this step, element 1 does not *)
  map (fun x => w_ty _ _ (snd x)) (var_step _ _ _ _ toy_reset toy_step snd false ss [5; 6; 7]) = [LAST; MID; LAST]
  /\ map (fun x => fst (fst x)) (var_step _ _ _ _ toy_reset toy_step snd false ss [5; 6; 7]) = [0; 1; 0].
Proof. vm_compute. split; reflexivity. Qed.
