(* C14 over jumanji/wrappers.py AS TRANSLATED FROM /repo's CURRENT SOURCE on every run (Gen/WrappersSrc.v): VmapWrapper and
   VmapAutoResetWrapper (reset, step, _auto_reset, _maybe_reset, render) equal the hand model for EVERY environment and batch, and
   VmapAutoResetWrapper(env) = VmapWrapper(AutoResetWrapper(env)) holds between the TRANSLATED classes themselves.
   (jax.vmap / jax.lax.map are given the meaning map / map2 over lists: stated in the trusted base.) *)
Require Import JV.Base.Prelude JV.Base.Codec JV.Base.TimeStep JV.Model.Wrappers JV.Gen.WrappersSrc JV.Proofs.Wrappers JV.Proofs.Wrappers_Src.

Theorem C14_Source_vmap_is_model St Obs Act Rw reset step ks ss acts :
  VmapWrapper_reset St Obs Rw reset ks = vmap_reset St Obs Rw reset ks
  /\ VmapWrapper_step St Obs Act Rw step ss acts = vmap_step St Obs Act Rw step ss acts.
Proof. exact (conj (vmap_reset_src St Obs Rw reset ks) (vmap_step_src St Obs Act Rw step ss acts)). Qed.
Print Assumptions C14_Source_vmap_is_model.
Theorem C14_Source_var_is_model St Obs Act Rw reset step skey nx ks ss acts :
  VmapAutoResetWrapper_reset St Obs Rw reset nx ks = var_reset St Obs Rw reset nx ks
  /\ VmapAutoResetWrapper_step St Obs Act Rw reset step skey nx ss acts = var_step St Obs Act Rw reset step skey nx ss acts.
Proof. exact (conj (var_reset_src St Obs Rw reset nx ks) (var_step_src St Obs Act Rw reset step skey nx ss acts)). Qed.
Print Assumptions C14_Source_var_is_model.
(* the efficient wrapper IS the composition, instance by instance, whatever subset of the batch ends on a step *)
Theorem C14_Source_var_is_vmap_of_autoreset St Obs Act Rw reset step skey nx ks ss acts :
  VmapAutoResetWrapper_step St Obs Act Rw reset step skey nx ss acts
  = map2 (AutoResetWrapper_step St Obs Act Rw reset step skey nx) ss acts
  /\ VmapAutoResetWrapper_reset St Obs Rw reset nx ks = map (AutoResetWrapper_reset St Obs Rw reset nx) ks.
Proof. exact (conj (src_var_is_vmap_ar St Obs Act Rw reset step skey nx ss acts) (src_var_reset_is_vmap_ar St Obs Rw reset nx ks)). Qed.
Print Assumptions C14_Source_var_is_vmap_of_autoreset.
Theorem C14_Source_vmap_pointwise St Obs Act Rw step ss acts : VmapWrapper_step St Obs Act Rw step ss acts = map2 step ss acts.
Proof. exact (src_vmap_is_map St Obs Act Rw step ss acts). Qed.
(* render hands element 0 of the batch to the wrapped environment's render *)
Theorem C14_Source_render_first St RO render_inner ss :
  VmapWrapper_render St RO render_inner ss = render_inner (render_arg St ss)
  /\ VmapAutoResetWrapper_render St RO render_inner ss = render_inner (render_arg St ss).
Proof. exact (conj (vmap_render_src St RO render_inner ss) (var_render_src St RO render_inner ss)). Qed.
Print Assumptions C14_Source_render_first.
Example C14_Source_nonvacuous :
  let b := VmapAutoResetWrapper_step (Z * key) Z Z Z toy_reset toy_step snd false
             [fst (toy_reset (KRoot 1)); fst (toy_step (fst (toy_reset (KRoot 2))) 7)] [3; 4] in
  map (fun x => w_ty _ _ (snd x)) b = [MID; LAST] /\ map (fun x => w_obs _ _ (snd x)) b = [1; 0].
Proof. vm_compute. split; reflexivity. Qed.
