(* C15 — Gym, dm_env and multi-to-single adapters relay the native episode faithfully.  Generic in the environment; the
   adapters are the only stateful objects and are modelled as a state machine {key; state} with operations
   Seed n | Reset | Reset(seed=n) | Step a.  gymnasium / dm_env themselves are third-party code: modelled, not verified. *)
Require Import JV.Base.Prelude JV.Base.JaxIndex JV.Base.Tree JV.Base.Spec JV.Base.Codec JV.Base.TimeStep.
Require Import JV.Model.Wrappers JV.Proofs.Wrappers JV.Proofs.Spec_laws.

(* driving the gym adapter = driving the native API with the documented key schedule (seed, then one split per reset:
   reset i uses the left half, the adapter keeps the right half) *)
Theorem C15_gym_relay St Obs Act Rw reset step disc_zero ops k cur :
  gym_run St Obs Act Rw reset step disc_zero (mkA St k cur) ops = native_run St Obs Act Rw reset step disc_zero k cur ops.
Proof. exact (gym_relay St Obs Act Rw reset step disc_zero ops k cur). Qed.
Print Assumptions C15_gym_relay.
(* terminated is True exactly when the native discount is zero, truncated exactly when the native step is LAST *)
Theorem C15_gym_step_flags St Obs Act Rw reset step disc_zero k s a :
  snd (gym_do St Obs Act Rw reset step disc_zero (mkA St k (Some s)) (OStep Act a)) =
  let t := snd (step s a) in
  GStep Obs Rw (w_obs _ _ t) (w_rew _ _ t) (disc_zero (w_disc _ _ t)) (w_ty _ _ t =? LAST) (w_ext _ _ t).
Proof. exact (gym_step_flags St Obs Act Rw reset step disc_zero k s a). Qed.
(* re-seeding reproduces the same episode whatever the adapter did before *)
Theorem C15_gym_reseed St Obs Act Rw reset step disc_zero n ops h1 h2 ad1 ad2 :
  gym_run St Obs Act Rw reset step disc_zero (gym_final St Obs Act Rw reset step disc_zero ad1 h1) (OResetSeed Act n :: ops)
  = gym_run St Obs Act Rw reset step disc_zero (gym_final St Obs Act Rw reset step disc_zero ad2 h2) (OResetSeed Act n :: ops).
Proof. exact (gym_reseed St Obs Act Rw reset step disc_zero n ops h1 h2 ad1 ad2). Qed.
Theorem C15_gym_seed_then_reset St Obs Act Rw reset step disc_zero n ops h1 h2 ad1 ad2 :
  gym_run St Obs Act Rw reset step disc_zero (gym_final St Obs Act Rw reset step disc_zero ad1 h1) (OSeed Act n :: OReset Act :: ops)
  = gym_run St Obs Act Rw reset step disc_zero (gym_final St Obs Act Rw reset step disc_zero ad2 h2) (OSeed Act n :: OReset Act :: ops).
Proof. exact (gym_seed_then_reset St Obs Act Rw reset step disc_zero n ops h1 h2 ad1 ad2). Qed.
Print Assumptions C15_gym_reseed.

(* dm_env: the first timestep has no reward and no discount; steps relay the native timestep; same key schedule *)
Theorem C15_dm_first St Obs Act Rw reset step k cur :
  snd (dm_do St Obs Act Rw reset step (mkA St k cur) (OReset Act)) = DFirst Obs Rw (w_obs _ _ (snd (reset (KL k)))).
Proof. exact (dm_first St Obs Act Rw reset step k cur). Qed.
Theorem C15_dm_step St Obs Act Rw reset step k s a :
  snd (dm_do St Obs Act Rw reset step (mkA St k (Some s)) (OStep Act a)) =
  let t := snd (step s a) in DStep Obs Rw (w_ty _ _ t) (w_obs _ _ t) (w_rew _ _ t) (w_disc _ _ t).
Proof. exact (dm_step St Obs Act Rw reset step k s a). Qed.
Theorem C15_dm_key_schedule St Obs Act Rw reset step k cur :
  a_key _ (fst (dm_do St Obs Act Rw reset step (mkA St k cur) (OReset Act))) = KR k.
Proof. exact (dm_key_schedule St Obs Act Rw reset step k cur). Qed.
Print Assumptions C15_dm_step.

(* MultiToSingleWrapper returns the aggregated reward and discount and nothing else changed *)
Theorem C15_m2s_step St Obs Act Rw step agg_r agg_d s a :
  let r := m2s_step St Obs Act Rw step agg_r agg_d s a in let t := snd (step s a) in
  fst r = fst (step s a)
  /\ w_rew _ _ (snd r) = agg_r (w_rew _ _ t) /\ w_disc _ _ (snd r) = agg_d (w_disc _ _ t)
  /\ w_ty _ _ (snd r) = w_ty _ _ t /\ w_obs _ _ (snd r) = w_obs _ _ t
  /\ w_ext _ _ (snd r) = w_ext _ _ t /\ w_next _ _ (snd r) = w_next _ _ t.
Proof. exact (m2s_step_spec St Obs Act Rw step agg_r agg_d s a). Qed.
Theorem C15_m2s_reset St Obs Rw reset agg_r agg_d k :
  let r := m2s_reset St Obs Rw reset agg_r agg_d k in let t := snd (reset k) in
  fst r = fst (reset k)
  /\ w_rew _ _ (snd r) = agg_r (w_rew _ _ t) /\ w_disc _ _ (snd r) = agg_d (w_disc _ _ t)
  /\ w_ty _ _ (snd r) = w_ty _ _ t /\ w_obs _ _ (snd r) = w_obs _ _ t /\ w_ext _ _ (snd r) = w_ext _ _ t.
Proof. exact (m2s_reset_spec St Obs Rw reset agg_r agg_d k). Qed.
Print Assumptions C15_m2s_step.

(* observations belong to the converted space / spec; every sampled gym action is a valid native action *)
Theorem C15_valid_in_gym sp t :
  validate_leaf sp t = true -> no_nan_l (t_data t) ->
  (forall sh dt lo hi n, sp = SBounded sh dt lo hi n ->
     exists l h, bcast_bound lo sh = Some l /\ bcast_bound hi sh = Some h /\ no_nan_l l /\ no_nan_l h) ->
  gym_contains_leaf sp t = true.
Proof. exact (valid_in_gym sp t). Qed.
Theorem C15_valid_in_dm sp t : validate_leaf sp t = true -> dm_validate_leaf sp t = true.
Proof. exact (valid_in_dm sp t). Qed.
Theorem C15_gym_sample_valid sp t :
  gym_contains_leaf sp t = true -> dtype_of sp = Some (t_dt t) -> validate_leaf sp t = true.
Proof. exact (gym_sample_valid sp t). Qed.
Print Assumptions C15_gym_sample_valid.

Example C15_nonvacuous :
  gym_run (Z * key) Z Z Z toy_reset toy_step (Z.eqb 0) (gym_init _ 3) [OReset Z; OStep Z 4; OStep Z 5; OReset Z]
  = [GReset Z Z 0 0; GStep Z Z 1 4 false false 7; GStep Z Z 2 5 true true 7; GReset Z Z 0 0]
  /\ a_key _ (gym_final (Z * key) Z Z Z toy_reset toy_step (Z.eqb 0) (gym_init _ 3) [OReset Z; OReset Z]) = KR (KR (KRoot 3)).
Proof. vm_compute. split; reflexivity. Qed.
