(* C15, MultiToSingleWrapper over jumanji/wrappers.py AS TRANSLATED FROM /repo's CURRENT SOURCE on every run: the translated
   _aggregate_timestep / reset / step equal the hand model for EVERY environment and every pair of aggregators (only reward and
   discount are aggregated, nothing else changes).  The gym / dm_env adapters are stateful Python objects and are NOT translated;
   they stay tied by the correspondence. *)
Require Import JV.Base.Prelude JV.Base.Codec JV.Base.TimeStep JV.Model.Wrappers JV.Gen.WrappersSrc JV.Proofs.Wrappers_Src.
Theorem C15_Source_m2s_is_model St Obs Act Rw reset step agg_r agg_d k s a t :
  MultiToSingleWrapper_aggregate_timestep Obs Rw agg_r agg_d t = aggregate Obs Rw agg_r agg_d t
  /\ MultiToSingleWrapper_reset St Obs Rw reset agg_r agg_d k = m2s_reset St Obs Rw reset agg_r agg_d k
  /\ MultiToSingleWrapper_step St Obs Act Rw step agg_r agg_d s a = m2s_step St Obs Act Rw step agg_r agg_d s a.
Proof. exact (conj (aggregate_src Obs Rw agg_r agg_d t) (conj (m2s_reset_src St Obs Rw reset agg_r agg_d k) (m2s_step_src St Obs Act Rw step agg_r agg_d s a))). Qed.
Print Assumptions C15_Source_m2s_is_model.
