(* C16 -- the spec algebra.  Statements only; proofs in Proofs/Spec_laws.v *)
Require Import JV.Base.Prelude JV.Base.JaxIndex JV.Base.Tree JV.Base.Spec JV.Proofs.Spec_laws.

(* generate_value() is accepted by validate, for every (possibly nested) constructor-accepted spec *)
Theorem C16_gen_valid sp : wf_spec sp = true -> exists v, generate_value sp = Some v /\ validate sp v = true.
Proof. exact (gen_valid sp). Qed.
Print Assumptions C16_gen_valid.

(* validate accepts exactly: declared shape, declared dtype, no element < min, no element > max
   (IEEE comparisons: a NaN element passes, as it does in the code) *)
Theorem C16_validate_exact sp t : validate_leaf sp t = true <-> member_leaf sp t.
Proof. exact (validate_leaf_exact sp t). Qed.
Print Assumptions C16_validate_exact.

Theorem C16_in_bounds_exact v lo hi : in_bounds v lo hi = true <-> within v lo hi.
Proof. exact (in_bounds_spec v lo hi). Qed.
Print Assumptions C16_in_bounds_exact.

(* equality: reflexive (NaN-free bounds), symmetric, transitive per kind, and discriminating *)
Theorem C16_eq_refl sp : clean sp -> spec_eqb sp sp = Some true.
Proof. exact (spec_eqb_refl sp). Qed.
Print Assumptions C16_eq_refl.
Theorem C16_eq_sym a b : spec_eqb a b = Some true -> spec_eqb b a = Some true.
Proof. exact (spec_eqb_sym a b). Qed.
Print Assumptions C16_eq_sym.
Theorem C16_eq_trans a b c : (forall n fs, a <> SNested n fs) ->
  spec_eqb a b = Some true -> spec_eqb b c = Some true -> spec_eqb a c = Some true.
Proof. exact (spec_eqb_trans_leaf a b c). Qed.
Print Assumptions C16_eq_trans.
Theorem C16_eq_array s d n s' d' n' :
  spec_eqb (SArray s d n) (SArray s' d' n') = Some true <-> s = s' /\ d = d' /\ n = n'.
Proof. exact (spec_eqb_discriminates_array s d n s' d' n'). Qed.
Theorem C16_eq_discrete k d n k' d' n' :
  spec_eqb (SDiscrete k d n) (SDiscrete k' d' n') = Some true <-> k = k' /\ d = d' /\ n = n'.
Proof. exact (spec_eqb_discriminates_discrete k d n k' d' n'). Qed.
Theorem C16_eq_multi s v d n s' v' d' n' :
  spec_eqb (SMulti s v d n) (SMulti s' v' d' n') = Some true <-> s = s' /\ v = v' /\ d = d' /\ n = n'.
Proof. exact (spec_eqb_discriminates_multi s v d n s' v' d' n'). Qed.
Theorem C16_eq_bounded s d l h n s' d' l' h' n' :
  spec_eqb (SBounded s d l h n) (SBounded s' d' l' h' n') = Some true ->
  s = s' /\ d = d' /\ n = n' /\ bound_eq s l l' = Some true /\ bound_eq s h h' = Some true.
Proof. exact (spec_eqb_discriminates_bounded s d l h n s' d' l' h' n'). Qed.
Print Assumptions C16_eq_bounded.

(* replace: without arguments an equal spec; with one argument only that attribute changes *)
Theorem C16_replace_nil sp : clean sp -> exists sp', replace sp [] = Some sp' /\ spec_eqb sp' sp = Some true.
Proof. exact (replace_nil sp). Qed.
Theorem C16_replace_name_only sp n' sp' :
  (forall n fs, sp <> SNested n fs) -> apply_kw sp (KName n') = Some sp' ->
  name_of sp' = n' /\ dtype_of sp' = dtype_of sp /\ shape_of sp' = shape_of sp /\ bounds_of sp' = bounds_of sp.
Proof. exact (replace_name_only sp n' sp'). Qed.
Theorem C16_replace_dtype_only sp d' sp' :
  apply_kw sp (KDtype d') = Some sp' ->
  name_of sp' = name_of sp /\ dtype_of sp' = Some d' /\ shape_of sp' = shape_of sp /\ bounds_of sp' = bounds_of sp.
Proof. exact (replace_dtype_only sp d' sp'). Qed.
Theorem C16_replace_shape_only sp s' sp' :
  apply_kw sp (KShape s') = Some sp' ->
  name_of sp' = name_of sp /\ dtype_of sp' = dtype_of sp /\ shape_of sp' = Some s' /\ bounds_of sp' = bounds_of sp.
Proof. exact (replace_shape_only sp s' sp'). Qed.
Theorem C16_pickle_roundtrip sp : clean sp -> spec_eqb (unreduce (reduce sp)) sp = Some true.
Proof. exact (pickle_roundtrip sp). Qed.
Print Assumptions C16_pickle_roundtrip.

(* conversions *)
Theorem C16_valid_in_gym sp t :
  validate_leaf sp t = true -> no_nan_l (t_data t) ->
  (forall sh dt lo hi n, sp = SBounded sh dt lo hi n ->
     exists l h, bcast_bound lo sh = Some l /\ bcast_bound hi sh = Some h /\ no_nan_l l /\ no_nan_l h) ->
  gym_contains_leaf sp t = true.
Proof. exact (valid_in_gym sp t). Qed.
Print Assumptions C16_valid_in_gym.
Theorem C16_valid_in_dm sp t : validate_leaf sp t = true -> dm_validate_leaf sp t = true.
Proof. exact (valid_in_dm sp t). Qed.
Theorem C16_gym_sample_valid sp t :
  gym_contains_leaf sp t = true -> dtype_of sp = Some (t_dt t) -> validate_leaf sp t = true.
Proof. exact (gym_sample_valid sp t). Qed.
Print Assumptions C16_gym_sample_valid.

(* non-vacuity: a nested spec with a per-element bounded child is wf, clean, and its generated value validates *)
Example C16_nonvacuous :
  let b := SBounded [2;2] 3 (mkB [2] [Fin 0; Fin 1]) (mkB [] [Fin 5]) [98] in
  let sp := SNested [111] [([97], b); ([99], SDiscrete 4 3 [])] in
  wf_spec sp = true /\ spec_eqb sp sp = Some true /\
  exists v, generate_value sp = Some v /\ validate sp v = true.
Proof. vm_compute. repeat split. eexists; split; reflexivity. Qed.
