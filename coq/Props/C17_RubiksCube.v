(* C17 RubiksCube (group laws): for EVERY cube size n, EVERY depth 0 <= d < n (the environment only uses d < n/2),
   every move table translated from utils.py (Gen/RubikTables.v) and every well-shaped 6 x n x n cube c of ARBITRARY
   stickers: each move is a fixed permutation of the stickers (the index strip is duplicate-free => multiset conserved),
   a clockwise turn is undone by the anticlockwise turn, a half turn is two quarter turns, four quarter turns restore
   the cube.  amount values: 1 = clockwise, -1 = anticlockwise, 2 = half turn (CubeMovementAmount). *)
Require Import JV.Base.Prelude JV.Base.JaxIndex JV.Base.Codec JV.Base.TimeStep JV.Gen.RubikTables JV.Model.RubiksCube.
Require Import JV.Proofs.RubiksCube_Lists JV.Proofs.RubiksCube_Cube JV.Proofs.RubiksCube_Action JV.Proofs.RubiksCube_Group JV.Proofs.RubiksCube_Env.
From Coq Require Import Permutation.
(* the 4n strip positions of a move are pairwise distinct, in range, and none lies on the turning face *)
Theorem C17_RubiksCube_strip_nodup n d t :
  In t rubik_tables -> 0 <= d < n ->
  NoDup (strip n d t) /\ Forall (valid n) (strip n d t) /\ length (strip n d t) = (4 * Z.to_nat n)%nat
  /\ (forall p, In p (strip n d t) -> pface p <> t_face t).
Proof. intros Ht Hd. destruct (strip_facts_tables n d t Ht Hd). auto. Qed.
Theorem C17_RubiksCube_multiset_conserved n d t q c :
  In t rubik_tables -> 0 <= d < n -> shape n c -> Permutation (stickers (do_rotation n t d q c)) (stickers c).
Proof. exact (fun Ht Hd Sh => move_conserves_multiset n d t c Ht Hd Sh q). Qed.
Theorem C17_RubiksCube_cw_then_acw n d t c :
  In t rubik_tables -> 0 <= d < n -> shape n c -> do_rotation n t d (-1) (do_rotation n t d 1 c) = c.
Proof. exact (cw_then_acw n d t c). Qed.
Theorem C17_RubiksCube_acw_then_cw n d t c :
  In t rubik_tables -> 0 <= d < n -> shape n c -> do_rotation n t d 1 (do_rotation n t d (-1) c) = c.
Proof. exact (acw_then_cw n d t c). Qed.
Theorem C17_RubiksCube_half_is_two_quarters n d t c :
  In t rubik_tables -> 0 <= d < n -> shape n c ->
  do_rotation n t d 2 c = do_rotation n t d 1 (do_rotation n t d 1 c) /\
  do_rotation n t d 2 c = do_rotation n t d (-1) (do_rotation n t d (-1) c).
Proof. exact (fun Ht Hd Sh => conj (half_is_two_cw n d t c Ht Hd Sh) (half_is_two_acw n d t c Ht Hd Sh)). Qed.
Theorem C17_RubiksCube_four_quarters n d t c :
  In t rubik_tables -> 0 <= d < n -> shape n c ->
  do_rotation n t d 1 (do_rotation n t d 1 (do_rotation n t d 1 (do_rotation n t d 1 c))) = c.
Proof. exact (four_quarters n d t c). Qed.
Theorem C17_RubiksCube_half_then_half n d t c :
  In t rubik_tables -> 0 <= d < n -> shape n c -> do_rotation n t d 2 (do_rotation n t d 2 c) = c.
Proof. exact (half_then_half n d t c). Qed.
(* the moves of the action space are exactly these: table x depth < n/2 x amount in {1,-1,2} *)
Theorem C17_RubiksCube_all_moves n t d a :
  In (t, d, a) (all_moves n) <-> In t rubik_tables /\ 0 <= d < n / 2 /\ In a rubik_amounts.
Proof. exact (all_moves_in n t d a). Qed.
(* state-independence: the action selects the move by its index only (lax.switch), whatever the cube *)
Theorem C17_RubiksCube_action_is_fixed_move n a c : 2 <= n ->
  let '(f, d, am) := unflatten_action n (switch_clamp (num_actions n) a) in
  rotate_cube n c a = do_rotation n (nth (Z.to_nat f) rubik_tables tab_up) d (nth (Z.to_nat am) rubik_amounts 0) c.
Proof. exact (rotate_cube_decode n c a). Qed.
Print Assumptions C17_RubiksCube_strip_nodup.
Print Assumptions C17_RubiksCube_multiset_conserved.
Print Assumptions C17_RubiksCube_cw_then_acw.
Print Assumptions C17_RubiksCube_half_is_two_quarters.
Print Assumptions C17_RubiksCube_four_quarters.
Print Assumptions C17_RubiksCube_action_is_fixed_move.
Example C17_RubiksCube_nonvacuous :
  let c := id_cube 3 in
  shape_b 3 c = true /\ In tab_front rubik_tables /\
  stickers (do_rotation 3 tab_front 0 1 c) <> stickers c /\
  firstn 9 (stickers (do_rotation 3 tab_front 0 1 c)) = [0; 1; 2; 3; 4; 5; 44; 41; 38] /\
  do_rotation 3 tab_front 0 (-1) (do_rotation 3 tab_front 0 1 c) = c.
Proof. vm_compute. repeat split; auto; discriminate. Qed.
