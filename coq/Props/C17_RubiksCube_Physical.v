(* C17 RubiksCube (physical move, FINITE: cube sizes 2..7 -- the bound is part of the statement): every one of the
   18*floor(n/2) moves of the model (translated tables + do_rotation) carries the sticker at each position p of the
   distinct-sticker cube to the position whose 3-D coordinates are the coordinates of p rotated by a quarter /
   half turn about the turning face's normal when p lies in the turned layer, and leaves it in place otherwise
   (embed follows the face conventions documented in utils.py).  Proved by vm_compute over the finite domain and
   lifted with forallb_forall.  The for-all-n version of this geometric statement is NOT proved (stretch goal). *)
Require Import JV.Base.Prelude JV.Base.JaxIndex JV.Base.Codec JV.Base.TimeStep JV.Gen.RubikTables JV.Model.RubiksCube.
Require Import JV.Proofs.RubiksCube_Physical.
Theorem C17_RubiksCube_physical_partial n m :
  In n [2; 3; 4; 5; 6; 7] -> In m (all_moves n) -> physical_b n m = true.
Proof. exact (physical_moves n m). Qed.
Print Assumptions C17_RubiksCube_physical_partial.
Example C17_RubiksCube_Physical_nonvacuous :
  length (all_moves 7) = 54%nat /\ length (all_pos 7) = 294%nat /\
  embed 3 (face_FRONT, 0, 0) = (-2, 2, 3) /\ rotate3 (normal face_FRONT) (-2, 2, 3) = (2, 2, 3) /\
  unembed 3 (2, 2, 3) = (face_FRONT, 0, 2).
Proof. vm_compute. repeat split; auto. Qed.
