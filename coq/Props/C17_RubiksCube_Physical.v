(* C17 RubiksCube (physical move, EVERY cube size n >= 2, every depth d < n/2, every amount): every one of the
   18*floor(n/2) moves of the model (tables translated from /repo as functions of n and d + do_rotation = rot90 of
   the turning face when d = 0 + roll of the 4n strip) carries the sticker at each position p to the position whose
   3-D coordinates are the coordinates of p rotated by (amount mod 4) clockwise quarter turns about the turning
   face's outward normal when p lies in the turned layer, and leaves it in place otherwise (embed follows the face
   conventions documented in utils.py; the candidate position unembed(target) is validated by embed(p') = target).
     C17_RubiksCube_physical            the boolean check physical_b on the distinct-sticker cube, all n >= 2
     C17_RubiksCube_physical_any_cube   the same as a statement about an ARBITRARY cube c of shape n
     C17_RubiksCube_physical_2_7_crosscheck   the former finite result (n = 2..7 by vm_compute on the executable
                                        model), kept as an independent cross-check of the symbolic proof
   Proof route (Proofs/RubiksCube_Geometry.v, Proofs/RubiksCube_Layer.v): closed form of the strip positions from the
   rvec evaluator (arange / repeat / flip / concatenate), embed(strip[k+n]) = rotate3 axis (embed(strip[k])) for the
   6 tables x 4 segments, rot90 on the turning face = rotate3 restricted to that face, layer \ face = strip,
   amounts -1 and 2 by do_rotation_compose.  n and d are symbolic throughout. *)
Require Import JV.Base.Prelude JV.Base.JaxIndex JV.Base.Codec JV.Base.TimeStep JV.Gen.RubikTables JV.Model.RubiksCube.
Require Import JV.Proofs.RubiksCube_Cube JV.Proofs.RubiksCube_Physical JV.Proofs.RubiksCube_Layer.
Theorem C17_RubiksCube_physical n m :
  2 <= n -> In m (all_moves n) -> physical_b n m = true.
Proof. exact (physical_moves_all n m). Qed.
Print Assumptions C17_RubiksCube_physical.
Theorem C17_RubiksCube_physical_any_cube n t d a c p :
  2 <= n -> In (t, d, a) (all_moves n) -> shape n c -> valid n p ->
  let v := embed n p in
  let target := if in_layer n (t_face t) d v then rotate3_pow (Z.to_nat (a mod 4)) (normal (t_face t)) v else v in
  let p' := unembed n target in
  valid n p' /\ embed n p' = target /\ cget (apply_move n (t, d, a) c) p' = cget c p.
Proof. exact (physical_move_any_cube n t d a c p). Qed.
Print Assumptions C17_RubiksCube_physical_any_cube.
Theorem C17_RubiksCube_physical_2_7_crosscheck n m :
  In n [2; 3; 4; 5; 6; 7] -> In m (all_moves n) -> physical_b n m = true.
Proof. exact (physical_moves n m). Qed.
Print Assumptions C17_RubiksCube_physical_2_7_crosscheck.
Example C17_RubiksCube_Physical_nonvacuous :
  length (all_moves 7) = 54%nat /\ length (all_pos 7) = 294%nat /\
  embed 3 (face_FRONT, 0, 0) = (-2, 2, 3) /\ rotate3 (normal face_FRONT) (-2, 2, 3) = (2, 2, 3) /\
  unembed 3 (2, 2, 3) = (face_FRONT, 0, 2) /\
  (* an inner-layer move of a 5-cube really moves stickers: front, depth 1, clockwise *)
  nth 9 (all_moves 5) id_move = (tab_front, 1, 1) /\ in_layer 5 (t_face tab_front) 1 (embed 5 (face_UP, 3, 0)) = true /\
  unembed 5 (rotate3 (normal face_FRONT) (embed 5 (face_UP, 3, 0))) = (face_RIGHT, 0, 1) /\
  cget (apply_move 5 (tab_front, 1, 1) (id_cube 5)) (face_RIGHT, 0, 1) = code 5 (face_UP, 3, 0).
Proof. vm_compute. repeat split; auto. Qed.
