(* C17 RubiksCube (solved test, encodings, solvability), every n >= 2:
   is_solved accepts exactly the cubes whose six faces are uniform (this is what the docs promise: "all faces have a
   unique id"; for every n a whole-cube re-orientation of the goal is therefore also accepted -- recorded reading);
   flat and (face, depth, amount) encodings are mutually inverse; every action has an inverse action and every cube
   produced by reset (ANY scramble draw) or by play (ANY actions, in or out of spec) is solvable back to the goal. *)
Require Import JV.Base.Prelude JV.Base.JaxIndex JV.Base.Codec JV.Base.TimeStep JV.Gen.RubikTables JV.Model.RubiksCube.
Require Import JV.Proofs.RubiksCube_Lists JV.Proofs.RubiksCube_Cube JV.Proofs.RubiksCube_Action JV.Proofs.RubiksCube_Group JV.Proofs.RubiksCube_Env.
From Coq Require Import Permutation.
Theorem C17_RubiksCube_is_solved_exact c : is_solved c = true <-> (forall g, In g c -> Uniform g).
Proof. exact (is_solved_exact c). Qed.
Theorem C17_RubiksCube_goal_is_solved n : Solved (solved_cube n).
Proof. exact (solved_cube_solved n). Qed.
Theorem C17_RubiksCube_flatten_unflatten n a :
  2 <= n -> 0 <= a < num_actions n -> flatten_action n (unflatten_action n a) = a.
Proof. exact (flatten_unflatten n a). Qed.
Theorem C17_RubiksCube_unflatten_flatten n f d am :
  2 <= n -> 0 <= f < 6 -> 0 <= d < n / 2 -> 0 <= am < 3 ->
  unflatten_action n (flatten_action n (f, d, am)) = (f, d, am) /\ 0 <= flatten_action n (f, d, am) < num_actions n.
Proof. exact (unflatten_flatten n f d am). Qed.
Theorem C17_RubiksCube_unflatten_in_spec n a : 2 <= n -> 0 <= a < num_actions n ->
  let '(f, d, am) := unflatten_action n a in 0 <= f < 6 /\ 0 <= d < n / 2 /\ 0 <= am < 3.
Proof. exact (unflatten_range n a). Qed.
(* every action (any integer: lax.switch clamps) is undone by an explicit in-range action *)
Theorem C17_RubiksCube_inverse_action n c a :
  2 <= n -> shape n c ->
  rotate_cube n (rotate_cube n c a) (inv_action n a) = c /\ 0 <= inv_action n a < num_actions n.
Proof. exact (fun Hn Sh => conj (rotate_cube_inverse n c a Hn Sh) (inv_action_range n a Hn)). Qed.
(* reset: the scramble of ANY draw is brought back to the goal by the computed solution *)
Theorem C17_RubiksCube_scramble_solvable n acts :
  2 <= n -> fold_left (rotate_cube n) (solution n acts) (scramble n acts) = solved_cube n.
Proof. exact (scramble_solvable n acts). Qed.
(* play: states reached from the goal by any actions are solvable, keep the shape and the multiset of the goal *)
Theorem C17_RubiksCube_played_solvable n c :
  2 <= n -> Reach n c ->
  (exists sol, fold_left (rotate_cube n) sol c = solved_cube n) /\ shape n c /\
  Permutation (stickers c) (stickers (solved_cube n)).
Proof. exact (fun Hn R => conj (reach_solvable n c Hn R) (conj (reach_shape n c Hn R) (reach_multiset n c Hn R))). Qed.
Theorem C17_RubiksCube_reach_closed n T s a acts :
  Reach n (cube_of (fst (init n acts))) /\ (Reach n (cube_of s) -> Reach n (cube_of (fst (step n T s a)))).
Proof. exact (conj (init_reach n acts) (step_reach n T s a)). Qed.
Print Assumptions C17_RubiksCube_is_solved_exact.
Print Assumptions C17_RubiksCube_flatten_unflatten.
Print Assumptions C17_RubiksCube_unflatten_flatten.
Print Assumptions C17_RubiksCube_inverse_action.
Print Assumptions C17_RubiksCube_scramble_solvable.
Print Assumptions C17_RubiksCube_played_solvable.
Example C17_RubiksCube_Solved_nonvacuous :
  let c := scramble 3 [3; 7; 4; 16] in
  is_solved c = false /\ solution 3 [3; 7; 4; 16] = [15; 3; 6; 4] /\
  fold_left (rotate_cube 3) [15; 3; 6; 4] c = solved_cube 3 /\ is_solved (solved_cube 3) = true /\
  unflatten_action 4 23 = (3, 1, 2) /\ flatten_action 4 (3, 1, 2) = 23.
Proof. vm_compute. repeat split; auto. Qed.
