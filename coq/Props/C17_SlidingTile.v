(* C17 (SlidingTile half): for every board size n, every board satisfying Inv (well-shaped, blank where the state says -- true
   after reset and preserved by every in-spec action) and every action a in 0..3:
   - the action is the swap of the blank with its neighbour in direction a (cells transposed) when that neighbour is on the
     board, and the identity at the border;
   - the multiset of tiles is conserved (Permutation of the flattened boards), so reachable boards hold a permutation of 0..n^2-1;
   - opposite moves cancel when the first was legal ((a+2) mod 4 undoes a: up/down, right/left, all four pairs);
   - the solved test (jnp.array_equal with the goal) accepts exactly the goal board;
   - every state produced by reset (valid draws) or by play (any in-spec actions) is reachable from the goal and, moves being
     invertible, solvable back to it. *)
Require Import JV.Base.Prelude JV.Base.JaxIndex JV.Base.Codec JV.Base.TimeStep JV.Model.SlidingTile JV.Proofs.SlidingTile JV.Proofs.SlidingTile_Episode.
From Coq Require Import Permutation.
Theorem C17_SlidingTile_move_is_swap n g e a q : Inv n (g, e) -> 0 <= a < 4 -> legal_b n e a = true -> in_grid n q = true ->
  cell (fst (move_empty n g e a)) q = cell g (transp e (neighbour e a) q) /\ snd (move_empty n g e a) = neighbour e a.
Proof. exact (move_transposes n g e a q). Qed.
Theorem C17_SlidingTile_identity_at_border n g e a : in_grid n e = true -> 0 <= a < 4 -> legal_b n e a = false -> move_empty n g e a = (g, e).
Proof. exact (move_illegal n g e a). Qed.
Theorem C17_SlidingTile_tiles_conserved n b a : Inv n b -> 0 <= a < 4 ->
  Permutation (concat (fst (move_empty n (fst b) (snd b) a))) (concat (fst b)).
Proof. exact (move_perm n b a). Qed.
Theorem C17_SlidingTile_opposite_moves_cancel n g e a : Inv n (g, e) -> 0 <= a < 4 -> legal_b n e a = true ->
  let m := move_empty n g e a in move_empty n (fst m) (snd m) (opp a) = (g, e).
Proof. exact (move_opp n g e a). Qed.
Theorem C17_SlidingTile_solved_test_exact g g' : grid_eqb g g' = true <-> g = g'.
Proof. exact (grid_eqb_spec g g'). Qed.
Theorem C17_SlidingTile_inv_preserved n b a : Inv n b -> 0 <= a < 4 -> Inv n (move_empty n (fst b) (snd b) a).
Proof. exact (move_Inv n b a). Qed.
Theorem C17_SlidingTile_reachable_tiles n b : 0 < n -> reach n b -> Permutation (concat (fst b)) (zrange (n * n)).
Proof. exact (reach_perm n b). Qed.
Theorem C17_SlidingTile_reachable_solvable n b : 0 < n -> reach n b -> exists back, inspec back /\ run_moves n b back = gen_start n.
Proof. exact (reach_solvable n b). Qed.
Theorem C17_SlidingTile_reset_and_play_solvable n T rw draws key acts :
  0 < n -> valid_draws n (gen_start n) draws = true -> inspec acts ->
  Forall (fun x : item => reach n (bd (fst (fst x))) /\ exists back, inspec back /\ run_moves n (bd (fst (fst x))) back = gen_start n)
         (run n T rw (gen_state n draws key) acts).
Proof. exact (play_solvable n T rw draws key acts). Qed.
Theorem C17_SlidingTile_reset_reachable n draws : 0 < n -> valid_draws n (gen_start n) draws = true -> reach n (generate n draws).
Proof. exact (generate_reach n draws). Qed.
(* the boolean checkers run on implementation states decide these predicates *)
Theorem C17_SlidingTile_checker_inv n g e : inv_b n g e = true -> Inv n (g, e).
Proof. exact (inv_b_Inv n g e). Qed.
Theorem C17_SlidingTile_checker_perm n g : perm_b n g = true -> Permutation (concat g) (zrange (n * n)).
Proof. exact (perm_b_spec n g). Qed.
Print Assumptions C17_SlidingTile_move_is_swap.
Print Assumptions C17_SlidingTile_tiles_conserved.
Print Assumptions C17_SlidingTile_opposite_moves_cancel.
Print Assumptions C17_SlidingTile_reset_and_play_solvable.
Example C17_SlidingTile_nonvacuous :
  let g := [[1; 0; 3]; [4; 2; 5]; [7; 8; 6]] in
  inv_b 3 g (0, 1) = true /\ legal_b 3 (0, 1) 2 = true /\ move_empty 3 g (0, 1) 2 = ([[1; 2; 3]; [4; 0; 5]; [7; 8; 6]], (1, 1))
  /\ move_empty 3 [[1; 2; 3]; [4; 0; 5]; [7; 8; 6]] (1, 1) (opp 2) = (g, (0, 1)) /\ move_empty 3 g (0, 1) 0 = (g, (0, 1))
  /\ run_moves 3 (g, (0, 1)) [2; 1; 2] = gen_start 3.
Proof. vm_compute. repeat split; reflexivity. Qed.
