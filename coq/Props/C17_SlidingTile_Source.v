(* C17 SlidingTilePuzzle over the SOURCE-TRANSLATED `_move_empty_tile` (Gen/SlidingTileSrc.v; see C09_SlidingTile_Source.v): the
   group laws hold of the translated move itself -- a legal move followed by the opposite move restores board and blank, and every
   move (legal or not) permutes the tiles. *)
Require Import JV.Base.Prelude JV.Base.JaxIndex JV.Base.Codec JV.Base.TimeStep JV.Gen.TimeStepSrc JV.Gen.SlidingTileSrc.
Require Import JV.Proofs.SlidingTile JV.Proofs.SlidingTile_Src.
Require Import Permutation.
Require JV.Model.SlidingTile.
Theorem C17_SlidingTile_Source_move_then_opposite n g e a :
  Inv n (g, e) -> 0 <= a < 4 -> JV.Model.SlidingTile.legal_b n e a = true ->
  let m := move_empty_tile n g e a in move_empty_tile n (fst m) (snd m) (JV.Model.SlidingTile.opp a) = (g, e).
Proof. intros I Ha L. cbv zeta. rewrite !move_src. exact (move_opp n g e a I Ha L). Qed.
Print Assumptions C17_SlidingTile_Source_move_then_opposite.
Theorem C17_SlidingTile_Source_move_permutes n g e a :
  Inv n (g, e) -> 0 <= a < 4 -> Permutation (concat (fst (move_empty_tile n g e a))) (concat g).
Proof. intros I Ha. rewrite move_src. exact (move_perm n (g, e) a I Ha). Qed.
Print Assumptions C17_SlidingTile_Source_move_permutes.
