(* C18 — the registry maps each id to one reproducible configuration.  Statements only; proofs in Proofs/Registry.v.
   Scope written into the statements: ids are lists of code points; [name_ok] is the ASCII alphabet [A-Za-z0-9_:.-]+
   (Python's \w / \d also accept non-ASCII letters and digits; the harness samples those against the real regex). *)
Require Import JV.Base.Prelude JV.Base.Codec JV.Model.Registry JV.Proofs.Registry.

(* every well-formed id '<name>-v<N>' parses to (name, N) ... *)
Theorem C18_parse_format name v : name_ok name -> parse_env_id (get_env_id name v) = Parsed name v.
Proof. exact (parse_format name v). Qed.
Print Assumptions C18_parse_format.

(* ... whatever parses has exactly that shape ... *)
Theorem C18_parse_sound s n v : parse_env_id s = Parsed n v ->
  exists ds, s = n ++ 45 :: 118 :: ds /\ name_ok n /\ length ds <> 0%nat /\ all_digits ds = true /\ v = int_of ds.
Proof. exact (parse_sound s n v). Qed.
Print Assumptions C18_parse_sound.

(* ... and formats back to itself when the version is written canonically (x-v007 parses but formats to x-v7) *)
Theorem C18_format_parse s n v :
  parse_env_id s = Parsed n v -> (forall ds, s = n ++ 45 :: 118 :: ds -> ds = str_of (int_of ds)) -> get_env_id n v = s.
Proof. exact (format_parse s n v). Qed.
Print Assumptions C18_format_parse.

(* malformed ids (a character outside the alphabet) and version-less ids are rejected *)
Theorem C18_rejects_bad_char s : existsb (fun c => negb (name_char c)) s = true -> parse_env_id s = Malformed.
Proof. exact (parse_rejects_bad_char s). Qed.
Theorem C18_rejects_versionless s :
  (forall n ds, s = n ++ 45 :: 118 :: ds -> ~ (name_ok n /\ length ds <> 0%nat /\ all_digits ds = true)) ->
  forall n v, parse_env_id s <> Parsed n v.
Proof. exact (parse_rejects_versionless s). Qed.
Print Assumptions C18_rejects_versionless.

(* registering an existing id is refused (the model's register returns no new registry in that case: unchanged),
   after ANY history of further register calls *)
Theorem C18_register_dup R id entry kw name v :
  parse_env_id id = Parsed name v -> lookup R (get_env_id name v) <> None -> register R id entry kw = RegOverride.
Proof. exact (register_dup R id entry kw name v). Qed.
Theorem C18_register_twice_refused ops R id entry kw R1 entry2 kw2 :
  register R id entry kw = RegOk R1 -> register (run_regs R1 ops) id entry2 kw2 = RegOverride.
Proof. exact (register_twice_refused ops R id entry kw R1 entry2 kw2). Qed.
Print Assumptions C18_register_twice_refused.

(* a successful registration adds exactly that id and changes no existing entry; no history of register calls ever
   changes what an id maps to *)
Theorem C18_register_ok R id entry kw R' :
  register R id entry kw = RegOk R' ->
  exists name v, parse_env_id id = Parsed name v /\ lookup R (get_env_id name v) = None
    /\ lookup R' (get_env_id name v) = Some (mkSpec (get_env_id name v) entry kw)
    /\ forall id', lookup R id' <> None -> lookup R' id' = lookup R id'.
Proof. exact (register_ok R id entry kw R'). Qed.
Theorem C18_registry_monotone ops R id sp : lookup R id = Some sp -> lookup (run_regs R ops) id = Some sp.
Proof. exact (registry_monotone ops R id sp). Qed.
Print Assumptions C18_registry_monotone.

(* make(id) builds the registered entry point with the registered arguments overridden only by the caller's kwargs *)
Theorem C18_make_registered R id kw name v sp :
  parse_env_id id = Parsed name v -> lookup R (get_env_id name v) = Some sp ->
  make R id kw = MakeOk (es_entry sp) (override (es_kwargs sp) kw).
Proof. exact (make_registered R id kw name v sp). Qed.
Theorem C18_override_spec extra base k :
  kw_get (override base extra) k = match kw_get (List.rev extra) k with Some v => Some v | None => kw_get base k end.
Proof. exact (override_spec extra base k). Qed.
Print Assumptions C18_override_spec.

(* unknown ids raise an error listing the registered ones *)
Theorem C18_make_unknown R id kw name v :
  parse_env_id id = Parsed name v -> lookup R (get_env_id name v) = None -> make R id kw = MakeUnregistered (map fst R).
Proof. exact (make_unknown R id kw name v). Qed.
Print Assumptions C18_make_unknown.

Example C18_nonvacuous :
  parse_env_id [83;110;97;107;101;45;118;49] = Parsed [83;110;97;107;101] 1      (* "Snake-v1" *)
  /\ parse_env_id [97;45;118;49;45;118;50] = Parsed [97;45;118;49] 2              (* "a-v1-v2" -> ("a-v1", 2) *)
  /\ parse_env_id [83;110;97;107;101] = VersionMissing [83;110;97;107;101]        (* "Snake" *)
  /\ parse_env_id [97;32;45;118;49] = Malformed                                   (* "a -v1" *)
  /\ parse_env_id [45;118;49] = VersionMissing [45;118;49]
  /\ get_env_id [120] 120 = [120;45;118;49;50;48].
Proof. exact parse_examples. Qed.
