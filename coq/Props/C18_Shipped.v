(* C18 — the SHIPPED registry, re-checked on every build against Gen/RegistryData.v (value dump of
   jumanji.registration._REGISTRY and ENV_NAME_RE.pattern taken from /repo's current tree):
   the regex is the one the model implements, every shipped id parses and formats back to itself, dict keys
   equal spec ids, and replaying all registrations from the empty registry succeeds (no duplicate id). *)
Require Import JV.Base.Prelude JV.Base.Codec JV.Model.Registry JV.Proofs.Registry JV.Gen.RegistryData.

Definition shipped_pairs : list (str * str) := map (fun q => match q with (k, id, entry, _) => (id, entry) end) shipped_registry.

Theorem C18_shipped_ok : shipped_ok_b ENV_NAME_RE_pattern shipped_pairs = true.
Proof. vm_compute. reflexivity. Qed.
Theorem C18_shipped_keys_are_ids :
  forallb (fun q => match q with (k, id, _, _) => str_eqb k id end) shipped_registry = true.
Proof. vm_compute. reflexivity. Qed.
Theorem C18_shipped_meaning :
  ENV_NAME_RE_pattern = modelled_pattern
  /\ (forall p, In p shipped_pairs -> exists n v, parse_env_id (fst p) = Parsed n v /\ get_env_id n v = fst p)
  /\ exists R, register_all [] shipped_pairs = Some R /\ map fst R = map fst shipped_pairs
               /\ forall p, In p shipped_pairs -> lookup R (fst p) <> None.
Proof. exact (shipped_ok_spec _ _ C18_shipped_ok). Qed.
Print Assumptions C18_shipped_meaning.
Example C18_shipped_nonvacuous : (20 <=? zlen shipped_registry) = true.
Proof. vm_compute. reflexivity. Qed.
