(* C19 -- pytree helpers satisfy their algebraic laws.  Statements only; proofs in Proofs/Tree_laws.v *)
Require Import JV.Base.Prelude JV.Base.JaxIndex JV.Base.Tree JV.Proofs.Tree_laws.

(* stack then slice at i returns the i-th tree (any number of trees, any structure, any leaf shapes) *)
Theorem C19_slice_transpose (ts : list ptree) t0 s i :
  Forall wf_tree ts -> Forall (same_structure t0) ts -> tree_transpose ts = Some s ->
  (i < length ts)%nat -> tree_slice s (Z.of_nat i) = Some (nth i ts (mkP [] [])).
Proof. exact (slice_transpose ts t0 s i). Qed.
Print Assumptions C19_slice_transpose.

(* setting element i changes index i to the element ... *)
Theorem C19_add_element_at t i e r n :
  wf_tree t -> wf_tree e -> batched n t -> 0 <= n ->
  tree_add_element t i e = Some r -> tree_slice r i = Some e.
Proof. exact (add_element_at t i e r n). Qed.
Print Assumptions C19_add_element_at.

(* ... and nothing else *)
Theorem C19_add_element_else t i j e r n :
  wf_tree t -> wf_tree e -> batched n t -> 0 <= n ->
  tree_add_element t i e = Some r -> jnorm n j <> jnorm n i -> 0 <= jnorm n j < n ->
  tree_slice r j = tree_slice t j.
Proof. exact (add_element_else t i j e r n). Qed.
Print Assumptions C19_add_element_else.

(* structure, leaf dtypes and leaf shapes are preserved *)
Theorem C19_add_element_preserves t i e r :
  tree_add_element t i e = Some r ->
  p_def r = p_def t /\ length (p_leaves r) = length (p_leaves t) /\
  forall p, (p < length (p_leaves t))%nat ->
    t_dt (nth p (p_leaves r) dummy_tensor) = t_dt (nth p (p_leaves t) dummy_tensor) /\
    t_shape (nth p (p_leaves r) dummy_tensor) = t_shape (nth p (p_leaves t) dummy_tensor).
Proof. exact (add_element_preserves t i e r). Qed.
Print Assumptions C19_add_element_preserves.

Theorem C19_transpose_preserves ts t0 s :
  tree_transpose ts = Some s -> In t0 ts ->
  p_def s = p_def t0 /\ length (p_leaves s) = length (p_leaves t0).
Proof. exact (transpose_preserves ts t0 s). Qed.
Print Assumptions C19_transpose_preserves.

(* equality helper: reflexive (no NaN leaf: np.array_equal(nan,nan) is False), symmetric, exact *)
Theorem C19_eq_refl t : Forall no_nan (p_leaves t) -> is_equal_pytree t t = Some true.
Proof. exact (eq_refl_tree t). Qed.
Print Assumptions C19_eq_refl.

Theorem C19_eq_refl_nan_refuted : exists t, is_equal_pytree t t = Some false.
Proof. exact eq_refl_nan_refuted. Qed.

Theorem C19_eq_sym a b : is_equal_pytree a b = is_equal_pytree b a.
Proof. exact (eq_sym_tree a b). Qed.
Print Assumptions C19_eq_sym.

Theorem C19_eq_exact a b :
  p_def a = p_def b -> length (p_leaves a) = length (p_leaves b) ->
  (is_equal_pytree a b = Some true <->
   forall j, (j < length (p_leaves a))%nat ->
     let x := nth j (p_leaves a) dummy_tensor in let y := nth j (p_leaves b) dummy_tensor in
     t_shape x = t_shape y /\ list_eqb xnum_eqb (t_data x) (t_data y) = true).
Proof. exact (eq_exact a b). Qed.
Print Assumptions C19_eq_exact.

Theorem C19_assert_different_iff a b :
  assert_different_fails a b = Some true <-> is_equal_pytree a b = Some true.
Proof. exact (assert_different_iff a b). Qed.
Print Assumptions C19_assert_different_iff.

(* non-vacuity: a concrete batch of two structured trees meets every hypothesis above *)
Example C19_nonvacuous :
  let a := mkP [1;2] [mkT 3 [2] [Fin 1; Fin 2]; mkT 0 [] [Fin 1]] in
  let b := mkP [1;2] [mkT 3 [2] [Fin 5; Fin 6]; mkT 0 [] [Fin 0]] in
  exists s, tree_transpose [a; b] = Some s /\ tree_slice s 1 = Some b
            /\ exists r, tree_add_element s 0 b = Some r /\ tree_slice r 0 = Some b /\ tree_slice r 1 = Some b.
Proof. vm_compute. eexists; repeat split; eexists; repeat split. Qed.
