(* C19 over jumanji/tree_utils.py and jumanji/testing/pytrees.py AS TRANSLATED FROM /repo's CURRENT SOURCE on every run
   (Gen/TreeSrc.v): the translated helpers equal the model on EVERY pytree and the round-trip laws hold of them directly.
   (tree_map / map_structure / x[i] / .at[i].set / jnp.stack are given the meaning of Base/Tree.v: stated in the trusted base;
   is_equal_pytree's three statements are pinned textually, its translation is fixed.) *)
Require Import JV.Base.Prelude JV.Base.JaxIndex JV.Base.Tree JV.Gen.TreeSrc JV.Proofs.Tree_laws JV.Proofs.Tree_Src.

Theorem C19_Source_helpers_are_model ts t i e a b :
  tree_transpose_src ts = tree_transpose ts /\ tree_slice_src t i = tree_slice t i
  /\ tree_add_element_src t i e = tree_add_element t i e /\ is_equal_pytree_src a b = is_equal_pytree a b
  /\ assert_trees_are_different_fails_src a b = assert_different_fails a b
  /\ assert_trees_are_equal_fails_src a b = assert_equal_fails a b.
Proof.
  exact (conj (tree_transpose_src_eq ts) (conj (tree_slice_src_eq t i) (conj (tree_add_element_src_eq t i e)
        (conj (is_equal_pytree_src_eq a b) (conj (assert_different_src_eq a b) (assert_equal_src_eq a b)))))).
Qed.
Print Assumptions C19_Source_helpers_are_model.
Theorem C19_Source_slice_transpose (ts : list ptree) t0 s i :
  Forall wf_tree ts -> Forall (same_structure t0) ts -> tree_transpose_src ts = Some s ->
  (i < length ts)%nat -> tree_slice_src s (Z.of_nat i) = Some (nth i ts (mkP [] [])).
Proof. exact (src_slice_transpose ts t0 s i). Qed.
Print Assumptions C19_Source_slice_transpose.
Theorem C19_Source_add_element_at t i e r n :
  wf_tree t -> wf_tree e -> batched n t -> 0 <= n ->
  tree_add_element_src t i e = Some r -> tree_slice_src r i = Some e.
Proof. exact (src_add_element_at t i e r n). Qed.
Theorem C19_Source_add_element_else t i j e r n :
  wf_tree t -> wf_tree e -> batched n t -> 0 <= n ->
  tree_add_element_src t i e = Some r -> jnorm n j <> jnorm n i -> 0 <= jnorm n j < n ->
  tree_slice_src r j = tree_slice_src t j.
Proof. exact (src_add_element_else t i j e r n). Qed.
Print Assumptions C19_Source_add_element_else.
Example C19_Source_nonvacuous :
  let a := mkP [7] [mkT 0 [2] [Fin 1; Fin 2]] in let b := mkP [7] [mkT 0 [2] [Fin 3; Fin 4]] in
  tree_transpose_src [a; b] = Some (mkP [7] [mkT 0 [2; 2] [Fin 1; Fin 2; Fin 3; Fin 4]])
  /\ tree_slice_src (mkP [7] [mkT 0 [2; 2] [Fin 1; Fin 2; Fin 3; Fin 4]]) 1 = Some b
  /\ is_equal_pytree_src a b = Some false /\ assert_trees_are_different_fails_src a a = Some true.
Proof. vm_compute. repeat split; reflexivity. Qed.
