"""./check Cxx --tier T : decide one property on /repo's current working tree.

1. regenerate coq/Gen/*.v from /repo (harness/gen.py), 2. make (full .vo), 3. compile the
property's theorem files Props/Cxx*.v capturing Print Assumptions, 4. audit, 5. correspondence
and verified checkers on the implementation (harness/props/cxx.py), 6. verdict + evidence."""
import argparse
import glob
import importlib
import json
import os
import re
import subprocess
import sys
import time

sys.path.insert(0, os.path.dirname(os.path.dirname(os.path.abspath(__file__))))
from harness import build as B
from harness import core

VERIF = core.VERIF
COQ = core.COQ
ALL = ["C%02d" % i for i in range(1, 20)]
LEVEL = {"C02": "translation_validation"}
ALLOWED_AXIOMS = {
    # axioms declared by Coq's standard library that a dependency may pull in; each use is
    # reported per theorem in the evidence (coverage.assumptions)
    "functional_extensionality_dep", "proof_irrelevance", "eq_rect_eq", "classic", "JMeq_eq",
}
FORBIDDEN = re.compile(r"\b(Admitted|admit|Axiom|Parameter|Conjecture|Unset\s+Guard|bypass_check|Admit\s+Obligations|type-in-type|impredicative-set)\b")


def gen():
    rc, out = B.sh(f"{core.PY} -W ignore harness/gen.py 2>&1", cwd=VERIF, env=core.py_env(), timeout=900)
    return rc, out


def audit():
    bad = []
    for sub in ("Base", "Model", "Proofs", "Props", "Gen"):
        for f in glob.glob(os.path.join(COQ, sub, "*.v")):
            txt = open(f).read()
            txt = re.sub(r"\(\*.*?\*\)", "", txt, flags=re.S)
            for m in FORBIDDEN.finditer(txt):
                bad.append("%s: %s" % (os.path.relpath(f, COQ), m.group(0)))
            if re.search(r"^\s*(Variable|Hypothesis|Variables|Hypotheses)\b", txt, flags=re.M) and "Section" not in txt:
                bad.append("%s: Variable outside a section" % os.path.relpath(f, COQ))
    return bad


def compile_props(pid):
    """Compile Props/<pid>*.v (8 at a time); returns list of dict(file, ok, theorems, assumptions, log)."""
    from concurrent.futures import ThreadPoolExecutor

    def one(f):
        rel = os.path.relpath(f, COQ)
        txt = open(f).read()
        thms = re.findall(r"^\s*(?:Theorem|Example|Corollary)\s+(\w+)", txt, flags=re.M)
        rc, out = B.sh(f"timeout 900 coqc -Q . JV -w -notation-overridden,-deprecated-hint-without-locality {rel} 2>&1", cwd=COQ, timeout=1000)
        axioms = sorted(set(re.findall(r"^([\w.]+)\s*:", out, flags=re.M)) - {"File"}) if "Axioms:" in out else []
        closed = out.count("Closed under the global context")
        return dict(file=rel, ok=(rc == 0), theorems=thms, axioms=axioms, closed=closed, log=out[-1500:] if rc != 0 else "")
    files = sorted(glob.glob(os.path.join(COQ, "Props", pid + "*.v")))
    with ThreadPoolExecutor(max_workers=int(os.environ.get("VERIF_PROP_JOBS", "8"))) as ex:
        return list(ex.map(one, files))


def deps_failed(pid, failed):
    """Which failed .v files are in the dependency closure of Props/<pid>*.v (textual Require scan)."""
    if not failed:
        return []
    seen, todo = set(), [os.path.relpath(f, COQ) for f in glob.glob(os.path.join(COQ, "Props", pid + "*.v"))]
    while todo:
        f = todo.pop()
        if f in seen or not os.path.exists(os.path.join(COQ, f)):
            continue
        seen.add(f)
        txt = open(os.path.join(COQ, f)).read()
        for m in re.finditer(r"JV\.(\w+)\.(\w+)", txt):
            todo.append("%s/%s.v" % (m.group(1), m.group(2)))
    return sorted(set(failed) & seen)


def xcheck(pid, res, limit=60):
    """Re-evaluate sampled records of the extracted OCaml driver INSIDE Coq: for each (entry, input, output) sample write
    `Goal entry input = output. vm_compute. reflexivity.` and compile it.  Takes extraction + driver.ml out of the trusted
    base for those records.  Returns (n_ok, n_total, broken_detail_or_None)."""
    samples = dict(getattr(res, "xsamples", {}) or {})
    if not samples:
        from harness import core as _c
        samples = {k: v[:1] for k, v in _c.XSAMPLES.items()}
    ex = dict((n, m) for m, n in B.exports(only_compiled=True))
    items = [(n, a, o) for n, l in sorted(samples.items()) if n in ex for (a, o) in l][:limit]
    if not items:
        return 0, 0, None
    mods = sorted({ex[n] for n, _, _ in items})
    z = lambda x: str(x) if x >= 0 else "(%d)" % x
    lst = lambda l: "[" + "; ".join(z(int(x)) for x in l) + "]"
    body = "".join("Goal %s.%s %s = %s.\nProof. vm_compute. reflexivity. Qed.\n" % (ex[n], n, lst(a), lst(o)) for n, a, o in items)
    d = os.path.join(core.CACHE, "xcheck")
    os.makedirs(d, exist_ok=True)
    f = os.path.join(d, "XCheck_%s.v" % pid)
    open(f, "w").write("Require Import JV.Base.Prelude.\n" + "".join("Require %s.\n" % m for m in mods) + body)
    rc, out = B.sh("ulimit -s unlimited 2>/dev/null; timeout 600 coqc -Q %s JV -w none %s 2>&1" % (COQ, f), cwd=d, timeout=700)
    if rc == 0:
        return len(items), len(items), None
    return 0, len(items), out[-1200:]


def known_match(pid, failure, known):
    for k in known.get("known", []):
        if k.get("property") != pid:
            continue
        if all(str(failure.get("where", {}).get(kk)) == str(vv) for kk, vv in k.get("match", {}).items()):
            return k
    return None


def main():
    ap = argparse.ArgumentParser()
    ap.add_argument("prop", nargs="?")
    ap.add_argument("--tier", default=os.environ.get("VERIF_TIER", "quick"))
    ap.add_argument("--replay")
    ap.add_argument("--warm")
    ap.add_argument("--no-cache", action="store_true")
    ap.add_argument("--env", help="developer mode: run the analyses of ONE environment (no proofs, no evidence)")
    a = ap.parse_args()
    seed = int(os.environ.get("VERIF_SEED", "0"))
    t0 = time.time()
    if a.env:
        b = B.build()
        if not b["ok"]:
            print(b["log"][-2500:], b["driver_log"][-1500:])
            print("BUILD FAILED:", b["failed"])
        from harness import envkit
        res = envkit.run_env(a.env, a.tier if a.tier in ("quick", "thorough") else "quick", seed)
        bad = 0
        for p, x in sorted(res.items()):
            if x.evaluations or x.failures:
                print(p, "evaluations", x.evaluations, "distinct", len(x.distinct), "failures", sum(v for k, v in x.dist.items() if k.startswith("fail:")))
            for f in x.failures[:4]:
                bad += 1
                print("    FAIL:", f["what"], json.dumps(core.jsonable(f["where"]))[:200])
                print("          ", json.dumps(core.jsonable(f["replay"]))[:700])
        return 1 if bad else 0
    if a.warm:
        rc, out = gen()
        b = B.build()
        print("gen rc=%d build ok=%s failed=%s (%.0fs)" % (rc, b["ok"], b["failed"], b["wall_s"]))
        if rc != 0:
            print(out[-3000:])
        if not b["ok"]:
            print(b["log"][-3000:], b["driver_log"][-2000:])
        from harness import props
        props.warm(a.warm, seed)
        # a proof file that does not compile is reported by the checks that depend on it (deps_failed); the setup itself
        # fails only when the translators, the shared library or the extracted driver are broken
        base_broken = [f for f in b["failed"] if f.startswith(("Base/", "Gen/"))]
        return 0 if (rc == 0 and b["driver_ok"] and not base_broken) else 1
    pid = a.prop
    if pid not in ALL:
        print("usage: ./check Cxx [--tier quick|thorough] [--replay file]")
        return 2
    tier = a.tier if a.tier in ("quick", "thorough") else "quick"
    mod = importlib.import_module("harness.props." + pid.lower())
    if a.replay:
        return mod.replay(a.replay)

    broken = []          # proof obligations / ties that no longer check
    gen_rc, gen_out = gen()
    if gen_rc != 0:
        broken.append(dict(kind="translator", detail=gen_out[-2000:]))
    b = B.build()
    relevant_failed = deps_failed(pid, b["failed"])
    for f in relevant_failed:
        broken.append(dict(kind="proof-or-model-file-does-not-compile", file=f,
                           detail=re.findall(r'File "\./%s".*?(?=\nFile|\nmake|\Z)' % re.escape(f), b["log"], flags=re.S)[:1]))
    if not b["driver_ok"]:
        broken.append(dict(kind="extraction-or-driver-build", detail=b["driver_log"][-1500:]))
    props = compile_props(pid)
    obligations = sum(len(p["theorems"]) for p in props)
    discharged = sum(len(p["theorems"]) for p in props if p["ok"])
    assumptions = {}
    for p in props:
        if not p["ok"]:
            broken.append(dict(kind="theorem-file-does-not-compile", file=p["file"], detail=p["log"]))
        for ax in p["axioms"]:
            if ax.split(".")[-1] not in ALLOWED_AXIOMS:
                broken.append(dict(kind="unexpected-axiom", file=p["file"], detail=ax))
        assumptions[p["file"]] = p["axioms"] if p["axioms"] else "Closed under the global context"
    aud = audit()
    for x in aud:
        broken.append(dict(kind="audit", detail=x))

    # correspondence + verified checkers on the implementation
    try:
        res = mod.analyze(tier, seed, use_cache=not a.no_cache)
    except Exception as e:  # harness crash = the tie itself no longer checks
        import traceback
        res = core.Result()
        broken.append(dict(kind="harness-exception", detail=traceback.format_exc()[-3000:]))

    # extraction cross-check: sampled driver records re-evaluated by the kernel's VM
    xc_ok, xc_n, xc_err = (0, 0, None)
    try:
        xc_ok, xc_n, xc_err = xcheck(pid, res)
    except Exception:
        import traceback
        xc_err = traceback.format_exc()[-800:]
    if xc_err:
        broken.append(dict(kind="extraction-crosscheck (Coq vm_compute disagrees with the extracted driver, or the file does not compile)", detail=xc_err))

    known = core.load_known()
    violations = []
    printed = set()
    for f in res.failures:
        k = known_match(pid, f, known)
        if k:
            line = "KNOWN-FINDING: property=%s %s" % (pid, k.get("what", f["what"]))
            if line not in printed:
                print(line)
                printed.add(line)
        else:
            violations.append(f)
    os.makedirs(os.path.join(VERIF, "replays"), exist_ok=True)
    exit_code = 0
    if violations:
        path = os.path.join(VERIF, "replays", "%s-%s-%d.json" % (pid, tier, seed))
        json.dump(core.jsonable(dict(property=pid, tree=core.tree_hash(), failures=violations[:60],
                                     broken=broken)), open(path, "w"), indent=1)
        print("VIOLATION property=%s replay=%s" % (pid, path))
        for f in violations[:5]:
            print("  ", f["what"], json.dumps(core.jsonable(f["where"]))[:300])
        exit_code = 1
    elif broken:
        # the proof/tie broke; the search (res) found no concrete failing input
        path = os.path.join(VERIF, "replays", "%s-%s-%d.json" % (pid, tier, seed))
        json.dump(core.jsonable(dict(property=pid, tree=core.tree_hash(), failures=[],
                                     no_longer_checks=broken)), open(path, "w"), indent=1)
        print("VIOLATION property=%s replay=%s no-failing-input-found" % (pid, path))
        for x in broken[:5]:
            print("  ", x.get("kind"), x.get("file", ""), str(x.get("detail"))[:400])
        exit_code = 1

    level = LEVEL.get(pid, "proof")
    cov = dict(
        obligations=obligations, discharged=discharged,
        checker_cmd="make -C coq (coqc 8.16.1, full .vo) + coqc Props/%s*.v with Print Assumptions; thorough: coqchk -o" % pid,
        trusted_base=mod.TRUSTED if hasattr(mod, "TRUSTED") else [],
        theorem_files=[dict(file=p["file"], ok=p["ok"], theorems=p["theorems"]) for p in props],
        assumptions=assumptions,
        evaluations=res.evaluations, distinct_nontrivial=len(res.distinct),
        rule=getattr(mod, "RULE", ""),
        samples=core.jsonable(res.samples[:8]) or ["(no implementation-side sample in this run)"],
        traces_validated_against_impl=res.traces,
        input_distribution=core.jsonable(res.dist),
        not_yet_modelled=sorted(set(res.not_modelled)),
        notes=res.notes[:20],
        programs=max(1, res.traces), disagreements_checked=res.evaluations,
        broken=core.jsonable(broken)[:10], repo_tree=core.tree_hash(),
        extraction_crosscheck=dict(records_re_evaluated_in_coq=xc_n, agreed=xc_ok),
    )
    if tier == "thorough" and props and all(p["ok"] for p in props):
        mods = " ".join("JV.Props." + os.path.basename(p["file"])[:-2] for p in props)
        rc, out = B.sh(f"timeout 3000 coqchk -silent -o -Q . JV {mods} 2>&1", cwd=COQ, timeout=3100)
        cov["coqchk"] = dict(rc=rc, tail=out[-1500:])
        if rc != 0:
            print("VIOLATION property=%s replay=%s no-failing-input-found" % (pid, "coqchk"))
            exit_code = 1
    ev = dict(property_id=pid, tier=tier, seed=seed, level=level, coverage=cov,
              assumptions=getattr(mod, "ASSUMES", []), wall_s=round(time.time() - t0, 2),
              violations=len(violations) + (1 if (broken and not violations) else 0))
    # evidence/ describes /repo itself; a run aimed at another tree (VERIF_REPO=<scratch worktree>, used to try seeded changes)
    # writes its record under the cache directory instead
    evdir = os.path.join(VERIF, "evidence") if os.path.realpath(core.REPO) == "/repo" else os.path.join(core.CACHE, "evidence-other-tree")
    os.makedirs(evdir, exist_ok=True)
    json.dump(ev, open(os.path.join(evdir, pid + ".json"), "w"), indent=1)
    print("%s %s: obligations %d/%d, impl evaluations %d (distinct %d), traces %d, %.0fs -> %s" % (
        pid, tier, discharged, obligations, res.evaluations, len(res.distinct), res.traces,
        time.time() - t0, "OK" if exit_code == 0 else "FAIL"))
    return exit_code


if __name__ == "__main__":
    sys.exit(main())
