"""Shared plumbing for the checks: repo hashing, caching, model driver, evidence, findings."""
import hashlib
import json
import os
import pickle
import subprocess
import sys
import time

VERIF = os.path.dirname(os.path.dirname(os.path.abspath(__file__)))
REPO = os.environ.get("VERIF_REPO", "/repo")
COQ = os.path.join(VERIF, "coq")
CACHE = os.path.join(VERIF, ".cache")
PY = "/venv/bin/python"
DRIVER = os.path.join(COQ, "Extract", "driver")


def py_env():
    e = dict(os.environ)
    e.update(PYTHONPATH=REPO + ":" + VERIF, PYTHONHASHSEED="0", JAX_PLATFORMS="cpu",
             XLA_FLAGS="--xla_cpu_multi_thread_eigen=false",
             OMP_NUM_THREADS="2", JUMANJI_VERIF="1", PYTHONWARNINGS="ignore", HF_HUB_OFFLINE="1")
    e["VERIF_HARNESS_HASH"] = harness_hash()
    return e


_tree_hash = None


def tree_hash():
    """sha256 over every file under REPO/jumanji (content + relative path)."""
    global _tree_hash
    if _tree_hash is None:
        h = hashlib.sha256()
        root = os.path.join(REPO, "jumanji")
        for d, dirs, files in sorted(os.walk(root)):
            dirs[:] = sorted(x for x in dirs if x != "__pycache__")
            for fn in sorted(files):
                if fn.endswith(".pyc"):
                    continue
                p = os.path.join(d, fn)
                h.update(os.path.relpath(p, root).encode())
                with open(p, "rb") as f:
                    h.update(f.read())
        _tree_hash = h.hexdigest()[:20]
    return _tree_hash


_harness_hash = None


def harness_hash():
    """hash of the harness + models; computed once per check run and handed to the per-environment subprocesses, so that
    an edit made while a run is in progress cannot make parent and children disagree about the cache directory"""
    global _harness_hash
    if _harness_hash is None:
        _harness_hash = os.environ.get("VERIF_HARNESS_HASH") or _compute_harness_hash()
    return _harness_hash


def _compute_harness_hash():
    h = hashlib.sha256()
    for sub in ("harness", "coq/Base", "coq/Model"):
        for d, dirs, files in sorted(os.walk(os.path.join(VERIF, sub))):
            dirs[:] = sorted(x for x in dirs if x != "__pycache__")
            for fn in sorted(files):
                if fn.endswith((".py", ".v", ".ml")):
                    with open(os.path.join(d, fn), "rb") as f:
                        h.update(fn.encode() + f.read())
    return h.hexdigest()[:12]


def cache_path(*parts):
    d = os.path.join(CACHE, tree_hash() + "-" + harness_hash())
    os.makedirs(d, exist_ok=True)
    return os.path.join(d, "-".join(str(p) for p in parts) + ".pkl")


def cached(parts, fn, use_cache=True):
    p = cache_path(*parts)
    if use_cache and os.path.exists(p):
        try:
            with open(p, "rb") as f:
                return pickle.load(f)
        except Exception:
            pass
    v = fn()
    tmp = p + ".tmp%d" % os.getpid()
    with open(tmp, "wb") as f:
        pickle.dump(v, f)
    os.replace(tmp, p)
    return v


XSAMPLES = {}     # entry -> [(args, out)] : a few records per entry point, re-evaluated INSIDE Coq by the checks (vm_compute)


def _xsample(calls, outs):
    for (name, args), out in zip(calls, outs):
        if len(args) + len(out) > 2500 or max([abs(x) for x in args + out] or [0]) >= 2 ** 62:
            continue
        l = XSAMPLES.setdefault(name, [])
        if len(l) < 2:
            l.append((list(args), list(out)))


def run_model(calls, shards=8):
    """calls: list of (entry_name, [ints]) -> list of [ints] (model outputs), order preserved."""
    out = _run_model(calls, shards)
    _xsample(calls, out)
    return out


def _run_model(calls, shards=8):
    if not calls:
        return []
    shards = max(1, min(shards, len(calls) // 200 + 1))
    chunks = [calls[i::shards] for i in range(shards)]
    procs = []
    for ch in chunks:
        data = "\n".join(n + " " + " ".join(map(str, a)) for n, a in ch) + "\n"
        p = subprocess.Popen(["bash", "-c", "ulimit -s unlimited 2>/dev/null; exec " + DRIVER],
                             stdin=subprocess.PIPE, stdout=subprocess.PIPE, text=True)
        procs.append((p, data))
    outs = []
    import threading
    res = [None] * len(procs)

    limit = int(os.environ.get("VERIF_MODEL_TIMEOUT", "1200"))

    def work(k):
        p, data = procs[k]
        try:
            res[k] = p.communicate(data, timeout=limit)[0]
        except subprocess.TimeoutExpired:
            # a model evaluation that does not come back (e.g. a verified exhaustive search on an instance the implementation
            # should never have produced) must end the check with a verdict, never hang it
            p.kill()
            p.communicate()
            res[k] = None
    th = [threading.Thread(target=work, args=(k,)) for k in range(len(procs))]
    [t.start() for t in th]
    [t.join() for t in th]
    parsed = []
    for k, ch in enumerate(chunks):
        if res[k] is None:
            raise RuntimeError("model driver did not finish within %d s (entries: %s)" % (limit, sorted({n for n, _ in ch})[:8]))
        lines = res[k].split("\n")
        if len(lines) < len(ch):
            raise RuntimeError("model driver produced %d lines for %d calls (crash?)" % (len(lines), len(ch)))
        rows = []
        for ln in lines[:len(ch)]:
            if ln.startswith("ERR"):
                raise RuntimeError("model driver: " + ln)
            rows.append([int(x) for x in ln.split()])
        parsed.append(rows)
    out = [None] * len(calls)
    for k in range(shards):
        for j, row in enumerate(parsed[k]):
            out[k + j * shards] = row
    return out


class Result:
    """What one analysis contributes to one property."""

    def __init__(self):
        self.evaluations = 0
        self.distinct = set()
        self.failures = []      # dicts: {what, where, replay:{...}}
        self.samples = []
        self.dist = {}
        self.traces = 0
        self.notes = []
        self.not_modelled = []
        self.xsamples = {}

    def count(self, key, n=1):
        self.dist[key] = self.dist.get(key, 0) + n

    def fail(self, what, where, replay):
        k = "fail:" + what[:80]
        self.count(k)
        if self.dist[k] <= 5 and len(self.failures) < 200:
            self.failures.append(dict(what=what, where=where, replay=replay))

    def merge(self, other):
        self.evaluations += other.evaluations
        self.distinct |= other.distinct
        self.failures += other.failures
        if len(self.samples) < 12:
            self.samples += other.samples[:3]
        for k, v in other.dist.items():
            self.dist[k] = self.dist.get(k, 0) + v
        self.traces += other.traces
        self.notes += other.notes
        self.not_modelled += other.not_modelled
        for k, v in getattr(other, "xsamples", {}).items():
            l = self.xsamples.setdefault(k, [])
            l += v[:max(0, 2 - len(l))]
        return self


def load_known():
    p = os.path.join(VERIF, "known_findings.json")
    if not os.path.exists(p):
        return dict(known=[], fixed=[])
    return json.load(open(p))


def jsonable(x):
    import numpy as np
    if isinstance(x, dict):
        return {str(k): jsonable(v) for k, v in x.items()}
    if isinstance(x, (list, tuple)):
        return [jsonable(v) for v in x]
    if isinstance(x, (np.integer,)):
        return int(x)
    if isinstance(x, (np.floating,)):
        return float(x)
    if isinstance(x, np.ndarray):
        return x.tolist()
    if isinstance(x, (set, frozenset)):
        return sorted(jsonable(v) for v in x)
    if isinstance(x, (str, int, float, bool)) or x is None:
        return x
    return repr(x)
