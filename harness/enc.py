"""Flat integer encodings shared by the property modules (mirror of coq/Base/Codec.v)."""
import hashlib

import numpy as np

NAN = 1 << 60
INF = 1 << 40
DTYPES = ["bool", "int8", "int16", "int32", "uint8", "float16", "float32", "int64", "float64",
          "uint16", "uint32", "bfloat16", "uint64"]


def dt_code(dt):
    return DTYPES.index(str(np.dtype(dt)) if str(dt) != "bfloat16" else "bfloat16")


def val8(v):
    """exact value code for dyadic values (multiples of 1/8): equality across dtypes is preserved"""
    v = float(v)
    if v != v:
        return NAN
    if v == float("inf"):
        return INF
    if v == float("-inf"):
        return -INF
    r = v * 8
    assert r == int(r), "non-dyadic value %r" % v
    return int(r)


def f32_key(a):
    """order-preserving integer image of float32 values (-0 == +0); NaN -> NAN"""
    a = np.asarray(a, np.float32)
    bits = a.view(np.int32).astype(np.int64)
    key = np.where(bits >= 0, bits, -(bits & 0x7FFFFFFF))
    key = np.where(np.isnan(a), NAN, key)
    return key


def ord_codes(x):
    """order-preserving integer codes for any array (ints: value; floats: f32_key of float32 cast)"""
    x = np.asarray(x)
    if x.dtype == np.bool_:
        return x.astype(np.int64)
    if np.issubdtype(x.dtype, np.integer):
        return x.astype(np.int64)
    return f32_key(x.astype(np.float32))


def enc_tensor(x, coder=None):
    x = np.asarray(x)
    codes = ([val8(v) for v in x.reshape(-1)] if coder is None else [int(v) for v in coder(x).reshape(-1)])
    return [dt_code(x.dtype), x.ndim] + [int(d) for d in x.shape] + [len(codes)] + codes


def def_code(s):
    h = hashlib.sha256(s.encode()).digest()
    return [int.from_bytes(h[i:i + 4], "big") for i in (0, 4, 8)]


def enc_ptree(defstr, leaves, coder=None):
    d = def_code(defstr)
    out = [len(d)] + d + [len(leaves)]
    for l in leaves:
        out += enc_tensor(l, coder)
    return out


def enc_jax_tree(t, coder=None):
    import jax
    leaves, td = jax.tree_util.tree_flatten(t)
    return enc_ptree(str(td), leaves, coder)
