"""Per-environment analysis kit: shared rollouts, model calls, field-wise diffs, result bookkeeping."""
import importlib
import os
import subprocess
import sys
import traceback
from concurrent.futures import ThreadPoolExecutor

import numpy as np

from harness import core
from harness import rollout as R

ENV_PROPS = ["C01", "C02", "C03", "C04", "C05", "C06", "C07", "C08", "C09", "C10", "C11", "C12", "C13", "C14", "C15", "C17"]


class Kit:
    def __init__(self, name, tier, seed):
        self.name, self.tier, self.seed = name, tier, seed
        self.res = {p: core.Result() for p in ENV_PROPS}
        self._rolls = {}
        self._envs = {}
        self.rng = np.random.default_rng(seed * 1000 + (hash(name) % 997))

    def configs(self):
        """catalog entries + the env module's own `extra_configs(tier, add)` (so env authors never edit rollout.py)"""
        if not hasattr(self, "_cfgs"):
            C = list(R.catalog(self.name, self.tier))
            try:
                mod = importlib.import_module("harness.envs." + self.name)
            except ModuleNotFoundError:
                mod = None
            if mod is not None and hasattr(mod, "extra_configs"):
                q = self.tier == "quick"

                def add(label, make, steps, batch=None, time_limit=None, **tags):
                    C.append(dict(env=self.name, label=label, make=make, steps=steps, batch=batch or (6 if q else 16),
                                  time_limit=time_limit, tags=tags))
                mod.extra_configs(self.tier, add)
            self._cfgs = C
        return self._cfgs

    def env(self, cfg):
        k = cfg["label"]
        if k not in self._envs:
            self._envs[k] = cfg["make"]()
        return self._envs[k]

    def roll(self, cfg, p, salt=0):
        """(env, states, timesteps, actions, first_last, reset_keys) for config cfg under policy p (cached)."""
        import jax
        k = (cfg["label"], p, salt)
        if k not in self._rolls:
            env = self.env(cfg)
            base = jax.random.PRNGKey(self.seed * 7919 + salt * 31 + int(p * 100))
            keys = jax.random.split(base, cfg["batch"])
            st, ts, ac, k0 = R.rollout(env, keys, cfg["steps"], p)
            self._rolls[k] = (env, st, ts, ac, R.first_last(ts), k0)
        return self._rolls[k]

    def transitions(self, roll, upto_last=True):
        """yield (b, t, s_t, a_t, s_{t+1}, ts_{t+1}) with t < first_last (or all steps)."""
        env, st, ts, ac, fl, k0 = roll
        B, T = ac.shape[0], ac.shape[1]
        for b in range(B):
            end = min(T, fl[b]) if upto_last else T
            for t in range(end):
                yield (b, t, R.slice_tree(st, b, t), ac[b, t], R.slice_tree(st, b, t + 1), R.slice_tree(ts, b, t + 1))

    def model(self, calls):
        return core.run_model(calls)

    def fail(self, pids, what, where, replay):
        where = dict(where)
        where.setdefault("env", self.name)
        for p in pids:
            self.res[p].fail(what, where, replay)
        # C03 on constructed / replayed states: when model and implementation disagree on a step, the implementation's OWN timestep
        # (the vector last handed to diff_fields) is held against the protocol -- the model's is proved to satisfy it
        from harness import envkit as _ek      # the canonical module instance (this file also runs as __main__ in the stage subprocesses)
        last = _ek._last_cmp[0]
        if str(where.get("op", "")).startswith("corr-step") and "C03" not in pids and last is not None:
            v = proto_violation(last[0], last[1], trunc_ok=(self.name == "lbf"))
            if v:
                self.res["C03"].fail("implementation timestep breaks the protocol: " + v, where, replay)


_last_cmp = [None]


def proto_violation(layout, vec, trunc_ok=False):
    """the C03 protocol on one encoded STEP timestep of the implementation (fields step_type / discount of the layout): never FIRST,
    a MID timestep never has an all-zero discount, a LAST timestep has zero discount unless the environment documents truncation"""
    i, st, disc = 0, None, None
    for name, n in layout:
        if name == "step_type" and n == 1:
            st = vec[i] if i < len(vec) else None
        if name == "discount":
            disc = list(vec[i:i + n])
        i += n
    if st is None or not disc or len(vec) != i:
        return None
    if st not in (1, 2):
        return "step returned step_type %r" % (st,)
    if st == 1 and all(d == 0 for d in disc):
        return "MID timestep with an all-zero discount"
    if st == 2 and any(d != 0 for d in disc) and not trunc_ok:
        return "LAST timestep with a non-zero discount %r (no truncation documented)" % (disc,)
    return None


def diff_fields(layout, got, exp):
    """layout: [(name, length)] -> names of fields whose slices differ (plus 'length' if sizes differ); exp = the implementation's vector"""
    _last_cmp[0] = (layout, exp)
    bad = []
    i = 0
    for name, n in layout:
        if got[i:i + n] != exp[i:i + n]:
            bad.append(name)
        i += n
    if len(got) != i or len(exp) != i:
        bad.append("length")
    return bad


STAGES = ["generic", "modes", "wrapkit", "env"]
# which analysis stages contribute to which property (a cold check only computes what it needs)
STAGES_FOR = {"C02": ["modes"], "C13": ["wrapkit"], "C14": ["wrapkit"], "C15": ["wrapkit"],
              "C01": ["generic", "env"], "C03": ["generic", "env"], "C10": ["generic", "env"], "C11": ["generic", "env"],
              "C08": ["generic", "env"]}
# rough cost order (most expensive first) so that the long poles start first
COST = ["bin_pack", "mmst", "robot_warehouse", "rubiks_cube", "pac_man", "lbf", "connector", "multi_cvrp", "job_shop", "flat_pack",
        "tetris", "cleaner", "sudoku", "sokoban", "maze", "cvrp", "tsp"]


def run_stage(name, stage, tier, seed):
    """One analysis stage of one environment -> {pid: Result}.  Stages are independent processes / cache entries:
    generic (C01/C03/C10/C11 on every catalogued configuration), modes (C02), wrapkit (C13-C15), env (the environment's own
    model correspondence and verified checkers)."""
    kit = Kit(name, tier, seed)
    if stage == "generic":
        from harness import generic, wiring
        try:
            wiring.analyze(kit)
        except Exception:
            kit.res["C08"].count("wiring:probe-raised")
        try:
            generic.analyze(kit)
        except Exception:
            tb = traceback.format_exc()
            for p in generic.PROPS:
                kit.res[p].fail("generic harness raised on %s" % name, dict(env=name, op="harness-exception"), dict(trace=tb[-1500:]))
    elif stage == "modes":
        from harness import modes
        try:
            modes.analyze(kit)
        except Exception:
            tb = traceback.format_exc()
            kit.res["C02"].fail("mode harness raised on %s" % name, dict(env=name, op="harness-exception"), dict(trace=tb[-1500:]))
    elif stage == "wrapkit":
        from harness import wrapkit
        try:
            wrapkit.analyze(kit)
        except Exception:
            tb = traceback.format_exc()
            for p in wrapkit.PROPS:
                kit.res[p].fail("wrapper harness raised on %s" % name, dict(env=name, op="harness-exception"), dict(trace=tb[-1500:]))
    elif stage == "env":
        modpath = os.path.join(core.VERIF, "harness", "envs", name + ".py")
        if os.path.exists(modpath):
            mod = importlib.import_module("harness.envs." + name)
            try:
                mod.analyze(kit)
            except Exception:
                tb = traceback.format_exc()
                for p in getattr(mod, "PROPS", []):
                    kit.res[p].fail("env harness raised on %s (implementation or tie broke)" % name,
                                    dict(env=name, op="harness-exception"), dict(trace=tb[-1500:]))
            for p in ENV_PROPS:
                if p not in getattr(mod, "PROPS", []) and p in getattr(mod, "APPLIES", []):
                    kit.res[p].not_modelled.append(name)
    else:
        raise KeyError(stage)
    # a few (entry, input, output) records of the extracted driver per entry point, attached to every property this
    # stage contributes to: the check re-evaluates them inside Coq (vm_compute), see check.py xcheck()
    for p in ENV_PROPS:
        if kit.res[p].evaluations:
            kit.res[p].xsamples = {k: v[:1] for k, v in core.XSAMPLES.items()}
    return {p: r for p, r in kit.res.items() if r.evaluations or r.failures or r.not_modelled}


def run_env(name, tier, seed):
    """developer mode (./check --env): all stages of one environment in this process -> {pid: Result}"""
    out = {p: core.Result() for p in ENV_PROPS}
    for st in STAGES:
        for p, r in run_stage(name, st, tier, seed).items():
            out[p].merge(r)
    return out


def stage_results(name, stage, tier, seed, use_cache=True):
    return core.cached(("stage", stage, name, tier, seed), lambda: run_stage(name, stage, tier, seed), use_cache)


def collect(pid, tier, seed, use_cache=True, envs=None):
    """Merge the (environment, stage) results that contribute to property pid; missing ones are computed in parallel
    subprocesses (one per environment and stage), most expensive first."""
    envs = envs or R.ENVS
    stages = STAGES if pid is None else STAGES_FOR.get(pid, ["env"])
    items = [(e, st) for e in envs for st in stages]
    todo = [(e, st) for (e, st) in items if not (use_cache and os.path.exists(core.cache_path("stage", st, e, tier, seed)))]
    todo.sort(key=lambda x: (COST.index(x[0]) if x[0] in COST else len(COST), x[1]))
    outs = []
    if todo:
        def work(item):
            e, st = item
            import time as _t
            t0 = _t.time()
            cmd = [core.PY, "-W", "ignore", "-m", "harness.envkit", e, tier, str(seed), st]
            p = subprocess.run(cmd, cwd=core.VERIF, env=core.py_env(), stdout=subprocess.PIPE, stderr=subprocess.STDOUT, text=True)
            try:
                with open(os.path.join(core.CACHE, "stage_times.log"), "a") as f:
                    f.write("%s %s %s seed=%d rc=%d %.0fs\n" % (e, st, tier, seed, p.returncode, _t.time() - t0))
            except OSError:
                pass
            return e, st, p.returncode, p.stdout[-3000:]
        with ThreadPoolExecutor(max_workers=int(os.environ.get("VERIF_JOBS", "16"))) as ex:
            outs = list(ex.map(work, todo))
    total = core.Result()
    for e, st, rc, out in outs:
        if rc != 0:
            total.fail("analysis subprocess for %s/%s crashed" % (e, st), dict(env=e, op="harness-exception"), dict(out=out[-1500:]))
    if pid is None:
        return total
    for e, st in items:
        if not os.path.exists(core.cache_path("stage", st, e, tier, seed)):
            continue
        r = stage_results(e, st, tier, seed).get(pid)
        if r is not None:
            total.merge(r)
    return total


if __name__ == "__main__":
    name, tier, seed, stage = sys.argv[1], sys.argv[2], int(sys.argv[3]), sys.argv[4]
    stage_results(name, stage, tier, seed, use_cache=False)
