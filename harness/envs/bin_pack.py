"""BinPack: correspondence with coq/Model/BinPack.v + verified checkers on implementation states.

Numbers.  Item / container / EMS coordinates are int32 and sent to the model as they are (asserted < 2^24).
 - EMS volumes are float32 products in the code; the model rounds exactly like binary32 (bin_pack_vol32_io is validated
   against numpy), so `sorted_ems_indexes` (stable argsort), the observed EMSs and the action mask are compared bit-exactly.
 - rewards: the model returns the float32 numerator and the float32 container volume; the harness compares
   float32(num)/float32(den) with the implementation's float32 reward BIT-EXACTLY for the dense reward; the sparse reward is a
   float32 sum of up to max_num_items terms (summation order unspecified): compared exactly first, else within n ulps (counted).
   The exact integer numerator (used by the C08 theorems) is compared in float64 with relative tolerance 1e-6.
 - normalised observations: the model returns integer coordinates; the harness compares float32(coord)/float32(dim) bit-exactly.
"""
import numpy as np

from harness import envkit

NAME = "bin_pack"
PROPS = ["C04", "C05", "C06", "C08", "C09", "C10", "C11", "C12"]
APPLIES = PROPS

COORDS = ("x1", "x2", "y1", "y2", "z1", "z2")


def _tiny():
    from jumanji.environments import BinPack
    from jumanji.environments.packing.bin_pack import generator as G, reward as R
    # tiny non-cubic container and tiny EMS buffer: the buffer overflows (slot 0 is overwritten), many equal volumes (stable
    # sort), degenerate splits, sparse reward, raw integers, obs_num_ems < max_num_ems
    return BinPack(generator=G.RandomGenerator(max_num_items=9, max_num_ems=4, split_num_same_items=3, container_dims=(7, 5, 3)),
                   obs_num_ems=3, normalize_dimensions=False, reward_fn=R.SparseReward())


def private_configs(tier):
    """configurations analysed by this module only (BinPack's step costs ~25 s of tracing + compilation per jitted function, so the
    quick tier keeps this boundary configuration out of the shared generic / mode / wrapper stages; the thorough tier adds it there)"""
    if tier == "quick":
        return [dict(env=NAME, label="tiny7x5x3-ems4-obs3", make=_tiny, steps=11, batch=6, time_limit=None, tags={})]
    return []


def _csv_env():
    """BinPack on a CSVGenerator (the instance file is written from the ToyGenerator's instance into the cache directory)"""
    import os
    import jax
    from harness import core
    from jumanji.environments import BinPack
    from jumanji.environments.packing.bin_pack import generator as G
    d = os.path.join(core.CACHE, "binpack_csv")
    os.makedirs(d, exist_ok=True)
    path = os.path.join(d, "toy_instance.csv")
    if not os.path.exists(path):
        G.save_instance_to_csv(G.ToyGenerator()(jax.random.PRNGKey(0)), path)
    return BinPack(generator=G.CSVGenerator(path, max_num_ems=40), obs_num_ems=10)


def extra_configs(tier, add):
    from jumanji.environments import BinPack
    from jumanji.environments.packing.bin_pack import generator as G, reward as R
    add("csv-toy", _csv_env, 24, batch=2)
    # a container TALLER than wide and deeper than tall, with normalised observations: every normalised coordinate must use its own axis
    add("rand6-tall-norm", lambda: BinPack(generator=G.RandomGenerator(max_num_items=6, max_num_ems=10, split_num_same_items=2,
                                                                        container_dims=(1200, 800, 2000)), obs_num_ems=8), 9, batch=3)
    if tier != "quick":
        add("tiny7x5x3-ems4-obs3", _tiny, 11)
        add("rand6-ems3", lambda: BinPack(generator=G.RandomGenerator(max_num_items=6, max_num_ems=3, split_num_same_items=2), obs_num_ems=3), 8)
        add("tiny7x5x3-ems8-obs4", lambda: BinPack(generator=G.RandomGenerator(max_num_items=9, max_num_ems=8, split_num_same_items=3, container_dims=(7, 5, 3)),
                                                   obs_num_ems=4, normalize_dimensions=False, reward_fn=R.SparseReward()), 11)
        add("rand5-ems1-sparse", lambda: BinPack(generator=G.RandomGenerator(max_num_items=5, max_num_ems=1, split_num_same_items=1), obs_num_ems=1,
                                                 reward_fn=R.SparseReward()), 7)
        add("flat40x1x30-ems10", lambda: BinPack(generator=G.RandomGenerator(max_num_items=7, max_num_ems=10, split_num_same_items=4, container_dims=(40, 1, 30)),
                                                 obs_num_ems=10), 9)
        add("toy-dense-nonorm", lambda: BinPack(generator=G.ToyGenerator(), obs_num_ems=60, normalize_dimensions=False), 24, batch=3)
        add("rand30-ems25-obs7", lambda: BinPack(generator=G.RandomGenerator(max_num_items=30, max_num_ems=25, split_num_same_items=5), obs_num_ems=7), 34)
        add("cube64-ems16", lambda: BinPack(generator=G.RandomGenerator(max_num_items=16, max_num_ems=16, split_num_same_items=2, container_dims=(64, 64, 64)),
                                            obs_num_ems=16, normalize_dimensions=False), 18)


def ints(x):
    return [int(v) for v in np.asarray(x).reshape(-1)]


def space_rows(sp):
    """Space with array leaves (k,) -> k*6 integers x1,x2,y1,y2,z1,z2 per space"""
    a = np.stack([np.asarray(getattr(sp, c)).reshape(-1) for c in COORDS], 1)
    return a


def enc_state(s):
    c = [int(np.asarray(getattr(s.container, k))) for k in COORDS]
    items = np.stack([np.asarray(s.items.x_len), np.asarray(s.items.y_len), np.asarray(s.items.z_len)], 1)
    loc = np.stack([np.asarray(s.items_location.x), np.asarray(s.items_location.y), np.asarray(s.items_location.z)], 1)
    return (c + ints(space_rows(s.ems)) + ints(s.ems_mask) + ints(items) + ints(s.items_mask) + ints(s.items_placed) + ints(loc)
            + ints(s.action_mask) + ints(s.sorted_ems_indexes))


def f32bits(x):
    return [int(v) for v in np.asarray(x, np.float32).reshape(-1).view(np.int32)]


class Dims:
    def __init__(self, env):
        self.n = env.generator.max_num_items
        self.m = env.generator.max_num_ems
        self.obs = env.obs_num_ems
        self.r = min(self.obs, self.m)
        self.norm = bool(env.normalize_dimensions)

    def layout(self):
        n, m, r = self.n, self.m, self.r
        return [("ems", 6 * m), ("ems_mask", m), ("items_placed", n), ("items_location", 3 * n), ("action_mask", r * n),
                ("sorted_ems_indexes", m), ("obs.ems", 6 * r), ("obs.ems_mask", r), ("step_type", 1), ("reward_exact", 1), ("discount", 1),
                ("reward_f32", 1), ("container_f32", 1), ("container_exact", 1)]


def expected(d, s2, ts, cdims):
    """implementation side of enc_out ++ timestep; obs.ems as float32 bit patterns when normalised"""
    loc = np.stack([np.asarray(s2.items_location.x), np.asarray(s2.items_location.y), np.asarray(s2.items_location.z)], 1)
    o = ts.observation
    oe = space_rows(o.ems)
    obs_ems = f32bits(oe) if d.norm else ints(oe)
    return (ints(space_rows(s2.ems)) + ints(s2.ems_mask) + ints(s2.items_placed) + ints(loc) + ints(s2.action_mask)
            + ints(s2.sorted_ems_indexes) + obs_ems + ints(o.ems_mask) + [int(ts.step_type), None, int(round(float(ts.discount))), None, None, None])


def both_forms(num, den):
    """the two float32 values the code can show for num/den: a true division (eager) or, under jit where the container is a
    compile-time constant, the multiplication by the rounded reciprocal"""
    num = np.asarray(num, np.float32)
    den = np.asarray(den, np.float32)
    with np.errstate(all="ignore"):
        return num / den, num * (np.float32(1) / den)


def model_view(d, got, cdims, exp):
    """model output with obs.ems turned into what the implementation shows: float32(coord)/float32(dim) or
    float32(coord)*(1/float32(dim)) bit patterns (whichever the implementation used, element by element)"""
    got = list(got)
    n, m, r = d.n, d.m, d.r
    off = 6 * m + m + n + 3 * n + r * n + m
    if d.norm and len(got) >= off + 6 * r and len(exp) >= off + 6 * r:
        a = np.asarray(got[off:off + 6 * r], np.float32).reshape(r, 6)
        den = np.asarray([cdims[0], cdims[0], cdims[1], cdims[1], cdims[2], cdims[2]], np.float32)
        q1, q2 = both_forms(a, den)
        b1, b2 = f32bits(q1), f32bits(q2)
        want = exp[off:off + 6 * r]
        got[off:off + 6 * r] = [y if (y == w and x != w) else x for x, y, w in zip(b1, b2, want)]
    return got


def _jit(env, what, _cache={}):
    import jax
    k = (id(env), what)
    if k not in _cache:
        if what == "step_actions":      # one state, many actions
            f = jax.jit(jax.vmap(env.step, in_axes=(None, 0)))
        elif what == "step_many":       # many states, one action each
            f = jax.jit(jax.vmap(env.step))
        elif what == "reset":
            f = jax.jit(jax.vmap(env.reset))
        _cache[k] = (f, env)
    return _cache[k][0]


def stack(trees):
    import jax
    return jax.tree_util.tree_map(lambda *xs: np.stack([np.asarray(x) for x in xs]), *trees)


def to_np(t):
    import jax
    return jax.tree_util.tree_map(np.asarray, t)


def np_legal(s, e, i):
    """the rule, stated independently on raw arrays"""
    k = int(np.asarray(s.sorted_ems_indexes)[e])
    if not (bool(np.asarray(s.ems_mask)[k]) and bool(np.asarray(s.items_mask)[i]) and not bool(np.asarray(s.items_placed)[i])):
        return False
    E = s.ems
    return (int(s.items.x_len[i]) <= int(E.x2[k]) - int(E.x1[k]) and int(s.items.y_len[i]) <= int(E.y2[k]) - int(E.y1[k])
            and int(s.items.z_len[i]) <= int(E.z2[k]) - int(E.z1[k]))


def np_utilisation(s):
    v = (np.asarray(s.items.x_len, np.float64) * np.asarray(s.items.y_len, np.float64) * np.asarray(s.items.z_len, np.float64))
    c = s.container
    cv = float(int(c.x2) - int(c.x1)) * float(int(c.y2) - int(c.y1)) * float(int(c.z2) - int(c.z1))
    return float((v * np.asarray(s.items_placed, np.float64)).sum() / cv)


def analyze(kit):
    import jax
    import jax.numpy as jnp
    from jumanji.environments import BinPack
    from jumanji.environments.packing.bin_pack import generator as G, reward as RW
    quick = kit.tier == "quick"
    res = kit.res
    calls, metas = [], []

    def add_step(d, cdims, sparse, s, a, s2, ts2, meta):
        calls.append(("bin_pack_step_io", [d.n, d.m, d.r, d.obs, int(sparse)] + enc_state(s) + [int(a[0]), int(a[1])]))
        metas.append(("step", d, cdims, expected(d, s2, ts2, cdims), dict(meta, sparse=int(sparse), action=[int(a[0]), int(a[1])]), (s, s2, ts2)))

    def add_check(d, s, meta):
        calls.append(("bin_pack_check_io", [d.n, d.m, d.r, d.obs] + enc_state(s)))
        metas.append(("check", d, None, None, meta, s))

    vol_cases = []
    for cfg in list(kit.configs()) + private_configs(kit.tier):
        env = kit.env(cfg)
        d = Dims(env)
        label = cfg["label"]
        cdims = tuple(int(x) for x in env.generator.container_dims)
        if max(cdims) >= 1 << 24:
            raise ValueError("container dimension >= 2^24: outside the model's validity range")
        sparse_cfg = isinstance(env.reward_fn, RW.SparseReward)
        # the OTHER shipped reward function, applied by its own code to the implementation's (state, action, next_state, valid, done):
        # the successor state does not depend on the reward function (step calls reward_fn only for the reward)
        other_fn = RW.DenseReward() if sparse_cfg else RW.SparseReward()
        rew_other = jax.jit(jax.vmap(lambda s_, a_, s2_, v_, dn_: other_fn(s_, a_, s2_, v_, dn_)))
        visited = []
        for p in (0.0, 0.35):
            roll = kit.roll(cfg, p)
            _, st, ts, ac, fl, k0 = roll
            B, T = ac.shape[0], ac.shape[1]
            flat = lambda x, lo, hi: np.asarray(x)[:, lo:hi].reshape((B * T,) + np.asarray(x).shape[2:])
            sb = jax.tree_util.tree_map(lambda x: flat(x, 0, T), st)
            s2b = jax.tree_util.tree_map(lambda x: flat(x, 1, T + 1), st)
            ab = ac.reshape(B * T, 2)
            vb = np.asarray(sb.action_mask)[np.arange(B * T), ab[:, 0], ab[:, 1]]
            db = np.asarray(ts.step_type)[:, 1:].reshape(B * T) == 2
            tw_rewards = np.asarray(rew_other(sb, jnp.asarray(ab), s2b, jnp.asarray(vb), jnp.asarray(db)), np.float32).reshape(B, T)
            for b in range(B):
                end = min(T, fl[b])
                s0 = envkit.R.slice_tree(st, b, 0)
                ts0 = envkit.R.slice_tree(ts, b, 0)
                items0 = np.stack([np.asarray(s0.items.x_len), np.asarray(s0.items.y_len), np.asarray(s0.items.z_len)], 1)
                calls.append(("bin_pack_init_io", [d.n, d.m, d.obs, 0, cdims[0], 0, cdims[1], 0, cdims[2]] + ints(items0) + ints(s0.items_mask)))
                exp0 = expected(d, s0, ts0, cdims)[:-3]
                exp0[-2] = 0
                metas.append(("init", d, cdims, exp0, dict(cfg=label, p=p, b=b), (s0, ts0)))
                ret = 0.0
                ret_tw = 0.0
                for t in range(end):
                    s = envkit.R.slice_tree(st, b, t)
                    s2 = envkit.R.slice_tree(st, b, t + 1)
                    ts2 = envkit.R.slice_tree(ts, b, t + 1)
                    a = ac[b, t]
                    meta = dict(cfg=label, src="rollout", p=p, b=b, t=t)
                    add_step(d, cdims, sparse_cfg, s, a, s2, ts2, meta)
                    add_step(d, cdims, not sparse_cfg, s, a, s2, ts2.replace(reward=tw_rewards[b, t]), meta)
                    add_check(d, s, dict(meta, legal_so_far=(p == 0.0)))
                    visited.append((s, meta))
                    ret += float(ts2.reward)
                    ret_tw += float(tw_rewards[b, t])
                    # ---- C12: the fields that are plain copies / ratios, recomputed in numpy
                    o = ts2.observation
                    res["C12"].evaluations += 1
                    res["C12"].distinct.add((label, p, b, t))
                    okc = (np.array_equal(o.items_mask, s2.items_mask) and np.array_equal(o.items_placed, s2.items_placed)
                           and np.array_equal(o.action_mask, s2.action_mask))
                    for nm, dim in (("x_len", cdims[0]), ("y_len", cdims[1]), ("z_len", cdims[2])):
                        raw = np.asarray(getattr(s2.items, nm))
                        shown = np.asarray(getattr(o.items, nm))
                        if d.norm:
                            w1, w2 = both_forms(raw, dim)
                            okc = okc and bool(((shown == w1) | (shown == w2)).all()) and shown.dtype == np.float32
                        else:
                            okc = okc and np.array_equal(shown, raw) and shown.dtype == raw.dtype
                    if not okc:
                        kit.fail(["C12"], "observation items/items_mask/items_placed/action_mask is not the documented view of the state",
                                 dict(cfg=label, op="obs-copy"), dict(meta, seed=kit.seed))
                    if not all(np.array_equal(x, y) for x, y in zip(jax.tree_util.tree_leaves((s.items, s.items_mask, s.container)),
                                                                     jax.tree_util.tree_leaves((s2.items, s2.items_mask, s2.container)))):
                        kit.fail(["C09", "C05"], "step changed the problem instance (items / container)", dict(cfg=label, op="instance-const"), dict(meta, seed=kit.seed))
                if end >= 1 and fl[b] <= T:
                    sf = envkit.R.slice_tree(st, b, end)
                    add_check(d, sf, dict(cfg=label, src="final", p=p, b=b, t=int(end), legal_so_far=(p == 0.0), final=True))
                    # ---- C08: return == utilisation recomputed from the final state (float64), both reward functions
                    util = np_utilisation(sf)
                    for nm, rr in (("configured", ret), ("other", ret_tw)):
                        res["C08"].evaluations += 1
                        res["C08"].distinct.add((label, p, b, nm))
                        if abs(rr - util) > 1e-5:
                            kit.fail(["C08"], "episode return != volume utilisation of the final state (%s reward function)" % nm,
                                     dict(cfg=label, op="objective"), dict(p=p, b=b, ret=rr, utilisation=util, steps=int(end), seed=kit.seed))
                    res["C08"].count("episode-end:%s" % ("invalid-action" if not bool(np.asarray(envkit.R.slice_tree(st, b, end - 1).action_mask)[tuple(ac[b, end - 1])]) else "nothing-fits/all-packed"))
                    # ---- C11
                    res["C11"].evaluations += 1
                    res["C11"].distinct.add((label, p, b))
                    res["C11"].count("episode-length:%s" % ("=n" if end == d.n else "<n"))
                    if end > d.n:
                        kit.fail(["C11"], "episode longer than max_num_items", dict(cfg=label, op="horizon"), dict(b=b, p=p, steps=int(end), seed=kit.seed))
                elif fl[b] > T and T >= d.n:
                    kit.fail(["C11"], "episode still running after max_num_items steps", dict(cfg=label, op="horizon"), dict(b=b, p=p, steps=int(T), seed=kit.seed))

        # ---- EVERY action from a few visited states (the real jitted env.step, vmapped): C04 / C05 by the env's own reaction
        nact = d.r * d.n
        k_states = min(len(visited), (4 if quick else 24))
        pick = [visited[int(i)] for i in kit.rng.choice(len(visited), k_states, replace=False)] if visited else []
        A = np.asarray([(e, i) for e in range(d.r) for i in range(d.n)], np.int32)
        CH = 64 if nact <= 64 else 200
        stepper = _jit(env, "step_many")
        for (s, meta) in pick:
            sj = jax.tree_util.tree_map(lambda x: jnp.broadcast_to(jnp.asarray(x), (CH,) + np.asarray(x).shape), s)
            parts = []
            for c0 in range(0, nact, CH):
                Ac = A[c0:c0 + CH]
                Ap = np.concatenate([Ac, np.repeat(Ac[-1:], CH - len(Ac), 0)], 0)
                o2, ot = stepper(sj, jnp.asarray(Ap))
                parts.append(jax.tree_util.tree_map(lambda x: np.asarray(x)[:len(Ac)], (o2, ot)))
            s2b, tsb = jax.tree_util.tree_map(lambda *xs: np.concatenate(xs, 0), *parts)
            inval = np.asarray(tsb.extras["invalid_action"])
            mask_flat = np.asarray(s.action_mask).reshape(-1)[:nact]
            ks = np.asarray(s.sorted_ems_indexes)[:d.r]
            E = s.ems
            fit = ((np.asarray(s.items.x_len)[None, :] <= (np.asarray(E.x2) - np.asarray(E.x1))[ks][:, None])
                   & (np.asarray(s.items.y_len)[None, :] <= (np.asarray(E.y2) - np.asarray(E.y1))[ks][:, None])
                   & (np.asarray(s.items.z_len)[None, :] <= (np.asarray(E.z2) - np.asarray(E.z1))[ks][:, None]))
            legal = (np.asarray(s.ems_mask)[ks][:, None] & np.asarray(s.items_mask)[None, :] & ~np.asarray(s.items_placed)[None, :] & fit).reshape(-1)
            accepted = np.asarray(s2b.items_placed)[np.arange(nact), A[:, 1]] & ~np.asarray(s.items_placed)[A[:, 1]] & ~inval
            untouched = np.ones(nact, bool)
            for x, y in zip(jax.tree_util.tree_leaves(s), jax.tree_util.tree_leaves(s2b)):
                untouched &= (np.asarray(y).reshape(nact, -1) == np.asarray(x).reshape(1, -1)).all(1)
            util_now = np_utilisation(s)
            other_r = np.asarray(rew_other(sj if CH == nact else jax.tree_util.tree_map(lambda x: jnp.broadcast_to(jnp.asarray(x), (nact,) + np.asarray(x).shape), s),
                                           jnp.asarray(A), s2b, jnp.asarray(~inval), jnp.asarray(np.asarray(tsb.step_type) == 2)), np.float32)
            rewards = {int(sparse_cfg): np.asarray(tsb.reward, np.float32), int(not sparse_cfg): other_r}
            res["C04"].evaluations += nact
            res["C04"].distinct.update((label, meta["p"], meta["b"], meta["t"], int(j)) for j in range(nact))
            for mk in (0, 1):
                for acp in (0, 1):
                    c = int(((mask_flat == bool(mk)) & (accepted == bool(acp))).sum())
                    if c:
                        res["C04"].count("mask:%d/env-accepts:%d" % (mk, acp), c)
            for j in np.where((mask_flat != accepted) | (mask_flat != legal) | (mask_flat == inval))[0][:3]:
                kit.fail(["C04"], "mask entry disagrees with the environment's reaction / the rules", dict(cfg=label, op="mask-vs-reaction"),
                         dict(meta, action=A[j].tolist(), mask=int(mask_flat[j]), accepted=int(accepted[j]), legal=int(legal[j]), invalid_flag=int(inval[j]), seed=kit.seed))
            ill = ~legal
            res["C05"].evaluations += 2 * int(ill.sum())
            res["C05"].distinct.update((label, meta["p"], meta["b"], meta["t"], int(j)) for j in np.where(ill)[0])
            ek = ks[A[:, 0]]
            why = np.where(~np.asarray(s.ems_mask)[ek], 0, np.where(~np.asarray(s.items_mask)[A[:, 1]], 1, np.where(np.asarray(s.items_placed)[A[:, 1]], 2, 3)))
            for code, nm in enumerate(("inactive-ems", "padding-item", "already-placed", "does-not-fit")):
                c = int((ill & (why == code)).sum())
                if c:
                    res["C05"].count("illegal:%s" % nm, c)
            for sp in (0, 1):
                want = util_now if sp else 0.0
                okk = (np.asarray(tsb.step_type) == 2) & (np.asarray(tsb.discount) == 0.0) & untouched & (np.abs(rewards[sp].astype(np.float64) - want) <= 1e-6)
                for j in np.where(ill & ~okk)[0][:3]:
                    kit.fail(["C05"], "illegal (ems, item): not (LAST, documented reward, state untouched)", dict(cfg=label, op="illegal-effect"),
                             dict(meta, action=A[j].tolist(), sparse=sp, step_type=int(tsb.step_type[j]), reward=float(rewards[sp][j]), want=want,
                                  untouched=bool(untouched[j]), seed=kit.seed))
            replay_idx = set(range(nact)) if nact <= 64 else set(int(x) for x in kit.rng.choice(nact, 24 if quick else 60, replace=False))
            replay_idx |= set(int(j) for j in np.where(~inval)[0][:6])
            for j in sorted(replay_idx):
                s2 = envkit.R.slice_tree(s2b, j)
                ts2 = envkit.R.slice_tree(tsb, j)
                for sp in (0, 1):
                    add_step(d, cdims, sp, s, A[j], s2, ts2.replace(reward=rewards[sp][j]), dict(meta, src="sweep"))

        # ---- C10: generator
        gen = env.generator
        nk = 6 if quick else 24
        keys = jax.random.split(jax.random.PRNGKey(kit.seed + 777), nk)
        if isinstance(gen, G.RandomGenerator):
            same = gen._split_num_same_items
            container = G.make_container(gen.container_dims)

            def one_iter(sps, ms, key):
                """one iteration of the while loop body: the REAL split + the draws re-derived from the same keys"""
                key, subkey = jax.random.split(key)
                new_sps, new_ms = gen._split_space_into_sub_spaces(sps, ms, subkey)
                axis_key, split_key = jax.random.split(subkey)
                axis = jax.random.randint(key=axis_key, shape=(), minval=0, maxval=3)
                item_key, split_key, mode_key = jax.random.split(split_key, 3)
                lo = jnp.stack([sps.x1, sps.y1, sps.z1])[axis]
                hi = jnp.stack([sps.x2, sps.y2, sps.z2])[axis]
                length = hi - lo
                item_id = jax.random.choice(item_key, jnp.arange(0, len(ms)), (), p=jnp.where(ms, length, 0))
                once = jax.random.uniform(mode_key) < gen._prob_split_one_item
                axis_len = length[item_id]
                amin = lo[item_id] + jnp.array(gen._split_eps * axis_len, jnp.int32)
                amax = hi[item_id] - jnp.array(gen._split_eps * axis_len, jnp.int32)
                v_once = jax.random.randint(split_key, (), amin, amax, jnp.int32)
                v_multi = jax.random.randint(split_key, (), 1, same + 1)
                return new_sps, new_ms, key, jnp.stack([axis, item_id, once.astype(jnp.int32), jnp.where(once, v_once, v_multi), amin, amax])
            it = jax.jit(one_iter)
            allj = jax.jit(lambda k0, k: (gen._split_container_into_items_spaces(container, k), gen(k0), gen.generate_solution(k0)))
            seen = set()
            for ki in range(nk):
                key0 = keys[ki]
                _, split_key = jax.random.split(key0)
                sps = G.Space(**{c: jnp.asarray(getattr(container, c)) * jnp.ones(d.n, jnp.int32) for c in COORDS})
                ms = jnp.zeros(d.n, bool).at[0].set(True)
                k = split_key
                draws = []
                guard = 0
                while int(jnp.sum(ms)) < d.n - same + 1 and guard < 400:
                    sps, ms, k, dr = it(sps, ms, k)
                    dr = [int(x) for x in np.asarray(dr)]
                    if dr[2] and not (dr[4] <= dr[3] < dr[5]):
                        kit.fail(["C10"], "re-derived split point outside [axis_min, axis_max)", dict(cfg=label, op="gen-draw-range"), dict(key=ki, draw=dr, seed=kit.seed))
                    draws.append(dr[:4])
                    guard += 1
                (wsps, wms), state0_j, sol_j = allj(key0, split_key)
                if not (np.array_equal(space_rows(wsps), space_rows(sps)) and np.array_equal(np.asarray(wms), np.asarray(ms))):
                    kit.fail(["C10"], "harness replica of the generator loop disagrees with the generator (tie broke)", dict(cfg=label, op="gen-replica"),
                             dict(key=ki, seed=kit.seed))
                state0, sol = to_np(state0_j), to_np(sol_j)
                # the reset instance and the solution are the split spaces
                it_ok = (np.array_equal(np.asarray(sol.items.x_len), np.asarray(wsps.x2 - wsps.x1)) and np.array_equal(np.asarray(sol.items_location.x), np.asarray(wsps.x1))
                         and np.array_equal(np.asarray(sol.items.y_len), np.asarray(wsps.y2 - wsps.y1)) and np.array_equal(np.asarray(sol.items_location.y), np.asarray(wsps.y1))
                         and np.array_equal(np.asarray(sol.items.z_len), np.asarray(wsps.z2 - wsps.z1)) and np.array_equal(np.asarray(sol.items_location.z), np.asarray(wsps.z1))
                         and np.array_equal(np.asarray(sol.items_mask), np.asarray(wms)) and np.array_equal(np.asarray(sol.items_placed), np.asarray(wms))
                         and all(np.array_equal(x, y) for x, y in zip(jax.tree_util.tree_leaves(state0.items), jax.tree_util.tree_leaves(sol.items)))
                         and np.array_equal(state0.items_mask, sol.items_mask) and not np.asarray(state0.items_placed).any())
                if not it_ok:
                    kit.fail(["C10"], "generated instance / generate_solution is not the split of the container", dict(cfg=label, op="gen-instance"), dict(key=ki, seed=kit.seed))
                flat = [x for dr in draws for x in dr]
                calls.append(("bin_pack_gen_io", [d.n, same, 0, cdims[0], 0, cdims[1], 0, cdims[2], len(draws)] + flat))
                metas.append(("gen", d, cdims, ints(space_rows(wsps)) + ints(wms) + [1, 1, 1, len(draws)], dict(cfg=label, key=ki, draws=draws), None))
                res["C10"].count("splits:once", sum(1 for dr in draws if dr[2]))
                res["C10"].count("splits:multiple", sum(1 for dr in draws if not dr[2]))
                res["C10"].count("items-after-split", int(np.asarray(wms).sum()))
                seen.add(tuple(ints(space_rows(wsps))))
            res["C10"].count("distinct-instances/%d-keys" % nk, len(seen))
            if len(seen) < max(2, nk // 2) and max(cdims) > 10 and d.n - same + 1 > 1:
                kit.fail(["C10"], "generator does not depend on the key (repeated instances)", dict(cfg=label, op="key-dependence"), dict(keys=nk, distinct=len(seen), seed=kit.seed))
        elif isinstance(gen, G.CSVGenerator):
            pass      # instance read from a file: no generate_solution; its reset state is compared with init(instance) below
        else:
            # ToyGenerator (literal instance): its solution tiles the container
            sol = to_np(gen.generate_solution(keys[0]))
            it_rows = np.stack([np.asarray(sol.items_location.x), np.asarray(sol.items_location.x) + np.asarray(sol.items.x_len),
                                np.asarray(sol.items_location.y), np.asarray(sol.items_location.y) + np.asarray(sol.items.y_len),
                                np.asarray(sol.items_location.z), np.asarray(sol.items_location.z) + np.asarray(sol.items.z_len)], 1)
            calls.append(("bin_pack_tiling_io", [d.n, 0, cdims[0], 0, cdims[1], 0, cdims[2]] + ints(it_rows) + ints(sol.items_mask)))
            metas.append(("tiling", d, cdims, [1, 1], dict(cfg=label, generator=type(gen).__name__), None))
            if isinstance(gen, G.ToyGenerator):
                # the literal of Model/BinPack.v (C10_BinPack_toy_exact_tiling is proved about it) is the real generator's data
                calls.append(("bin_pack_toy_io", [0]))
                metas.append(("tiling", d, cdims, [0, cdims[0], 0, cdims[1], 0, cdims[2]] + ints(it_rows), dict(cfg=label, generator="ToyGenerator-literal"), None))
        # volumes met in this config, for the float32 rounding check
        for (s, _) in visited[:20]:
            rows = space_rows(s.ems)
            for rw in rows[:8]:
                vol_cases.append((int(rw[1] - rw[0]), int(rw[3] - rw[2]), int(rw[5] - rw[4])))

    # ---- CSVGenerator on an instance saved from a generated one: reset state = init(instance); quantities add up to the container
    import os
    import tempfile
    gen0 = G.RandomGenerator(max_num_items=10, max_num_ems=15, split_num_same_items=3)
    inst = gen0(jax.random.PRNGKey(kit.seed + 5))
    with tempfile.TemporaryDirectory() as td:
        path = os.path.join(td, "inst.csv")
        G.save_instance_to_csv(inst, path)
        csvg = G.CSVGenerator(path, max_num_ems=15)
    env_csv = BinPack(generator=csvg, obs_num_ems=9)
    dcsv = Dims(env_csv)
    s0, ts0 = to_np(jax.jit(env_csv.reset)(jax.random.PRNGKey(0)))
    cd = tuple(int(x) for x in csvg.container_dims)
    items0 = np.stack([np.asarray(s0.items.x_len), np.asarray(s0.items.y_len), np.asarray(s0.items.z_len)], 1)
    calls.append(("bin_pack_init_io", [dcsv.n, dcsv.m, dcsv.obs, 0, cd[0], 0, cd[1], 0, cd[2]] + ints(items0) + ints(s0.items_mask)))
    exp0 = expected(dcsv, s0, ts0, cd)[:-3]
    exp0[-2] = 0
    metas.append(("init", dcsv, cd, exp0, dict(cfg="csv-from-random", p=None, b=0), (s0, ts0)))
    res["C10"].evaluations += 1
    vsum = int((items0[:, 0].astype(object) * items0[:, 1].astype(object) * items0[:, 2].astype(object)).sum())
    if vsum != cd[0] * cd[1] * cd[2] or sorted(map(tuple, items0.tolist())) != sorted(
            (int(a), int(b), int(c)) for a, b, c, mk in zip(inst.items.x_len, inst.items.y_len, inst.items.z_len, inst.items_mask) if mk and a > 0 and b > 0 and c > 0):
        kit.fail(["C10"], "CSV round trip of a generated instance changed the items", dict(cfg="csv-from-random", op="csv"), dict(seed=kit.seed))

    # ---- CSVGenerator parser against the model's csv_items: the example of the class docstring (the literal csv_doc_rows of
    #      Model/BinPack.v, C10_BinPack_csv_docstring_instance) and rows with quantities 0 / 1 / several
    import csv as _csv
    doc = G.CSVGenerator.__doc__.splitlines()
    hdr = [i for i, ln in enumerate(doc) if ln.strip() == ",".join(G.CSV_COLUMNS)]
    doc_rows = []
    for ln in doc[hdr[-1] + 1:] if hdr else []:
        parts = ln.strip().split(",")
        if len(parts) != 5:
            break
        doc_rows.append((parts[0],) + tuple(int(x) for x in parts[1:]))
    if not doc_rows:
        kit.fail(["C10"], "could not find the example instance in CSVGenerator's docstring", dict(cfg="csv-docstring", op="csv-doc"), dict(seed=kit.seed))
    q_rows = [("a", 7, 3, 2, 1), ("b", 5, 5, 5, 0), ("c", 1, 2, 3, 4), ("d", 9, 9, 9, 2)]
    for tag, rows in (("csv-docstring", doc_rows), ("csv-quantities", q_rows)):
        if not rows:
            continue
        with tempfile.TemporaryDirectory() as td:
            path = os.path.join(td, "rows.csv")
            with open(path, "w", newline="") as fh:
                wr = _csv.writer(fh)
                wr.writerow(G.CSV_COLUMNS)
                for r in rows:
                    wr.writerow(r)
            gcsv = G.CSVGenerator(path, max_num_ems=10)
        st = to_np(gcsv(jax.random.PRNGKey(1)))
        its = np.stack([np.asarray(st.items.x_len), np.asarray(st.items.y_len), np.asarray(st.items.z_len)], 1)
        flags_ok = (bool(np.asarray(st.items_mask).all()) and not np.asarray(st.items_placed).any() and gcsv.max_num_items == len(its)
                    and np.asarray(st.ems_mask).tolist() == [True] + [False] * 9
                    and not np.asarray(st.items_location.x).any() and not np.asarray(st.items_location.y).any() and not np.asarray(st.items_location.z).any())
        if not flags_ok:
            kit.fail(["C10"], "CSVGenerator: reset instance is not (all items masked, none placed, one EMS)", dict(cfg=tag, op="csv-flags"), dict(rows=rows, seed=kit.seed))
        calls.append(("bin_pack_csv_io", [len(rows)] + [int(x) for r in rows for x in r[1:]]))
        metas.append(("csv", None, None, [len(its)] + ints(its), dict(cfg=tag, rows=[list(r[1:]) for r in rows]), None))
        if tag == "csv-docstring":
            calls.append(("bin_pack_csvdoc_io", [0]))
            metas.append(("csv", None, None, [len(rows)] + [int(x) for r in rows for x in r[1:]] + [len(its)] + ints(its), dict(cfg="csv-docstring-literal", rows=[list(r[1:]) for r in rows]), None))

    # ---- float32 volume rounding of the model against numpy
    for _ in range(300):
        vol_cases.append(tuple(int(x) for x in kit.rng.integers(1, 6000, 3)))
    vol_cases += [(5870, 2330, 2200), (4097, 4095, 4099), (16777215, 3, 1), (3000, 5000, 7000), (1, 1, 1), (0, 5, 5), (5793, 5793, 5793)]
    calls.append(("bin_pack_vol32_io", [x for v in vol_cases for x in v]))
    want = [int(np.float32(a) * np.float32(b) * np.float32(c)) for a, b, c in vol_cases]
    metas.append(("vol", None, None, want, dict(), None))

    res["C09"].notes.append("documentation deviation (not a failure): the docstring of Generator.max_num_ems says EMSs that do not fit in the "
                            "buffer are ignored, but jnp.argmin(ems_mask) == 0 when every slot is taken, so _add_ems OVERWRITES slot 0 "
                            "(model: first_false; Coq witness C09_BinPack_full_buffer_overwrites_slot0; the hard constraints still hold, C06).")
    # ------------------------------------------------------------------ compare
    outs = kit.model(calls)
    for (entry, args), (kind, d, cdims, exp, m, extra), got in zip(calls, metas, outs):
        if kind == "step":
            s, s2, ts2 = extra
            lay = d.layout()
            exp = list(exp)
            gotv = model_view(d, got, cdims, exp)
            if len(gotv) == len(exp):
                # rewards
                ri = len(exp) - 5
                num_exact, num32, den32, den_exact = gotv[ri], gotv[ri + 2], gotv[ri + 3], gotv[ri + 4]
                impl_r = np.float32(ts2.reward)
                model_r, model_r2 = both_forms(num32, den32)
                exact_ok = bool(impl_r == model_r) or bool(impl_r == model_r2)
                if not exact_ok and m["sparse"] and abs(float(impl_r) - float(model_r)) <= d.n * 2.0 ** -23:
                    res["C08"].count("sparse-reward-compared-with-tolerance")
                    exact_ok = True
                elif m["sparse"]:
                    res["C08"].count("sparse-reward-bit-exact")
                else:
                    res["C08"].count("dense-reward-bit-exact")
                exp[ri + 2] = num32 if exact_ok else -1
                exp[ri] = num_exact if abs(float(impl_r) - num_exact / den_exact) <= 1e-6 else -1
                exp[ri + 3], exp[ri + 4] = den32, den_exact
                if den_exact != cdims[0] * cdims[1] * cdims[2]:
                    exp[ri + 4] = -1
            bad = envkit.diff_fields(lay, gotv, exp)
            a0, a1 = m["action"]
            legal = np_legal(s, a0, a1)
            for pid in ("C09", "C12"):
                res[pid].evaluations += 1
            key = (m["cfg"], m["src"], m["p"], m["b"], m["t"], a0, a1, m["sparse"])
            res["C09"].distinct.add(key)
            res["C09"].count("step:%s/%s" % (m["src"], "legal" if legal else "illegal"))
            if legal:
                res["C06"].count("legal-steps-replayed")
                if bool(np.asarray(s.ems_mask).all()) or bool(np.asarray(s2.ems_mask).all()):
                    res["C09"].count("ems-buffer-full-before-or-after-step")
            if bad:
                pids = {"C09"}
                if "action_mask" in bad:
                    pids |= {"C04"}
                if any(f.startswith("obs.") for f in bad) or "sorted_ems_indexes" in bad:
                    pids |= {"C12"}
                if not legal:
                    pids.add("C05")
                if any(f.startswith("reward") or f.startswith("container_") for f in bad):
                    pids.add("C08")
                if any(f in bad for f in ("ems", "ems_mask", "items_placed", "items_location")):
                    pids.add("C06")
                if "step_type" in bad or "discount" in bad:
                    pids |= {"C03", "C11"}
                kit.fail(sorted(pids), "model and implementation disagree on step (fields %s)" % ",".join(bad),
                         dict(cfg=m["cfg"], op="corr-step", fields=",".join(bad)),
                         dict(m, state=enc_state(s), dims=[d.n, d.m, d.r, d.obs], seed=kit.seed,
                              diff={f: None for f in bad}))
        elif kind == "init":
            lay = d.layout()[:-3]
            gotv = model_view(d, got, cdims, exp)
            bad = envkit.diff_fields(lay, gotv, exp)
            res["C10"].evaluations += 1
            res["C10"].distinct.add((m["cfg"], m["p"], m["b"]))
            res["C12"].evaluations += 1
            if bad:
                kit.fail(["C10", "C09", "C12"], "model and implementation disagree on reset (fields %s)" % ",".join(bad),
                         dict(cfg=m["cfg"], op="corr-init", fields=",".join(bad)), dict(m, seed=kit.seed))
        elif kind == "check":
            s = extra
            names = ["mask==legal", "Packing", "shape", "ranges", "sorted-is-permutation", "sorted-is-ordered", "stored-mask/order==recomputed"]
            pid_of = {"mask==legal": ["C04"], "Packing": ["C06"], "shape": ["C09"], "ranges": ["C12"],
                      "sorted-is-permutation": ["C12"], "sorted-is-ordered": ["C12"], "stored-mask/order==recomputed": ["C12", "C04"]}
            res["C04"].evaluations += 1
            res["C06"].evaluations += 1
            res["C06"].distinct.add((m["cfg"], m["src"], m["p"], m["b"], m["t"]))
            res["C06"].count("placed-items:%d" % got[7])
            for nm, v in zip(names, got[:7]):
                if nm == "Packing" and not m["legal_so_far"]:
                    # still expected: an illegal action never changes the state
                    pass
                if v != 1:
                    kit.fail(pid_of[nm], "verified checker `%s` is false on an implementation state" % nm, dict(cfg=m["cfg"], op="checker:" + nm),
                             dict(m, state=enc_state(s), dims=[d.n, d.m, d.r, d.obs], seed=kit.seed))
            if got[7] != int(np.asarray(s.items_placed).sum()):
                kit.fail(["C09"], "placed count differs", dict(cfg=m["cfg"], op="checker:count"), dict(m, seed=kit.seed))
            if m.get("final"):
                # C06 completion: when the episode ended after legal play, nothing more fits (mask empty) or the last action was illegal
                res["C06"].count("final:any-mask-true=%d" % got[10])
                util = np_utilisation(s)
                if abs(got[8] / got[9] - util) > 1e-9:
                    kit.fail(["C08"], "exact placed volume / container volume != utilisation recomputed in numpy", dict(cfg=m["cfg"], op="objective-exact"),
                             dict(m, model=[got[8], got[9]], numpy=util, seed=kit.seed))
        elif kind == "gen":
            nn = d.n
            lay = [("items_spaces", 6 * nn), ("items_mask", nn), ("valid_draws", 1), ("tiling", 1), ("solution_feasible", 1), ("draws_used", 1)]
            bad = envkit.diff_fields(lay, got, exp)
            res["C10"].evaluations += 1
            res["C10"].distinct.add((m["cfg"], m["key"]))
            if bad:
                kit.fail(["C10"], "generator: model and implementation disagree / instance not an exact tiling (fields %s)" % ",".join(bad),
                         dict(cfg=m["cfg"], op="corr-gen", fields=",".join(bad)), dict(m, model=got[-4:], seed=kit.seed))
        elif kind == "tiling":
            res["C10"].evaluations += 1
            res["C10"].distinct.add((m["cfg"], "literal"))
            if got != exp:
                kit.fail(["C10"], "literal instance: solution is not an exact feasible tiling", dict(cfg=m["cfg"], op="tiling"), dict(m, model=got, seed=kit.seed))
        elif kind == "csv":
            res["C10"].evaluations += 1
            res["C10"].distinct.add((m["cfg"], "csv"))
            res["C10"].count("csv-instances-parsed")
            if got != exp:
                kit.fail(["C10"], "CSVGenerator: parsed items differ from the model's csv_items of the rows", dict(cfg=m["cfg"], op="csv-items"),
                         dict(m, model=got, impl=exp, seed=kit.seed))
        elif kind == "vol":
            res["C12"].count("float32-volume-roundings-checked", len(exp))
            if got != exp:
                k = [i for i, (a, b) in enumerate(zip(got, exp)) if a != b][:3]
                kit.fail(["C12", "C09"], "model's float32 volume rounding differs from numpy", dict(op="vol32"),
                         dict(cases=[(vol_cases[i], got[i], exp[i]) for i in k]))
