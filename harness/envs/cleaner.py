"""Cleaner: correspondence with coq/Model/Cleaner.v (Impl step + Rules reference step + generator adapter) and the
verified boolean checkers (Physical / mask-exact / Inv / spec bounds / fresh instance / connectivity / monotone
cells) evaluated on the implementation's own states.  Every joint action of the 4^A action space is tried from a
sample of visited states and from directly constructed boundary states (non-square grids, corners, one dirty tile
left, last step before the limit)."""
import itertools

import numpy as np

from harness import envkit

NAME = "cleaner"
PROPS = ["C01", "C04", "C05", "C07", "C08", "C09", "C10", "C11", "C12"]
APPLIES = PROPS + ["C03"]
SCALE = 4  # reward code = 4 * reward (penalties used here are multiples of 1/4)


def _G():
    from jumanji.environments.routing.cleaner.generator import RandomGenerator
    return RandomGenerator


def extra_configs(tier, add):
    import jumanji.environments as E
    G = _G()

    def mk(r, c, a, pen=0.5):
        return lambda t: E.Cleaner(generator=G(num_rows=r, num_cols=c, num_agents=a), time_limit=t, penalty_per_timestep=pen)

    def cfg(label, r, c, a, tl, steps, pen=0.5, batch=None):
        m = mk(r, c, a, pen)
        eff = tl if tl else r * c
        add(label, (lambda m=m, tl=tl: m(tl)), steps, batch=batch, time_limit=eff, mk=m, tl_arg=tl, pen=pen)

    cfg("r2c7a2t5", 2, 7, 2, 5, 7)
    cfg("r7c2a1-none", 7, 2, 1, None, 16)
    cfg("r4c9a3t7-p025", 4, 9, 3, 7, 9, pen=0.25)
    cfg("r6c3a2t2-p1", 6, 3, 2, 2, 4, pen=1.0)
    cfg("r1c1a1-none", 1, 1, 1, None, 3)
    cfg("r1c6a2t3-p0", 1, 6, 2, 3, 5, pen=0.0)
    cfg("r5c1a1t0", 5, 1, 1, 0, 7)            # time_limit=0 is falsy -> rows*cols
    cfg("r3c8a1-none", 3, 8, 1, None, 26)
    if tier != "quick":
        cfg("r12c5a3-none", 12, 5, 3, None, 64)
        cfg("r5c12a4t30", 5, 12, 4, 30, 34)
        cfg("r2c2a2t3", 2, 2, 2, 3, 5)


# ---------------------------------------------------------------- encoders
def ints(x):
    return [int(v) for v in np.asarray(x).reshape(-1)]


def enc_cfg(env):
    # the penalty the CONFIGURATION asked for (constructor argument / documented default 0.5), not whatever the constructor
    # stored: a constructor that mangles its argument must disagree with the model, not silently re-parameterise it
    pen = float(getattr(env, "_verif_pen", env.penalty_per_timestep)) * SCALE
    assert pen == int(pen), "penalty not representable in the reward code"
    return [int(env.num_rows), int(env.num_cols), int(env.num_agents), int(env.time_limit), int(pen)]


def enc_state(s):
    return ints(s.grid) + ints(s.agents_locations) + ints(s.action_mask) + [int(s.step_count)]


def enc_ts(ts):
    r = float(ts.reward) * SCALE
    return [int(ts.step_type), int(round(r)) if r == round(r) else 10 ** 9, int(round(float(ts.discount)))]


def layout_of(env):
    R, C, A = env.num_rows, env.num_cols, env.num_agents
    return [("grid", R * C), ("agents_locations", 2 * A), ("action_mask", 4 * A), ("step_count", 1),
            ("step_type", 1), ("reward", 1), ("discount", 1)]


def describe(s):
    return dict(grid=np.asarray(s.grid).astype(int).tolist(), agents=np.asarray(s.agents_locations).astype(int).tolist(),
                mask=np.asarray(s.action_mask).astype(int).tolist(), step_count=int(s.step_count))


class S:  # light numpy state
    def __init__(self, grid, locs, mask, cnt):
        self.grid, self.agents_locations, self.action_mask, self.step_count = grid, locs, mask, cnt


def synthetic_states(kit, env, n):
    """directly constructed physically consistent states: random walls, agents on random free cells (cleaned),
    few or no dirty tiles, step counts at 0 / limit-2 / limit-1, agents in corners."""
    import jax.numpy as jnp
    R, C, A, T = env.num_rows, env.num_cols, env.num_agents, env.time_limit
    out = []
    for k in range(n):
        g = np.where(kit.rng.random((R, C)) < 0.3, 2, 0).astype(np.int8)
        mode = k % 4
        if mode == 1:      # everything clean but at most one tile
            g = np.where(g == 0, 1, g).astype(np.int8)
            if kit.rng.random() < 0.7:
                g[int(kit.rng.integers(R)), int(kit.rng.integers(C))] = 0
        elif mode == 2:    # partially cleaned
            g = np.where((g == 0) & (kit.rng.random((R, C)) < 0.5), 1, g).astype(np.int8)
        locs = np.zeros((A, 2), np.int32)
        corners = [(0, 0), (0, C - 1), (R - 1, 0), (R - 1, C - 1)]
        for i in range(A):
            if mode == 3 or kit.rng.random() < 0.3:
                locs[i] = corners[int(kit.rng.integers(4))]
            else:
                locs[i] = (int(kit.rng.integers(R)), int(kit.rng.integers(C)))
            g[locs[i][0], locs[i][1]] = 1
        cnt = [0, max(T - 2, 0), max(T - 1, 0), int(kit.rng.integers(0, max(T, 1)))][int(kit.rng.integers(4))]
        mask = np.asarray(env._compute_action_mask(jnp.asarray(g), jnp.asarray(locs)))
        out.append(S(g, locs, mask, np.int32(cnt)))
    return out


def analyze(kit):
    import jax
    import jax.numpy as jnp
    from jumanji.environments.commons.maze_utils import maze_generation
    from jumanji.environments.routing.cleaner.types import State

    q = kit.tier == "quick"
    calls, metas = [], []
    res = kit.res

    def call(entry, args, kind, exp, m, layout=None):
        calls.append((entry, args))
        metas.append((kind, layout, exp, m))

    has_mazegen = True
    try:
        kit.model([("mazegen_connected_io", [1, 1, 0])])
    except Exception:
        has_mazegen = False
    res["C10"].count("mazegen_connected_io-available" if has_mazegen else "mazegen_connected_io-absent")

    for cfg in kit.configs():
        env = kit.env(cfg)
        R, C, A, T = env.num_rows, env.num_cols, env.num_agents, env.time_limit
        ec = enc_cfg(env)
        lay = layout_of(env)
        label = cfg["label"]
        want_pen = float(cfg["tags"].get("pen", 0.5))
        env._verif_pen = want_pen
        ec = enc_cfg(env)
        res["C08"].evaluations += 1
        if float(env.penalty_per_timestep) != want_pen:
            kit.fail(["C08"], "Cleaner does not use the penalty_per_timestep it was constructed with", dict(cfg=label, op="penalty-wiring"),
                     dict(asked=want_pen, stored=float(env.penalty_per_timestep)))
        pen = want_pen
        # ---- C11: effective limit = `time_limit or rows*cols`
        if "tl_arg" in cfg["tags"] or label.endswith("-none"):
            tl_arg = cfg["tags"].get("tl_arg", None)
            call("cleaner_limit_io", [int(tl_arg or 0), R, C], "limit", [int(T)], dict(cfg=label, tl_arg=tl_arg, rows=R, cols=C))
        visited = []
        for p in (0.0, 0.35):
            roll = kit.roll(cfg, p)
            _, st, ts, ac, fl, k0 = roll
            B, Tn = ac.shape[0], ac.shape[1]
            for b in range(B):
                s0 = envkit.R.slice_tree(st, b, 0)
                ts0 = envkit.R.slice_tree(ts, b, 0)
                where = dict(cfg=label, p=p, b=b, t=0)
                # ---- C10: generator = adapter(maze) ; the maze is the implementation's own draw
                gk = jax.random.split(jnp.asarray(k0[b]))[0]
                maze = np.asarray(maze_generation.generate_maze(C, R, gk))
                call("cleaner_init_io", ec + ints(maze), "init", enc_state(s0) + enc_ts(ts0), dict(where, maze=maze.astype(int).tolist()), lay)
                call("cleaner_check_io", ec + enc_state(s0), "check0", [1, 1, 1, 1, 1], dict(where, state=describe(s0)))
                call("cleaner_conn_io", [R, C] + ints(s0.grid), "conn", [1], dict(where, grid=np.asarray(s0.grid).astype(int).tolist()))
                if has_mazegen:
                    call("mazegen_connected_io", [R, C] + ints(maze), "mazeconn", [1], dict(where, maze=maze.astype(int).tolist()))
                # ---- C08: return = tiles cleaned (recomputed from the final grid) - n * penalty
                n = int(min(Tn, fl[b]))
                sN = envkit.R.slice_tree(st, b, n)
                ret = float(np.sum(np.asarray(ts.reward[b, 1:n + 1], np.float64)))
                call("cleaner_mono_io", ec + enc_state(s0) + enc_state(sN), "return", None,
                     dict(where, steps=n, ret=ret, pen=pen, final=describe(sN)))
            for (b, t, s, a, s2, ts2) in kit.transitions(roll):
                where = dict(cfg=label, p=p, b=b, t=t)
                legal = [bool(np.asarray(s.action_mask)[i, int(a[i])]) for i in range(A)]
                m = dict(where, action=ints(a), legal=legal, state=describe(s))
                e = ec + enc_state(s)
                exp = enc_state(s2) + enc_ts(ts2)
                call("cleaner_step_io", e + ints(a), "step", exp, m, lay)
                call("cleaner_ref_io", e + ints(a), "ref", exp, m, lay)
                call("cleaner_check_io", e, "check", [1, 1, 1, 1], dict(where, state=describe(s)))
                call("cleaner_mono_io", e + enc_state(s2), "mono", None, dict(m, reward=float(ts2.reward), pen=pen, next=describe(s2)))
                # ---- C12: observation = copy of the successor state, its mask judged by the verified checker
                o = ts2.observation
                res["C12"].evaluations += 1
                res["C12"].distinct.add((label, p, b, t))
                if not (np.array_equal(o.grid, s2.grid) and np.array_equal(o.agents_locations, s2.agents_locations)
                        and np.array_equal(o.action_mask, s2.action_mask) and int(o.step_count) == int(s2.step_count)):
                    kit.fail(["C12"], "observation differs from the state it views", dict(cfg=label, op="obs-copy"), dict(m, seed=kit.seed))
                call("cleaner_check_io", ec + enc_state(S(o.grid, o.agents_locations, o.action_mask, o.step_count)), "obs-check",
                     [1, 1, 1, 1], dict(where, obs=describe(S(o.grid, o.agents_locations, o.action_mask, o.step_count))))
                visited.append(s)
        # ---- every joint action from sampled visited states and constructed boundary states (C04, C05, C09, C07)
        nv, nsyn = (10, 12) if q else (40, 40)
        if A >= 3:
            nv, nsyn = max(2, nv // 4), max(3, nsyn // 4)
        if A >= 4:
            nv, nsyn = 1, 2
        idx = kit.rng.permutation(len(visited))[:nv] if visited else []
        pool = [("visited", visited[i]) for i in idx] + [("synthetic", s) for s in synthetic_states(kit, env, nsyn)]
        acts = np.asarray(list(itertools.product(range(4), repeat=A)), np.int32)
        if pool:
            key0 = jax.random.PRNGKey(0)
            stack = State(grid=jnp.asarray(np.stack([np.asarray(s.grid) for _, s in pool]), jnp.int8),
                          agents_locations=jnp.asarray(np.stack([np.asarray(s.agents_locations) for _, s in pool]), jnp.int32),
                          action_mask=jnp.asarray(np.stack([np.asarray(s.action_mask) for _, s in pool]), bool),
                          step_count=jnp.asarray(np.stack([np.asarray(s.step_count) for _, s in pool]), jnp.int32),
                          key=jnp.stack([key0] * len(pool)))

            def step_noextras(s, a):
                s2, t2 = env.step(s, a)
                return s2, t2.replace(extras={})
            f = jax.jit(jax.vmap(jax.vmap(step_noextras, in_axes=(None, 0)), in_axes=(0, None)))
            S2, TS2 = f(stack, jnp.asarray(acts))
            S2 = jax.tree_util.tree_map(np.asarray, S2)
            TS2 = jax.tree_util.tree_map(np.asarray, TS2)
            for k, (origin, s) in enumerate(pool):
                e = ec + enc_state(s)
                if origin == "synthetic":
                    call("cleaner_check_io", e, "check", [1, 1, 1, 1], dict(cfg=label, origin=origin, k=k, state=describe(s)))
                dirty_before = int((np.asarray(s.grid) == 0).sum())
                for j in range(acts.shape[0]):
                    a = acts[j]
                    s2 = envkit.R.slice_tree(S2, k, j)
                    ts2 = envkit.R.slice_tree(TS2, k, j)
                    legal = [bool(np.asarray(s.action_mask)[i, int(a[i])]) for i in range(A)]
                    m = dict(cfg=label, origin=origin, k=k, action=ints(a), legal=legal, state=describe(s), all_actions=True)
                    exp = enc_state(s2) + enc_ts(ts2)
                    call("cleaner_step_io", e + ints(a), "step", exp, m, lay)
                    call("cleaner_ref_io", e + ints(a), "ref", exp, m, lay)
                    call("cleaner_check_io", ec + enc_state(s2), "check-succ", [1, 1, 1], dict(m, next=describe(s2)))
                    # the environment's own reaction, judged directly (independent of the model)
                    dirty_after = int((np.asarray(s2.grid) == 0).sum())
                    last = int(ts2.step_type) == 2
                    res["C04"].evaluations += 1
                    res["C04"].distinct.add((label, origin, k, j))
                    res["C04"].count("joint-actions-tried")
                    other = dirty_after == 0 or int(s2.step_count) >= T
                    if all(legal) and last and not other:
                        kit.fail(["C04"], "masked-in joint action treated as invalid (LAST without another cause)",
                                 dict(cfg=label, op="mask-reaction"), dict(m, seed=kit.seed))
                    if not all(legal):
                        res["C05"].evaluations += 1
                        res["C05"].distinct.add((label, origin, k, j))
                        res["C05"].count("illegal-joint-actions")
                        stay = all(np.array_equal(np.asarray(s2.agents_locations)[i], np.asarray(s.agents_locations)[i])
                                   for i in range(A) if not legal[i])
                        rew_ok = float(ts2.reward) == (dirty_before - dirty_after) - pen
                        untouched = any(legal) or (np.array_equal(s2.grid, s.grid) and np.array_equal(s2.agents_locations, s.agents_locations))
                        if not (last and stay and rew_ok and untouched and float(ts2.discount) == 0.0):
                            kit.fail(["C05"], "illegal move: expected LAST, offending agent unmoved, reward = tiles cleaned - penalty",
                                     dict(cfg=label, op="illegal-effect"),
                                     dict(m, seed=kit.seed, last=last, stay=stay, reward=float(ts2.reward), untouched=untouched, next=describe(s2)))

    # ---- reset on a user-written Generator whose agents do not start at (0,0) (was a defect: mask computed for (0,0); fixed in /repo)
    from jumanji.environments.routing.cleaner.generator import Generator
    import jumanji.environments as E

    class Fixed(Generator):
        def __init__(self, s, r, c, a):
            super().__init__(num_rows=r, num_cols=c, num_agents=a)
            self.s = s

        def __call__(self, key):
            return State(grid=jnp.asarray(self.s.grid, jnp.int8), agents_locations=jnp.asarray(self.s.agents_locations, jnp.int32),
                         action_mask=None, step_count=jnp.array(0, jnp.int32), key=key)

    for (r, c, a) in ((3, 5, 2), (4, 2, 1)):
        envc = E.Cleaner(generator=Fixed(None, r, c, a), time_limit=7)
        for s in synthetic_states(kit, envc, 8)[2:5]:
            envc.generator.s = s
            s0, ts0 = envc.reset(jax.random.PRNGKey(0))
            m = dict(cfg="custom-generator-r%dc%da%d" % (r, c, a), state=describe(s0))
            call("cleaner_reset_io", enc_cfg(envc) + ints(s.grid) + ints(s.agents_locations), "init", enc_state(s0) + enc_ts(ts0), m, layout_of(envc))
            call("cleaner_check_io", enc_cfg(envc) + enc_state(s0), "latent-reset-mask", None, m)

    outs = kit.model(calls)
    ep_ret = {}
    for (entry, args), (kind, layout, exp, m), got in zip(calls, metas, outs):
        cid = tuple(sorted((k, str(v)) for k, v in m.items() if k in ("cfg", "p", "b", "t", "origin", "k", "action")))
        if kind in ("step", "ref", "init"):
            bad = envkit.diff_fields(layout, got, exp)
            illegal = kind != "init" and not all(m["legal"])
            pids = ["C09"] + (["C05"] if illegal else []) + (["C10"] if kind == "init" and "maze" in m else [])
            for pid in pids:
                res[pid].evaluations += 1
                res[pid].distinct.add((kind,) + cid)
            res["C09"].count("corr-" + kind)
            if illegal:
                res["C05"].count("illegal-action-steps-replayed")
            if bad:
                blame = set(pids)
                if "action_mask" in bad:
                    blame.add("C04")
                if "grid" in bad or "agents_locations" in bad:
                    blame.add("C07")
                if "reward" in bad:
                    blame.add("C08")
                if "step_count" in bad or "step_type" in bad:
                    blame.add("C11")
                what = {"step": "Impl model and implementation disagree on step", "ref": "Rules reference step and implementation disagree",
                        "init": "generator/reset model and implementation disagree"}[kind]
                kit.fail(sorted(blame), "%s (fields %s)" % (what, ",".join(bad)), dict(cfg=m["cfg"], op="corr-" + kind, fields=",".join(bad)),
                         dict(m, model=got, impl=exp, seed=kit.seed))
        elif kind in ("check", "check0", "obs-check", "check-succ"):
            names = ["Physical", "mask-exact", "Inv", "spec-bounds", "fresh"]
            blame = {"Physical": ["C07"], "mask-exact": ["C04"], "Inv": ["C07"], "spec-bounds": ["C01"], "fresh": ["C10"]}
            if kind == "obs-check":
                blame = {"Physical": ["C12"], "mask-exact": ["C12", "C04"], "Inv": ["C12"], "spec-bounds": ["C01"]}
            for i, e in enumerate(exp):
                for pid in blame[names[i]]:
                    res[pid].evaluations += 1
                    res[pid].distinct.add((kind, names[i]) + cid)
                if got[i] != e:
                    kit.fail(blame[names[i]], "verified checker %s fails on an implementation %s" % (names[i], "observation" if kind == "obs-check" else "state"),
                             dict(cfg=m["cfg"], op="checker-" + names[i]), dict(m, kind=kind, seed=kit.seed))
        elif kind == "latent-reset-mask":
            res["C04"].count("custom-generator-resets-probed")
            res["C04"].evaluations += 1
            res["C04"].distinct.add(("custom-generator-reset",) + cid)
            if got[0] == 1 and got[1] != 1:
                kit.fail(["C04"], "Cleaner.reset: the reset mask is not the legal-move table at the generator's agent locations (custom Generator)",
                         dict(cfg=m["cfg"], op="reset-mask-custom-generator"), dict(m, seed=kit.seed))
        elif kind in ("conn", "mazeconn"):
            res["C10"].evaluations += 1
            res["C10"].distinct.add((kind,) + cid)
            res["C10"].count(kind + "-checked")
            if got[:1] != exp or (kind == "mazeconn" and got[1:2] != [1]):
                kit.fail(["C10"], "generated grid is not fully connected from (0,0) (%s)" % kind, dict(cfg=m["cfg"], op=kind), dict(m, seed=kit.seed))
        elif kind == "limit":
            res["C11"].evaluations += 1
            res["C11"].distinct.add(("limit", m["cfg"]))
            if got != exp:
                kit.fail(["C11"], "effective time limit differs from `time_limit or rows*cols`", dict(cfg=m["cfg"], op="eff-limit"), dict(m, model=got, impl=exp))
        elif kind == "mono":
            for pid in ("C07", "C08"):
                res[pid].evaluations += 1
                res[pid].distinct.add(("mono",) + cid)
            if got[0] != 1:
                kit.fail(["C07"], "a cell changed other than DIRTY -> CLEAN", dict(cfg=m["cfg"], op="mono"), dict(m, seed=kit.seed))
            if m["reward"] != got[1] - m["pen"]:
                kit.fail(["C08"], "step reward != tiles cleaned - penalty", dict(cfg=m["cfg"], op="step-reward"), dict(m, cleaned=got[1], seed=kit.seed))
        elif kind == "return":
            res["C08"].evaluations += 1
            res["C08"].distinct.add(("return",) + cid)
            res["C08"].count("episode-returns")
            if got[0] != 1 or m["ret"] != got[1] - m["steps"] * m["pen"]:
                kit.fail(["C08"], "episode return != tiles cleaned (from the final grid) - steps * penalty", dict(cfg=m["cfg"], op="return"),
                         dict(m, cleaned=got[1], seed=kit.seed))
    for pid in PROPS:
        res[pid].traces += len(calls)
        if not res[pid].samples and metas:
            res[pid].samples.append(dict(env=NAME, example={k: v for k, v in metas[min(7, len(metas) - 1)][3].items() if k != "maze"}))
