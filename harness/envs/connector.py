"""Connector: correspondence with coq/Model/Connector.v (Impl step with max-join/correction, Rules reference step with the
sequential "highest id first" rule, both generators over recovered draws) and the verified boolean checkers (Physical /
mask-exact / spec bounds / fresh instance / cell monotonicity / solvability certificate) evaluated on the
implementation's own states.  Joint actions (all 5^N when N <= 3, a structured sample otherwise) are tried from visited
states and from directly constructed boundary states (2-, 3- and 4-way contests for one cell, heads next to targets,
last step before the limit).

Rewards: code = 100 * reward.  The default -0.03 / 0.97 are not dyadic: they are compared after rounding 100*r to the
nearest integer with |100*r - code| < 1e-3 (tolerance); the extra configurations with dyadic reward parameters are exact."""
import itertools

import numpy as np

from harness import envkit

NAME = "connector"
PROPS = ["C01", "C04", "C05", "C06", "C07", "C08", "C09", "C10", "C11", "C12"]
APPLIES = PROPS + ["C03"]


def _G():
    from jumanji.environments.routing.connector import generator
    return generator


def extra_configs(tier, add):
    import jumanji.environments as E
    from jumanji.environments.routing.connector.reward import DenseRewardFn
    G = _G()

    def cfg(label, gen, g, n, tl, steps, cr=1.0, tr=-0.03, batch=None):
        mk = lambda t, gen=gen, g=g, n=n, cr=cr, tr=tr: E.Connector(
            generator=getattr(G, gen)(grid_size=g, num_agents=n), reward_fn=DenseRewardFn(cr, tr), time_limit=t)
        add(label, (lambda mk=mk, tl=tl: mk(tl)), steps, batch=batch, time_limit=tl, mk=mk, gen=gen, cr=cr, tr=tr)

    cfg("g5a3walk-t9-dyadic", "RandomWalkGenerator", 5, 3, 9, 12, cr=2.0, tr=-0.25)
    cfg("g4a2uni-t6-dyadic", "UniformRandomGenerator", 4, 2, 6, 8, cr=1.0, tr=-0.5)
    cfg("g2a1uni-t2", "UniformRandomGenerator", 2, 1, 2, 4)
    cfg("g4a2uni-t5-zero-step", "UniformRandomGenerator", 4, 2, 5, 7, cr=1.0, tr=0.0)     # explicit ZERO constants must be honoured
    cfg("g4a2walk-t5-zero-conn", "RandomWalkGenerator", 4, 2, 5, 7, cr=0.0, tr=-1.0)
    cfg("g3a2walk-t4", "RandomWalkGenerator", 3, 2, 4, 6)
    if tier != "quick":
        cfg("g7a5uni-t5", "UniformRandomGenerator", 7, 5, 5, 7, cr=4.0, tr=0.0)
        cfg("g8a4walk-t30", "RandomWalkGenerator", 8, 4, 30, 33)
        cfg("g12a8walk-t40", "RandomWalkGenerator", 12, 8, 40, 44)
        cfg("g6a6uni-t20", "UniformRandomGenerator", 6, 6, 20, 23, cr=0.5, tr=-0.25)   # reward code = 100*reward must be an integer


# ---------------------------------------------------------------- encoders
def ints(x):
    return [int(v) for v in np.asarray(x).reshape(-1)]


def code100(r):
    v = float(r) * 100.0
    k = int(round(v))
    return k if abs(v - k) < 1e-3 else 10 ** 9


def asked_rewards(env):
    """(connected_reward, timestep_reward) the CONFIGURATION asked for (recorded by analyze from the catalog tags; the
    documented defaults 1.0 / -0.03 for the shared catalog), not what the reward function object stored"""
    return getattr(env, "_verif_rewards", (1.0, -0.03))


def enc_cfg(env):
    cr, tr = asked_rewards(env)
    return [int(env.grid_size), int(env.num_agents), int(env.time_limit), code100(cr), code100(tr)]


def enc_agents(a):
    ids, st, tg, po = np.asarray(a.id), np.asarray(a.start), np.asarray(a.target), np.asarray(a.position)
    out = []
    for k in range(ids.shape[0]):
        out += [int(ids[k]), int(st[k, 0]), int(st[k, 1]), int(tg[k, 0]), int(tg[k, 1]), int(po[k, 0]), int(po[k, 1])]
    return out


def enc_state(s):
    return ints(s.grid) + [int(s.step_count)] + enc_agents(s.agents)


def enc_ts(ts):
    return [int(ts.step_type)] + [code100(r) for r in np.asarray(ts.reward).reshape(-1)] + [int(round(float(d))) for d in np.asarray(ts.discount).reshape(-1)]


def layout_of(G, N):
    return [("grid", G * G), ("step_count", 1), ("agents", 7 * N), ("action_mask", 5 * N), ("step_type", 1), ("reward", N), ("discount", N)]


def describe(s):
    return dict(grid=np.asarray(s.grid).astype(int).tolist(), step_count=int(s.step_count),
                start=np.asarray(s.agents.start).astype(int).tolist(), target=np.asarray(s.agents.target).astype(int).tolist(),
                position=np.asarray(s.agents.position).astype(int).tolist())


class A:  # light numpy agents / state
    def __init__(self, ids, start, target, position):
        self.id, self.start, self.target, self.position = ids, start, target, position


class S:
    def __init__(self, grid, cnt, agents):
        self.grid, self.step_count, self.agents = grid, cnt, agents


DIRS = {0: (0, 0), 1: (-1, 0), 2: (0, 1), 3: (1, 0), 4: (0, -1)}


def synthetic_states(kit, G, N, T, n):
    """physically consistent states built directly: heads clustered around one empty cell (2-, 3-, 4-way contests),
    random partial wires, some agents already connected or one move from their target, step counts 0 / T-2 / T-1."""
    out = []
    if G * G < 2 * N + 1:
        return out
    tries = 0
    while len(out) < n and tries < 20 * n:
        tries += 1
        g = np.zeros((G, G), np.int32)
        heads, targets = [None] * N, [None] * N
        free = [(r, c) for r in range(G) for c in range(G)]
        kit.rng.shuffle(free)
        centre = free.pop()
        nb = [(centre[0] + d[0], centre[1] + d[1]) for d in list(DIRS.values())[1:]]
        nb = [p for p in nb if 0 <= p[0] < G and 0 <= p[1] < G]
        kit.rng.shuffle(nb)
        order = list(kit.rng.permutation(N))
        mode = len(out) % 3
        for i in order:          # cluster as many heads as possible around the centre (mode 0), or targets too (mode 1)
            if nb and mode != 2:
                heads[i] = nb.pop()
                free.remove(heads[i])
            else:
                heads[i] = free.pop()
        if mode == 1 and kit.rng.random() < 0.8:
            targets[order[0]] = centre      # the contested cell is one agent's own target
        for i in range(N):
            if targets[i] is None:
                targets[i] = free.pop()
        starts = [h for h in heads]
        for i in range(N):
            g[heads[i]] = 2 + 3 * i
            g[targets[i]] = 3 + 3 * i
        # grow random partial wires by legal single moves (never into the centre, so that the contest stays open)
        for i in range(N):
            for _ in range(int(kit.rng.integers(0, 4)) if mode == 2 else int(kit.rng.integers(0, 2))):
                if heads[i] == targets[i]:
                    break
                cand = []
                for d in list(DIRS.values())[1:]:
                    p = (heads[i][0] + d[0], heads[i][1] + d[1])
                    if 0 <= p[0] < G and 0 <= p[1] < G and p != centre and (g[p] == 0 or g[p] == 3 + 3 * i):
                        cand.append(p)
                if not cand or (mode != 2 and heads[i] in [(centre[0] + d[0], centre[1] + d[1]) for d in DIRS.values()]):
                    break
                p = cand[int(kit.rng.integers(len(cand)))]
                g[heads[i]] = 1 + 3 * i
                g[p] = 2 + 3 * i
                heads[i] = p
        cnt = [0, max(T - 2, 0), max(T - 1, 0), int(kit.rng.integers(0, max(T, 1)))][int(kit.rng.integers(4))]
        ag = A(np.arange(N, dtype=np.int32), np.asarray(starts, np.int32), np.asarray(targets, np.int32), np.asarray(heads, np.int32))
        s = S(g, np.int32(cnt), ag)
        s.centre = centre
        out.append(s)
    return out


def joint_actions(kit, N, states):
    if 5 ** N <= 125:
        return np.asarray(list(itertools.product(range(5), repeat=N)), np.int32)
    acts = [np.zeros(N, np.int32)] + [np.full(N, a, np.int32) for a in range(1, 5)]
    for s in states:      # everybody heads for the contested centre cell when adjacent
        c = getattr(s, "centre", None)
        if c is None:
            continue
        for variant in range(3):    # all adjacent heads go for the centre; then random subsets of them (2-/3-way contests)
            a = np.zeros(N, np.int32)
            for i in range(N):
                d = (c[0] - int(s.agents.position[i][0]), c[1] - int(s.agents.position[i][1]))
                go = next((k for k, v in DIRS.items() if v == d and k), None)
                a[i] = go if (go is not None and (variant == 0 or kit.rng.random() < 0.7)) else int(kit.rng.integers(0, 5))
            acts.append(a)
    while len(acts) < 44:
        acts.append(kit.rng.integers(0, 5, size=N).astype(np.int32))
    return np.asarray(acts[:44], np.int32)


def analyze(kit):
    import jax
    import jax.numpy as jnp
    from jumanji.environments.routing.connector.types import Agent, State

    q = kit.tier == "quick"
    res = kit.res
    calls, metas = [], []

    def call(entry, args, kind, exp, m, layout=None):
        calls.append((entry, args))
        metas.append((kind, layout, exp, m))

    def to_state(pool):
        key0 = jax.random.PRNGKey(0)
        st = lambda f: jnp.asarray(np.stack([np.asarray(f(s)) for s in pool]), jnp.int32)
        return State(grid=st(lambda s: s.grid), step_count=st(lambda s: s.step_count),
                     agents=Agent(id=st(lambda s: s.agents.id), start=st(lambda s: s.agents.start),
                                  target=st(lambda s: s.agents.target), position=st(lambda s: s.agents.position)),
                     key=jnp.stack([key0] * len(pool)))

    plans = []   # (label, env, s0, index of the solve call)
    import os, time
    t00 = [time.time()]

    def lap(what):
        if os.environ.get("CONNECTOR_PROF"):
            print("  [connector] %-40s %.1fs" % (what, time.time() - t00[0]))
        t00[0] = time.time()

    def walk_pieces(gen, label, board_keys):
        """_initialize_agents, every iteration of the walk (_continue_stepping, _select_action's choice, _step) and the end of
        generate_board, each compared with the model; the draws are the implementation's own intermediate values."""
        G, N = int(gen.grid_size), int(gen.num_agents)
        zero = jnp.zeros((G, G), jnp.int32)
        init_j, cont_j, step_j, board_j = jax.jit(gen._initialize_agents), jax.jit(gen._continue_stepping), jax.jit(gen._step), jax.jit(gen.generate_board)

        def chosen_cells(carry):
            key, grid, agents = carry
            key, _ = jax.random.split(key)
            keys = jax.random.split(key, num=N)

            def sel(k, ag):
                cell = gen._convert_tuple_to_flat_position(ag.position)
                av = gen._available_cells(grid=grid, cell=cell)
                return jax.random.choice(key=k, a=av, shape=(), replace=True, p=av != -1)
            return jax.vmap(sel)(keys, agents)
        chosen_j = jax.jit(chosen_cells)
        boards = []
        for b, board_key in enumerate(board_keys):
            key, step_key = jax.random.split(board_key)
            g1, a1 = init_j(key, zero)
            sf = [int(r) * G + int(c) for r, c in np.asarray(a1.start)]
            ff = [int(r) * G + int(c) for r, c in np.asarray(a1.position)]
            mm = dict(cfg=label, b=b, board_key=ints(board_key))
            call("connector_rwinit_io", [G, N] + [x for pr in zip(sf, ff) for x in pr], "rwinit", [1] + ints(g1) + enc_agents(a1), mm)
            carry = (step_key, g1, a1)
            it = 0
            while bool(cont_j(carry)) and it < 4 * G * G:
                ch = chosen_j(carry)
                nxt = step_j(carry)
                call("connector_rwstep_io", [G, N] + ints(carry[1]) + enc_agents(carry[2]) + ints(ch), "rwstep",
                     [1, 1] + ints(nxt[1]) + enc_agents(nxt[2]), dict(mm, it=it))
                carry = nxt
                it += 1
            solved, a3, g3 = board_j(board_key)
            s3 = S(np.asarray(g3), np.int32(0), jax.tree_util.tree_map(np.asarray, a3))
            call("connector_rwfinish_io", [G, N] + ints(carry[1]) + enc_agents(carry[2]), "rwfinish", [0] + ints(solved) + enc_state(s3), mm)
            boards.append(s3)
        return boards

    def walk_sweep(gen, label, keys, rew, env, screen=False):
        """solvability certificate on many boards: the model reads every wire off the generator's own solved board, plays
        all wires simultaneously in the model; some plans are then replayed on the real environment.
        -> indices of the boards on which some start cell had no free neighbour (first move = -1)."""
        G, N = int(gen.grid_size), int(gen.num_agents)
        zero = jnp.zeros((G, G), jnp.int32)

        def both(k):
            _, a1 = gen._initialize_agents(jax.random.split(k)[0], zero)
            return gen.generate_board(k), (a1.position < 0).any()
        (solved, a3, g3), iso = jax.jit(jax.vmap(both))(keys)
        solved, a3, g3, iso = np.asarray(solved), jax.tree_util.tree_map(np.asarray, a3), np.asarray(g3), np.asarray(iso)
        for b in range(len(keys)):
            s3 = S(g3[b], np.int32(0), envkit.R.slice_tree(a3, b))
            mm = dict(cfg=label, board=b, board_key=ints(keys[b]), isolated_start=bool(iso[b]), state=describe(s3), solved=solved[b].astype(int).tolist())
            if screen and not iso[b] and b >= 24:
                res["C10"].count("boards-screened-for-isolated-starts-only")
                continue
            call("connector_solve_io", [G, N, 10 ** 6] + rew + enc_state(s3) + ints(solved[b]), "solve", None, mm)
            if env is not None and b < (3 if q else 12):
                plans.append((label, env, s3, len(calls) - 1))
        return np.where(iso)[0]

    for cfg in kit.configs():
        env = kit.env(cfg)
        env._verif_rewards = (float(cfg["tags"].get("cr", 1.0)), float(cfg["tags"].get("tr", -0.03)))
        G, N, T = int(env.grid_size), int(env.num_agents), int(env.time_limit)
        ec = enc_cfg(env)
        lay = layout_of(G, N)
        label = cfg["label"]
        gen = env._generator
        is_walk = type(gen).__name__ == "RandomWalkGenerator"
        is_uni = type(gen).__name__ == "UniformRandomGenerator"
        crew, trew = env._verif_rewards
        kit.res["C08"].evaluations += 1
        stored = (float(env._reward_fn.connected_reward), float(env._reward_fn.timestep_reward))
        if not np.allclose(stored, env._verif_rewards, atol=1e-9):
            kit.fail(["C08"], "Connector reward function does not use the constants it was constructed with", dict(cfg=label, op="reward-wiring"),
                     dict(asked=env._verif_rewards, stored=stored))
        maskf = jax.jit(jax.vmap(env._get_action_mask, (0, None)))
        visited = []
        bad_instance = set()
        for p in (0.0, 0.35):
            roll = kit.roll(cfg, p)
            _, st, ts, ac, fl, k0 = roll
            B, Tn = ac.shape[0], ac.shape[1]
            for b in range(B):
                s0 = envkit.R.slice_tree(st, b, 0)
                ts0 = envkit.R.slice_tree(ts, b, 0)
                where = dict(cfg=label, p=p, b=b, t=0)
                m0 = dict(where, state=describe(s0), key=ints(k0[b]))
                call("connector_reset_io", ec + enc_state(s0), "init", enc_state(s0) + ints(ts0.observation.action_mask) + enc_ts(ts0), m0, lay)
                call("connector_check_io", ec + enc_state(s0) + ints(ts0.observation.action_mask), "check0", [1, 1, 1, 1, 2 * N], m0)
                if (np.asarray(s0.agents.target) < 0).any():
                    bad_instance.add((p, b))
                if is_uni:   # draws recovered from the generated state
                    sf = [int(r) * G + int(c) for r, c in np.asarray(s0.agents.start)]
                    tf = [int(r) * G + int(c) for r, c in np.asarray(s0.agents.target)]
                    call("connector_uniform_io", [G, N] + sf + tf, "uniform", [1] + enc_state(s0), m0)
                # ---- C08: per-agent return = crew * [connected during the episode] + trew * #steps unconnected
                n = int(min(Tn, fl[b]))
                conn = (np.asarray(st.agents.position[b, :n + 1]) == np.asarray(st.agents.target[b, :n + 1])).all(-1)  # (n+1, N)
                ret = np.asarray(ts.reward[b, 1:n + 1], np.float64).sum(0)
                exp_ret = crew * (conn[n].astype(float) - conn[0].astype(float)) + trew * (~conn[:n]).sum(0)
                res["C08"].evaluations += 1
                res["C08"].distinct.add((label, p, b))
                res["C08"].count("episode-returns")
                if not np.allclose(ret, exp_ret, atol=1e-4):
                    kit.fail(["C08"], "per-agent return != connected_reward*[connected] + timestep_reward*#unconnected steps",
                             dict(cfg=label, op="return"), dict(where, ret=ret.tolist(), expected=exp_ret.tolist(), seed=kit.seed))
            for (b, t, s, a, s2, ts2) in kit.transitions(roll):
                where = dict(cfg=label, p=p, b=b, t=t)
                mask = np.asarray(envkit.R.slice_tree(ts, b, t).observation.action_mask)
                legal = [bool(mask[i, int(a[i])]) for i in range(N)]
                m = dict(where, action=ints(a), legal=legal, state=describe(s), badinst=(p, b) in bad_instance)
                e = ec + enc_state(s)
                exp = enc_state(s2) + ints(ts2.observation.action_mask) + enc_ts(ts2)
                call("connector_step_io", e + ints(a), "step", exp, m, lay)
                call("connector_ref_io", e + ints(a), "ref", exp, m, lay)
                call("connector_check_io", ec + enc_state(s2) + ints(ts2.observation.action_mask), "check", [1, 1, 1], dict(m, next=describe(s2)))
                call("connector_mono_io", e + enc_state(s2), "mono", None, dict(m, next=describe(s2)))
                o = ts2.observation
                res["C12"].evaluations += 1
                res["C12"].distinct.add((label, p, b, t))
                if not (np.array_equal(o.grid, s2.grid) and int(o.step_count) == int(s2.step_count)
                        and np.array_equal(o.action_mask, np.asarray(maskf(jax.tree_util.tree_map(jnp.asarray, s2.agents), jnp.asarray(s2.grid))))):
                    kit.fail(["C12"], "observation differs from the state it views", dict(cfg=label, op="obs-copy"), dict(m, seed=kit.seed))
                # C11: LAST exactly when step_count reaches the limit or every agent is connected/blocked
                res["C11"].evaluations += 1
                res["C11"].distinct.add((label, p, b, t))
                m2 = np.asarray(o.action_mask)
                conn2 = (np.asarray(s2.agents.position) == np.asarray(s2.agents.target)).all(-1)
                alldone = bool((conn2 | ~m2[:, 1:].any(-1)).all())
                want_last = alldone or int(s2.step_count) >= T
                if (int(ts2.step_type) == 2) != want_last:
                    kit.fail(["C11"], "LAST flag differs from (all connected or blocked) or step_count >= time_limit",
                             dict(cfg=label, op="last-cause"), dict(m, seed=kit.seed, step_type=int(ts2.step_type)))
                if not m["badinst"]:
                    visited.append(s)
        lap(label + " rollouts")
        # ---- joint actions from sampled visited states and constructed boundary states (C04, C05, C07, C09)
        nv, nsyn = (6, 9) if q else (24, 30)
        if N >= 8:
            nv, nsyn = (3, 4) if q else (10, 12)
        idx = kit.rng.permutation(len(visited))[:nv] if visited else []
        pool = [("visited", visited[i]) for i in idx] + [("synthetic", s) for s in synthetic_states(kit, G, N, T, nsyn)]
        if pool:
            acts = joint_actions(kit, N, [s for _, s in pool])
            aidx = {tuple(int(x) for x in a): j for j, a in enumerate(acts)}
            stack = to_state([s for _, s in pool])

            def step_noextras(s, a):
                s2, t2 = env.step(s, a)
                return s2, t2.replace(extras={})
            f = jax.jit(jax.vmap(jax.vmap(step_noextras, in_axes=(None, 0)), in_axes=(0, None)))
            S2, TS2 = f(stack, jnp.asarray(acts))
            S2 = jax.tree_util.tree_map(np.asarray, S2)
            TS2 = jax.tree_util.tree_map(np.asarray, TS2)
            masks = np.asarray(jax.jit(jax.vmap(jax.vmap(env._get_action_mask, (0, None))))(stack.agents, stack.grid))
            for k, (origin, s) in enumerate(pool):
                e = ec + enc_state(s)
                mask = masks[k]
                if origin == "synthetic":
                    call("connector_check_io", e + ints(mask), "check", [1, 1, 1], dict(cfg=label, origin=origin, k=k, state=describe(s)))
                pos = np.asarray(s.agents.position)
                for j in range(acts.shape[0]):
                    a = acts[j]
                    s2 = envkit.R.slice_tree(S2, k, j)
                    ts2 = envkit.R.slice_tree(TS2, k, j)
                    legal = [bool(mask[i, int(a[i])]) for i in range(N)]
                    m = dict(cfg=label, origin=origin, k=k, action=ints(a), legal=legal, state=describe(s), all_actions=True)
                    exp = enc_state(s2) + ints(ts2.observation.action_mask) + enc_ts(ts2)
                    call("connector_step_io", e + ints(a), "step", exp, m, lay)
                    call("connector_ref_io", e + ints(a), "ref", exp, m, lay)
                    call("connector_check_io", ec + enc_state(s2) + ints(ts2.observation.action_mask), "check", [1, 1, 1], dict(m, next=describe(s2)))
                    call("connector_mono_io", e + enc_state(s2), "mono", None, dict(m, next=describe(s2)))
                    # the environment's own reaction judged by an independent statement of the rules
                    pos2 = np.asarray(s2.agents.position)
                    want = [tuple(int(x) for x in (pos[i] + np.asarray(DIRS[int(a[i])]))) if (legal[i] and a[i] != 0) else None for i in range(N)]
                    res["C04"].evaluations += 1
                    res["C04"].distinct.add((label, origin, k, j))
                    res["C04"].count("joint-actions-tried")
                    contest = max([sum(1 for w in want if w is not None and w == x) for x in set(w for w in want if w is not None)] or [0])
                    res["C09"].count("contest-%d-way" % contest if contest >= 2 else "no-contest")
                    for i in range(N):
                        moved = not np.array_equal(pos2[i], pos[i])
                        if want[i] is not None:
                            beaten = any(want[h] == want[i] for h in range(i + 1, N))
                            ok = (tuple(int(x) for x in pos2[i]) == want[i]) if not beaten else not moved
                            if not ok:
                                kit.fail(["C04", "C09"], "masked-in move not carried out (or a beaten lower id did not stay)",
                                         dict(cfg=label, op="mask-reaction"), dict(m, agent=i, seed=kit.seed, next=describe(s2)))
                        elif moved:
                            kit.fail(["C04", "C05"], "masked-out / no-op action moved the agent", dict(cfg=label, op="illegal-moved"),
                                     dict(m, agent=i, seed=kit.seed, next=describe(s2)))
                    if not all(legal):
                        res["C05"].evaluations += 1
                        res["C05"].distinct.add((label, origin, k, j))
                        res["C05"].count("illegal-joint-actions")
                        san = tuple(int(a[i]) if legal[i] else 0 for i in range(N))
                        if san in aidx:      # an illegal move is exactly a no-op: same successor, timestep, reward
                            j2 = aidx[san]
                            s3 = envkit.R.slice_tree(S2, k, j2)
                            ts3 = envkit.R.slice_tree(TS2, k, j2)
                            res["C05"].count("illegal==noop-compared")
                            if enc_state(s2) + enc_ts(ts2) != enc_state(s3) + enc_ts(ts3):
                                kit.fail(["C05"], "illegal move has an effect: result differs from the same joint action with the illegal moves replaced by no-ops",
                                         dict(cfg=label, op="illegal-effect"), dict(m, sanitised=list(san), seed=kit.seed, next=describe(s2)))
        lap(label + " joint actions")
        # ---- RandomWalkGenerator (C10): pieces of generate_board against the model over recovered draws, and the
        #      solvability certificate on many boards
        if is_walk:
            _, st, ts, ac, fl, k0 = kit.roll(cfg, 0.0)
            if label in ("g6a3t7", "g3a2walk-t4") or not q:
                bkeys = [jax.random.split(jnp.asarray(k0[b]))[1] for b in range(min(ac.shape[0], 3 if q else 8))]
                boards = walk_pieces(gen, label, bkeys)
                for b, s3 in enumerate(boards):
                    if enc_state(envkit.R.slice_tree(st, b, 0)) != enc_state(s3):
                        kit.fail(["C10"], "reset state differs from generate_board(split(key)[1])", dict(cfg=label, op="gen-key"), dict(b=b, seed=kit.seed))
            if label in ("default-t12", "g5a3walk-t9-dyadic") or not q:
                walk_sweep(gen, label, jax.random.split(jax.random.PRNGKey(kit.seed * 131 + 7), 32 if q else 400), ec[3:], env)

        lap(label + " generator")
    # ---- dense RandomWalk configurations, generator only (a start cell without a free neighbour is likely here)
    G_ = _G()
    for (g, n, nb) in ((4, 6, 64), (3, 3, 64), (10, 10, 256 if q else 4000)):
        gen = G_.RandomWalkGenerator(grid_size=g, num_agents=n)
        label = "walkgen-g%da%d" % (g, n)
        keys = jax.random.split(jax.random.PRNGKey(kit.seed * 17 + 1), nb)
        iso = walk_sweep(gen, label, keys, [100, -3], None, screen=(g == 10))
        if g == 4 and len(iso):
            walk_pieces(gen, label, [keys[int(b)] for b in iso[:2]])

    lap("dense generators")
    outs = kit.model(calls)
    lap("model calls (%d)" % len(calls))

    # replay some of the model's plans on the REAL environment
    stepfs = {}
    for (label, env, s3, ci) in plans:
        got = outs[ci]
        N = int(env.num_agents)
        L = got[1]
        plan = np.asarray(got[2:2 + L * N], np.int32).reshape(L, N)
        st = jax.tree_util.tree_map(lambda x: x[0], to_state([s3]))
        if label not in stepfs:
            stepfs[label] = jax.jit(env.step)
        stepf = stepfs[label]
        for a in plan:
            st, _ = stepf(st, jnp.asarray(a))
        res["C10"].evaluations += 1
        res["C10"].distinct.add(("plan-replayed", label, ci))
        res["C10"].count("plans-replayed-on-real-env")
        if bool(np.asarray(st.agents.connected).all()) != bool(got[0]):
            kit.fail(["C10", "C09"], "model's solving plan behaves differently on the real environment", dict(cfg=label, op="plan-replay"),
                     dict(plan=plan.tolist(), state=describe(s3), seed=kit.seed))

    lap("plan replays")
    names = ["Physical", "mask-exact", "spec-bounds", "fresh", "occupancy"]
    blame = {"Physical": ["C07", "C06"], "mask-exact": ["C04"], "spec-bounds": ["C01"], "fresh": ["C10"], "occupancy": ["C10"]}
    for (entry, args), (kind, layout, exp, m), got in zip(calls, metas, outs):
        cid = tuple(sorted((k, str(v)) for k, v in m.items() if k in ("cfg", "p", "b", "t", "origin", "k", "action", "board", "it")))
        if kind in ("step", "ref", "init"):
            bad = envkit.diff_fields(layout, got, exp)
            illegal = kind != "init" and not all(m["legal"])
            pids = ["C09"] + (["C05"] if illegal else [])
            for pid in pids:
                res[pid].evaluations += 1
                res[pid].distinct.add((kind,) + cid)
            res["C09"].count("corr-" + kind)
            if illegal:
                res["C05"].count("illegal-action-steps-replayed")
            if bad and not (m.get("badinst") and kind == "ref"):
                bl = set(pids)
                if "action_mask" in bad:
                    bl.add("C04")
                if "grid" in bad or "agents" in bad:
                    bl.add("C07")
                if "reward" in bad:
                    bl.add("C08")
                if "step_count" in bad or "step_type" in bad:
                    bl.add("C11")
                if "discount" in bad:
                    bl.add("C03")
                what = {"step": "Impl model and implementation disagree on step", "ref": "Rules reference step (sequential, highest id first) and implementation disagree",
                        "init": "reset model and implementation disagree"}[kind]
                kit.fail(sorted(bl & set(PROPS + ["C03"])), "%s (fields %s)" % (what, ",".join(bad)), dict(cfg=m["cfg"], op="corr-" + kind, fields=",".join(bad)),
                         dict(m, model=got, impl=exp, seed=kit.seed))
        elif kind in ("check", "check0"):
            if m.get("badinst"):
                res["C07"].count("states-of-a-malformed-instance-skipped")
                continue
            for i, e in enumerate(exp):
                for pid in blame[names[i]]:
                    res[pid].evaluations += 1
                    res[pid].distinct.add((kind, names[i]) + cid)
                if got[i] != e:
                    pids = blame[names[i]]
                    cause = {}
                    if kind == "check0":   # a malformed reset state is the generator's doing
                        pids = ["C10"]
                        if any(x < 0 for pr in m["state"]["target"] for x in pr):
                            cause = dict(cause="isolated-start")
                    kit.fail(pids, "verified checker %s fails on an implementation %s state" % (names[i], "reset" if kind == "check0" else "successor"),
                             dict(cfg=m["cfg"], op="checker-" + names[i], **cause), dict(m, kind=kind, seed=kit.seed))
        elif kind == "mono":
            for pid in ("C06", "C07"):
                res[pid].evaluations += 1
                res[pid].distinct.add(("mono",) + cid)
            if got[0] != 1:
                kit.fail(["C06"], "a cell changed other than EMPTY/own TARGET -> POSITION or POSITION -> PATH", dict(cfg=m["cfg"], op="mono"), dict(m, seed=kit.seed))
            g0 = np.asarray(m["state"]["grid"])
            moved_into_empty = sum(1 for p0, p1 in zip(m["state"]["position"], m["next"]["position"]) if p0 != p1 and 0 <= p1[0] < len(g0) and g0[p1[0]][p1[1]] == 0)
            if got[1] != moved_into_empty and not m.get("badinst"):
                kit.fail(["C07"], "occupancy not conserved: non-empty cells grew by %d, %d agents moved into empty cells" % (got[1], moved_into_empty),
                         dict(cfg=m["cfg"], op="occupancy"), dict(m, seed=kit.seed))
        elif kind in ("uniform", "rwinit", "rwstep", "rwfinish"):
            res["C10"].evaluations += 1
            res["C10"].distinct.add((kind,) + cid)
            res["C10"].count("corr-" + kind)
            nag = args[1]
            agents_part = exp[len(exp) - 7 * nag:]
            offgrid = any(agents_part[7 * i + 5] < 0 or agents_part[7 * i + 6] < 0 for i in range(nag))
            if kind == "rwinit" and got[1:] == exp[1:] and got[0] == 1 and offgrid:
                kit.fail(["C10"], "RandomWalkGenerator: valid draws pick a start cell with no free neighbour; first move = -1 wraps to the last cell",
                         dict(cfg=m["cfg"], op="gen-randomwalk", cause="isolated-start"), dict(m, seed=kit.seed, impl=exp))
            elif got != exp:
                kit.fail(["C10"], "generator model and implementation disagree (%s)" % kind, dict(cfg=m["cfg"], op="corr-" + kind),
                         dict(m, model=got[:60], impl=exp[:60], seed=kit.seed))
        elif kind == "solve":
            res["C10"].evaluations += 1
            res["C10"].distinct.add(("solve",) + cid)
            res["C10"].count("boards-certified" if got[0] == 1 else "boards-NOT-solved")
            if got[0] != 1:
                neg = m["isolated_start"]
                kit.fail(["C10"], "RandomWalkGenerator board is not solved by the wires of its own solved board"
                         + (" (a start cell had no free neighbour: first move = -1, written to the wrapped last cell; the wire is broken"
                            " or its target is off the grid)" if neg else ""),
                         dict(cfg=m["cfg"], op="gen-randomwalk", cause="isolated-start" if neg else "unsolved"),
                         dict(m, seed=kit.seed, reproduce="RandomWalkGenerator(grid_size, num_agents).generate_board(jnp.asarray(board_key, jnp.uint32))"))
            elif m["isolated_start"]:
                res["C10"].count("isolated-start-but-still-solved")
    for pid in PROPS:
        res[pid].traces += len(calls)
        if not res[pid].samples and metas:
            res[pid].samples.append(dict(env=NAME, example={k: v for k, v in metas[min(7, len(metas) - 1)][3].items() if k not in ("solved",)}))
