"""CVRP: correspondence with coq/Model/CVRP.v + verified checkers on implementation states.

Numbers.  Demands, capacity, position, trajectory, num_total_visits are int32 and are compared exactly.  Coordinates are
float32 and only copied (sent as exact integers x * 2^30).  The rewards are float32 Euclidean distances and sums of them:
the model takes the distance as an ORACLE TABLE: the harness computes the (n+1)^2 pairwise distances with the
implementation's own `distance_between_two_cities` (float32) and sends them as the exact integers d * 2^46 (every non-zero
distance between points of the 2^-23 grid is >= 2^-23, hence a multiple of 2^-46; integrality is asserted, never rounded).
 - step type, discount, successor state, observation, mask: compared exactly for every transition
 - dense reward = minus ONE table entry (the closing term is d(depot,depot) = 0): compared exactly, a tolerance of 2 ulps
   is allowed for a differently fused norm (the number of non-bit-exact comparisons is reported, it is 0 here)
 - sparse reward = float32 sum of 2n legs in unspecified order: compared with the exact integer sum within (2n+2) ulps
 - penalty: the model is given float32(2*n*sqrt(2)) computed here in numpy (NOT read from the env); the verified
   `penalty_b` decides that the reward the env actually pays is within 2 ulps of the real number 2*n*sqrt(2).
 - the table itself is validated against a float64 recomputation from the coordinates (1e-6).
"""
import numpy as np

from harness import envkit

NAME = "cvrp"
PROPS = ["C04", "C05", "C06", "C08", "C09", "C10", "C11", "C12"]
APPLIES = PROPS
K = 46
SC = 1 << K
KC = 30
SCC = 1 << KC


def extra_configs(tier, add):
    from jumanji.environments import CVRP
    from jumanji.environments.routing.cvrp import generator as G, reward as R
    add("n1", lambda: CVRP(generator=G.UniformGenerator(num_nodes=1, max_capacity=2, max_demand=2)), 5)
    add("n2cap1sparse", lambda: CVRP(generator=G.UniformGenerator(num_nodes=2, max_capacity=1, max_demand=1), reward_fn=R.SparseReward()), 7)
    add("n6tight", lambda: CVRP(generator=G.UniformGenerator(num_nodes=6, max_capacity=5, max_demand=5)), 15)
    add("n8loose-sparse", lambda: CVRP(generator=G.UniformGenerator(num_nodes=8, max_capacity=100, max_demand=3), reward_fn=R.SparseReward()), 19)
    if tier != "quick":
        add("n20sparse", lambda: CVRP(reward_fn=R.SparseReward()), 45)
        add("n50", lambda: CVRP(generator=G.UniformGenerator(num_nodes=50, max_capacity=40, max_demand=10)), 104)


def q(x, sc=SC):
    """exact integer code x * sc of float(s); raises if some value is not a multiple of 1/sc"""
    a = np.asarray(x, np.float64).reshape(-1) * sc
    r = np.round(a)
    if not np.all(r == a) or not np.all(np.isfinite(a)):
        raise ValueError("value off the 1/%d grid: %r" % (sc, np.asarray(x).reshape(-1)[:4]))
    return [int(v) for v in r]


def il(x):
    return [int(v) for v in np.asarray(x).reshape(-1)]


class St:
    """a CVRP state as numpy values + the mask the implementation showed for it (or None)"""
    __slots__ = ("coords", "dem", "pos", "cap", "vis", "traj", "nvis", "mask", "n", "tab", "meta")

    def __init__(self, coords, dem, pos, cap, vis, traj, nvis, mask, tab, meta):
        self.coords = np.asarray(coords, np.float32)
        self.dem = np.asarray(dem, np.int32)
        self.pos, self.cap, self.nvis = int(pos), int(cap), int(nvis)
        self.vis = np.asarray(vis, bool)
        self.traj = np.asarray(traj, np.int32)
        self.mask = None if mask is None else np.asarray(mask, bool)
        self.n = len(self.dem) - 1
        self.tab, self.meta = tab, meta

    @classmethod
    def of(cls, s, mask, tab, meta):
        return cls(s.coordinates, s.demands, s.position, s.capacity, s.visited_mask, s.trajectory, s.num_total_visits, mask, tab, meta)

    def enc(self):
        return il(self.dem) + [self.pos, self.cap] + il(self.vis) + il(self.traj) + [self.nvis]

    def legal(self, a):  # the rules, stated independently in Python
        if a == 0:
            return self.pos != 0
        return 1 <= a <= self.n and (not self.vis[a]) and int(self.dem[a]) <= self.cap

    def consistent(self):
        return bool(self.vis[0]) == (self.pos == 0) and self.cap >= 0 and int(self.dem[0]) == 0 and 0 <= self.pos <= self.n

    def key(self):
        return (self.meta.get("src"), self.meta.get("p"), self.meta.get("b"), self.meta.get("ep"), self.meta.get("t"), self.meta.get("v"))

    def brief(self):
        return dict(demands=il(self.dem), position=self.pos, capacity=self.cap, visited=il(self.vis), trajectory=il(self.traj),
                    num_total_visits=self.nvis, coordinates=self.coords.tolist())


def layout(n):
    N = n + 1
    return [("demands", N), ("position", 1), ("capacity", 1), ("visited_mask", N), ("trajectory", 2 * n), ("num_total_visits", 1),
            ("obs.demands", N), ("obs.unvisited_nodes", N), ("obs.position", 1), ("obs.trajectory", 2 * n), ("obs.capacity", 1),
            ("action_mask", N), ("step_type", 1), ("reward", 1), ("discount", 1)]


def enc_out(s2, ts, mc):
    """implementation's successor state + observation + timestep in the model's output format.  The float fields
    demands/max_capacity and capacity/max_capacity are checked HERE against the exact float32 quotient of the state's integers
    and replaced by the numerators (or -999 when mis-scaled by more than one float32 ulp)."""
    o = ts.observation
    dq = (np.asarray(s2.demands, np.float32) / np.float32(mc)).astype(np.float32)
    # under jit XLA turns x / const into x * (1/const): the quotient may be off by one ulp of float32
    near = lambda x, y: abs(float(x) - float(y)) <= float(np.spacing(np.float32(max(abs(float(y)), 1e-30))))
    od = [int(d) if near(x, y) else -999 for d, x, y in zip(np.asarray(s2.demands), np.asarray(o.demands), dq)]
    oc = int(s2.capacity) if near(o.capacity, np.float32(int(s2.capacity)) / np.float32(mc)) else -999
    return (il(s2.demands) + [int(s2.position), int(s2.capacity)] + il(s2.visited_mask) + il(s2.trajectory) + [int(s2.num_total_visits)]
            + od + il(o.unvisited_nodes) + [int(o.position)] + il(o.trajectory) + [oc] + il(o.action_mask)
            + [int(ts.step_type)] + q(ts.reward) + [int(round(float(ts.discount)))])


_JIT = {}


def _stepper(env):
    import jax
    if id(env) not in _JIT:
        _JIT[id(env)] = (jax.jit(jax.vmap(env.step)), jax.jit(env.step), jax.jit(jax.vmap(env.reset)), jax.jit(env._state_to_observation), env)
    return _JIT[id(env)]


def mk_state(c):
    import jax.numpy as jnp
    from jumanji.environments.routing.cvrp.types import State
    return State(coordinates=jnp.asarray(c.coords), demands=jnp.asarray(c.dem), position=jnp.asarray(c.pos, jnp.int32),
                 capacity=jnp.asarray(c.cap, jnp.int32), visited_mask=jnp.asarray(c.vis), trajectory=jnp.asarray(c.traj),
                 num_total_visits=jnp.asarray(c.nvis, jnp.int32), key=jnp.zeros(2, jnp.uint32))


def step_many(env, pairs):
    """the REAL env.step (jit+vmap) on directly constructed states: pairs [(St, action)] -> [(state', timestep)] numpy"""
    import jax
    import jax.numpy as jnp
    from jumanji.environments.routing.cvrp.types import State
    out = []
    CH = 2048
    for i in range(0, len(pairs), CH):
        ch = pairs[i:i + CH]
        pad = ch + [ch[-1]] * ((256 if len(ch) <= 256 else CH) - len(ch))     # two batch sizes -> two compilations per env
        S = State(coordinates=jnp.asarray(np.stack([c.coords for c, _ in pad])), demands=jnp.asarray(np.stack([c.dem for c, _ in pad])),
                  position=jnp.asarray(np.asarray([c.pos for c, _ in pad], np.int32)), capacity=jnp.asarray(np.asarray([c.cap for c, _ in pad], np.int32)),
                  visited_mask=jnp.asarray(np.stack([c.vis for c, _ in pad])), trajectory=jnp.asarray(np.stack([c.traj for c, _ in pad])),
                  num_total_visits=jnp.asarray(np.asarray([c.nvis for c, _ in pad], np.int32)), key=jnp.zeros((len(pad), 2), jnp.uint32))
        A = jnp.asarray(np.asarray([a for _, a in pad], np.int32))
        s2, ts = _stepper(env)[0](S, A)
        s2, ts = jax.tree_util.tree_map(np.asarray, (s2, ts.replace(extras={})))
        for j in range(len(ch)):
            out.append((envkit.R.slice_tree(s2, j), envkit.R.slice_tree(ts, j)))
    return out


_PW = {}


def table_of(coords):
    """the implementation's own float32 pairwise distances (distance_between_two_cities under jit+vmap) as integer codes"""
    import jax
    from jumanji.environments.routing.cvrp import reward as RW
    if "f" not in _PW:
        _PW["f"] = jax.jit(jax.vmap(jax.vmap(RW.distance_between_two_cities, (None, 0)), (0, None)))
    c = np.asarray(coords, np.float32)
    D = np.asarray(_PW["f"](c, c))
    return q(D), D


def analyze(kit):
    import jax
    import jax.numpy as jnp
    from jumanji.environments import CVRP
    from jumanji.environments.routing.cvrp import reward as RW
    quick = kit.tier == "quick"
    res = kit.res
    calls, metas = [], []
    tabs = {}

    def tab_for(coords):
        k = np.asarray(coords, np.float32).tobytes()
        if k not in tabs:
            t, D = table_of(coords)
            c64 = np.asarray(coords, np.float64)
            D64 = np.sqrt(((c64[:, None, :] - c64[None, :, :]) ** 2).sum(-1))
            res["C08"].count("distance-table-validated-against-float64")
            if np.abs(D64 - D).max() > 1e-6:
                kit.fail(["C08"], "implementation's pairwise float32 distances differ from the float64 Euclidean distance", dict(op="table-f64"),
                         dict(coords=np.asarray(coords).tolist(), err=float(np.abs(D64 - D).max())))
            tabs[k] = t
        return tabs[k]

    def submit(states, acts_of, envs, label, mc, pen, rules=True):
        """every (state, action) through the real dense and sparse env, through the model (float32 closing rounding) and,
        for consistent states and in-spec actions, through the declarative rules"""
        if not states:
            return {}
        n = states[0].n
        pairs = [(c, a) for c in states for a in acts_of(c)]
        got = {}
        for sp, env in envs.items():
            outs = step_many(env, pairs)
            got[sp] = outs
            i = 0
            for c in states:
                acts = acts_of(c)
                exp = [enc_out(s2, ts, mc) for (s2, ts) in outs[i:i + len(acts)]]
                raw = outs[i:i + len(acts)]
                i += len(acts)
                m = dict(c.meta, cfg=label, sparse=sp, n=n, mc=mc)
                calls.append(("cvrp_step_io", [n, 1, sp, mc, pen] + c.tab + c.enc() + [len(acts)] + acts))
                metas.append(("step", dict(m, model="float32"), exp, (c, acts, raw)))
                if rules and c.consistent():
                    ins = [a for a in acts if 0 <= a <= n]
                    if ins:
                        calls.append(("cvrp_rules_io", [n, sp, mc, pen] + c.tab + c.enc() + [len(ins)] + ins))
                        metas.append(("step", dict(m, model="rules"), [e for e, a in zip(exp, acts) if 0 <= a <= n],
                                      (c, ins, [r for r, a in zip(raw, acts) if 0 <= a <= n])))
        return got

    def submit_check(c, label, mc, maxd, **extra):
        calls.append(("cvrp_check_io", [c.n, mc, maxd] + c.tab + c.enc() + il(c.mask)))
        metas.append(("check", dict(c.meta, cfg=label, n=c.n, mc=mc, maxd=maxd, **extra), None, c))

    for cfg in kit.configs():
        env = kit.env(cfg)
        n, mc, maxd = int(env.num_nodes), int(env.max_capacity), int(env.max_demand)
        N = n + 1
        label = cfg["label"]
        sparse_cfg = int(isinstance(env.reward_fn, RW.SparseReward))
        envs = {0: env if not sparse_cfg else CVRP(generator=env.generator, reward_fn=RW.DenseReward()),
                1: env if sparse_cfg else CVRP(generator=env.generator, reward_fn=RW.SparseReward())}
        pen = q(np.float32(2 * n * np.sqrt(2.0)))[0]          # the DOCUMENTED penalty, computed here
        # ------------------------------------------------------------ episodes: rollouts + scripted ones
        episodes = []   # dict(meta, steps=[(St, a, s2, ts2)], final=St or None, s0, ts0)
        for p in (0.0, 0.35):
            _, st, ts, ac, fl, k0 = kit.roll(cfg, p)
            B, T = ac.shape
            for b in range(B):
                end = min(T, fl[b])
                s0, ts0 = envkit.R.slice_tree(st, b, 0), envkit.R.slice_tree(ts, b, 0)
                tab = tab_for(s0.coordinates)
                steps = []
                for t in range(end):
                    s, tsc = envkit.R.slice_tree(st, b, t), envkit.R.slice_tree(ts, b, t)
                    s2, ts2 = envkit.R.slice_tree(st, b, t + 1), envkit.R.slice_tree(ts, b, t + 1)
                    steps.append((St.of(s, tsc.observation.action_mask, tab, dict(src="rollout", p=p, b=b, t=t)), int(ac[b, t]), s2, ts2))
                fin = None
                if end >= 1 and fl[b] <= T:
                    fin = St.of(envkit.R.slice_tree(st, b, end), envkit.R.slice_tree(ts, b, end).observation.action_mask, tab,
                                dict(src="final", p=p, b=b, t=int(end)))
                episodes.append(dict(meta=dict(src="rollout", p=p, b=b), steps=steps, final=fin, s0=s0, ts0=ts0, native=True))
        # scripted episodes on the real env (single jitted steps): zigzag = customer, depot, customer, depot ... (2n steps: the
        # (2n+1)-th visit does not fit the trajectory array), greedy = customers while one fits, illegal = an illegal node at step k
        stp, rst = _stepper(env)[1], _stepper(env)[2]
        nscript = 3 if quick else 8
        keys = jax.random.split(jax.random.PRNGKey(kit.seed + 77), nscript * 3)
        s0s, ts0s = jax.tree_util.tree_map(np.asarray, rst(keys))
        for e in range(nscript * 3):
            kind = ("zigzag", "greedy", "illegal")[e % 3]
            s0, ts0 = envkit.R.slice_tree(s0s, e), envkit.R.slice_tree(ts0s, e)
            s0 = jax.tree_util.tree_map(np.asarray, s0)
            tab = tab_for(s0.coordinates)
            cur, curts = s0, ts0
            steps = []
            bad_at = int(kit.rng.integers(0, 2 * n)) if kind == "illegal" else -1
            for t in range(2 * n + 2):
                m = np.asarray(curts.observation.action_mask)
                cust = [i for i in range(1, N) if m[i]]
                if t == bad_at and (~m).any():
                    a = int(kit.rng.choice(np.where(~m)[0]))
                elif kind == "zigzag":
                    a = 0 if m[0] else (int(kit.rng.choice(cust)) if cust else 0)
                else:
                    a = int(kit.rng.choice(cust)) if cust else 0
                s2, ts2 = jax.tree_util.tree_map(np.asarray, stp(mk_state(St.of(cur, None, tab, {})), jnp.asarray(a, jnp.int32)))
                ts2 = ts2.replace(extras={})
                steps.append((St.of(cur, m, tab, dict(src="script-" + kind, ep=e, t=t)), a, s2, ts2))
                cur, curts = s2, ts2
                if int(ts2.step_type) == 2:
                    break
            fin = St.of(cur, curts.observation.action_mask, tab, dict(src="final", ep=e, t=len(steps), kind=kind)) if int(curts.step_type) == 2 else None
            episodes.append(dict(meta=dict(src="script-" + kind, ep=e), steps=steps, final=fin, s0=s0, ts0=ts0, native=False))

        # ------------------------------------------------------------ per episode: reset, transitions, final state
        replay_states, replay_act = [], {}
        sweep_pool = []
        for ep in episodes:
            s0, ts0 = ep["s0"], ep["ts0"]
            draw = il(s0.demands)
            draw[0] = 1
            calls.append(("cvrp_init_io", [n, mc, maxd, SCC] + draw + q(s0.coordinates, SCC)))
            metas.append(("init", dict(ep["meta"], cfg=label, n=n), enc_out(s0, ts0, mc) + [1], None))
            all_legal = True
            for (c, a, s2, ts2) in ep["steps"]:
                legal = c.legal(a)
                all_legal = all_legal and legal
                replay_states.append(c)
                replay_act[id(c)] = a
                sweep_pool.append(c)
                submit_check(c, label, mc, maxd, final=False)
                # ---- C12: copied observation fields; the instance never changes
                o = ts2.observation
                res["C12"].evaluations += 1
                res["C12"].distinct.add((label,) + c.key())
                if not (np.array_equal(o.coordinates, s2.coordinates) and np.array_equal(o.trajectory, s2.trajectory)
                        and int(o.position) == int(s2.position) and np.array_equal(o.unvisited_nodes, ~np.asarray(s2.visited_mask))):
                    kit.fail(["C12"], "observation field is not a copy of the state field", dict(cfg=label, op="obs-copy"), dict(c.meta, seed=kit.seed))
                if not (np.array_equal(s2.coordinates, c.coords) and np.array_equal(s2.demands, c.dem)):
                    kit.fail(["C09", "C05"], "step changed the problem instance (coordinates/demands)", dict(cfg=label, op="instance-const"),
                             dict(c.meta, seed=kit.seed))
            fin = ep["final"]
            steps = ep["steps"]
            if fin is not None:
                last_legal = steps[-1][0].legal(steps[-1][1])
                ep["all_legal"], ep["last_legal"] = all_legal, last_legal
                fin.meta = dict(fin.meta, steps=len(steps))
                sweep_pool.append(fin)
                res["C11"].evaluations += 1
                res["C11"].distinct.add((label, ep["meta"]["src"], ep["meta"].get("p"), ep["meta"].get("b"), ep["meta"].get("ep")))
                L = len(steps)
                res["C11"].count("episode-length:%s" % ("=2n" if L == 2 * n else "<2n" if L < 2 * n else ">2n"))
                if L == 2 * n and all_legal:
                    res["C09"].count("episodes-with-2n+1-visits (last trajectory write dropped)")
                if L > 2 * n:
                    kit.fail(["C11"], "episode longer than 2*num_nodes", dict(cfg=label, op="horizon"), dict(ep["meta"], steps=L, seed=kit.seed))
        # the executed transitions, replayed on the dense AND the sparse twin (returns of both on the same trajectory)
        got = submit(replay_states, lambda c: [replay_act[id(c)]], envs, label, mc, pen)
        idx = {id(c): i for i, c in enumerate(replay_states)}
        for ep in episodes:
            fin = ep["final"]
            if fin is None:
                continue
            rets = {}
            for sp in (0, 1):
                rets[sp] = sum(q(got[sp][idx[id(c)]][1].reward)[0] for (c, a, s2, ts2) in ep["steps"])
            if ep["native"]:
                native = sum(q(ts2.reward)[0] for (c, a, s2, ts2) in ep["steps"])
                if native != rets[sparse_cfg]:
                    kit.fail(["C08", "C09"], "replayed transitions give another return than the rollout itself", dict(cfg=label, op="replay-return"),
                             dict(ep["meta"], rollout=native / SC, replay=rets[sparse_cfg] / SC, seed=kit.seed))
            submit_check(fin, label, mc, maxd, final=True, all_legal=ep["all_legal"], last_legal=ep["last_legal"],
                         ret_dense=rets[0], ret_sparse=rets[1], nsteps=len(ep["steps"]),
                         route=[a for (_, a, _, _) in ep["steps"]])
        # ------------------------------------------------------------ EVERY action (+ out-of-spec indices) from visited states
        npick = 20 if quick else 150
        pick = sweep_pool if (N <= 9 and len(sweep_pool) <= 4 * npick) or len(sweep_pool) <= npick else \
            [sweep_pool[i] for i in kit.rng.choice(len(sweep_pool), npick, replace=False)]
        oos = [N, N + 3, -1, -N, -N - 1]
        sweep = [St(c.coords, c.dem, c.pos, c.cap, c.vis, c.traj, c.nvis, c.mask, c.tab, dict(c.meta, v="sweep")) for c in pick]
        submit(sweep, lambda c: list(range(N)) + oos, envs, label, mc, pen)
        # ------------------------------------------------------------ boundary states built from visited ones
        bnd = []
        obsf = _stepper(env)[3]
        if sweep_pool:
            for i in kit.rng.choice(len(sweep_pool), min(len(sweep_pool), 8 if quick else 40), replace=False):
                c = sweep_pool[int(i)]
                unv = np.where(~c.vis[1:])[0] + 1
                variants = []
                if len(unv):
                    j = int(kit.rng.choice(unv))
                    # remaining capacity == demand of an unvisited customer, one below it, zero
                    variants += [("cap==demand", dict(cap=int(c.dem[j]))), ("cap==demand-1", dict(cap=int(c.dem[j]) - 1)), ("cap==0", dict(cap=0))]
                # trajectory array full: num_total_visits == 2n (the next write is dropped), and one before
                variants += [("nvis==2n", dict(nvis=2 * n)), ("nvis==2n-1", dict(nvis=max(2 * n - 1, 1)))]
                for name, ch in variants:
                    c2 = St(c.coords, c.dem, c.pos, ch.get("cap", c.cap), c.vis, c.traj, ch.get("nvis", c.nvis), None, c.tab, dict(c.meta, v=name))
                    c2.mask = np.asarray(obsf(mk_state(c2)).action_mask)
                    res["C04"].count("boundary:" + name)
                    bnd.append(c2)
                # off-invariant: everything visited, vehicle away from the depot (exercises the rounded closing term of the dense reward)
                if n >= 1:
                    c3 = St(c.coords, c.dem, 1 + int(kit.rng.integers(n)), c.cap, np.ones(N, bool), c.traj, c.nvis, None, c.tab, dict(c.meta, v="off-invariant"))
                    c3.mask = np.asarray(obsf(mk_state(c3)).action_mask)
                    bnd.append(c3)
        submit(bnd, lambda c: list(range(N)), envs, label, mc, pen)
        for c in bnd:
            if c.meta["v"] in ("cap==demand", "cap==demand-1", "cap==0"):
                calls.append(("cvrp_check_io", [c.n, mc, maxd] + c.tab + c.enc() + il(c.mask)))
                metas.append(("check", dict(c.meta, cfg=label, n=c.n, mc=mc, maxd=maxd, final=False, mask_only=True), None, c))
        # ------------------------------------------------------------ C10: more reset keys: valid draws, dependence on the key
        nk = 24 if quick else 128
        keys = jax.random.split(jax.random.PRNGKey(kit.seed + 4242), nk)
        s0s, ts0s = jax.tree_util.tree_map(np.asarray, _stepper(env)[2](keys))
        seen = set()
        for i in range(nk):
            s0, ts0 = envkit.R.slice_tree(s0s, i), envkit.R.slice_tree(ts0s, i)
            draw = il(s0.demands)
            draw[0] = 1
            calls.append(("cvrp_init_io", [n, mc, maxd, SCC] + draw + q(s0.coordinates, SCC)))
            metas.append(("init", dict(cfg=label, key=i, n=n, src="reset-keys"), enc_out(s0, ts0, mc) + [1], None))
            seen.add((tuple(il(s0.demands)), tuple(q(s0.coordinates, SCC))))
            dd = np.asarray(s0.demands)[1:]
            if maxd > 1:
                res["C10"].count("customer-demand==max_demand (configs with max_demand > 1)", int((dd == maxd).sum()))
                res["C10"].count("customer-demands-drawn (configs with max_demand > 1)", int(dd.size))
        res["C10"].evaluations += 1
        res["C10"].count("distinct-instances/%d-keys" % nk, len(seen))
        if len(seen) < nk:
            kit.fail(["C10"], "generator does not depend on the key (repeated instance)", dict(cfg=label, op="key-dependence"),
                     dict(keys=nk, distinct=len(seen), seed=kit.seed))
        # ------------------------------------------------------------ the documented penalty, judged on what the env pays
        c = sweep_pool[0]
        ill = [a for a in range(N) if not c.legal(a)]
        if ill:
            for sp in (0, 1):
                _, ts2 = step_many(envs[sp], [(c, ill[0])])[0]
                paid = -q(ts2.reward)[0]
                calls.append(("cvrp_penalty_io", [n, SC, max(paid, 1) >> 22, paid]))
                metas.append(("penalty", dict(cfg=label, n=n, sparse=sp, paid=paid / SC, documented=2 * n * 2 ** 0.5), [1], None))

    # ------------------------------------------------------------ the rounding function itself, against numpy float32
    xs = [int(x) for x in kit.rng.integers(0, 1 << 50, 300)] + [int(x) for x in kit.rng.integers(0, 1 << 26, 300)]
    xs += [(1 << 24) + d for d in range(-2, 9)] + [(1 << 25) + d for d in range(-4, 13)] + [0, 1, -5, -(1 << 25) - 2, -(1 << 25) - 6]
    calls.append(("cvrp_rne_io", xs))
    metas.append(("rne", dict(), [int(np.float32(float(x))) for x in xs], None))

    # ------------------------------------------------------------------ compare
    outs = kit.model(calls)
    for (entry, args), (kind, m, exp, extra), got in zip(calls, metas, outs):
        if kind == "step":
            c, acts, raw = extra
            n = m["n"]
            N = n + 1
            lay = layout(n)
            W = sum(w for _, w in lay)
            ridx = W - 2
            if len(got) != W * len(acts):
                kit.fail(["C09"], "model output has the wrong length", dict(cfg=m["cfg"], op="corr-step-length"), dict(m, got=len(got), want=W * len(acts)))
                continue
            for k, a in enumerate(acts):
                g, e = got[k * W:(k + 1) * W], list(exp[k])
                s2, ts2 = raw[k]
                inspec = 0 <= a <= n
                legal = c.legal(a)
                key = (m["cfg"],) + c.key() + (a, m["sparse"])
                if g[ridx] != e[ridx]:
                    sparse_sum = bool(m["sparse"]) and int(ts2.step_type) == 2 and int(s2.num_total_visits) == c.nvis + 1
                    tol = ((2 * n + 2) if sparse_sum else 2) * (max(SC, abs(e[ridx])) >> 23)
                    res["C08"].count("reward-compared-with-tolerance:%s" % ("sparse-sum" if sparse_sum else "single-distance"))
                    if abs(g[ridx] - e[ridx]) <= tol:
                        e[ridx] = g[ridx]
                else:
                    res["C08"].count("reward-compared-exactly")
                bad = envkit.diff_fields(lay, g, e)
                for pid in ("C09", "C04", "C12"):
                    res[pid].evaluations += 1
                res["C09"].distinct.add(key)
                res["C09"].count("model:%s" % m["model"])
                if not inspec:
                    res["C09"].count("out-of-spec-index-steps")
                if c.meta.get("v") == "off-invariant":
                    res["C09"].count("off-invariant-state-steps")
                if inspec and not legal and c.consistent():
                    res["C05"].evaluations += 1
                    res["C05"].distinct.add(key)
                    why = "depot-while-at-depot" if a == 0 else "served-customer" if c.vis[a] else "demand>capacity"
                    res["C05"].count("illegal:" + why)
                    untouched = (int(s2.position) == c.pos and int(s2.capacity) == c.cap and np.array_equal(s2.visited_mask, c.vis)
                                 and np.array_equal(s2.trajectory, c.traj) and int(s2.num_total_visits) == c.nvis
                                 and np.array_equal(s2.demands, c.dem) and np.array_equal(s2.coordinates, c.coords))
                    doc = -2 * n * 2 ** 0.5
                    if not (int(ts2.step_type) == 2 and float(ts2.discount) == 0.0 and untouched and abs(float(ts2.reward) - doc) <= 1e-5 * max(1.0, -doc)):
                        kit.fail(["C05"], "illegal node: not (LAST, reward -2*num_nodes*sqrt(2), state untouched)", dict(cfg=m["cfg"], op="illegal-effect"),
                                 dict(m, action=a, state=c.brief(), step_type=int(ts2.step_type), reward=float(ts2.reward), documented=doc, seed=kit.seed))
                if inspec and c.mask is not None and c.consistent() and m["model"] == "float32":
                    # C04 judged by the environment's own reaction: mask[a] <=> the node is really visited
                    reacted = int(s2.num_total_visits) == c.nvis + 1 and int(s2.position) == a
                    res["C04"].distinct.add(key[:-1])
                    res["C04"].count("mask:%d/env-accepts:%d" % (int(c.mask[a]), int(reacted)))
                    if bool(c.mask[a]) != reacted or bool(c.mask[a]) != legal:
                        kit.fail(["C04"], "mask entry disagrees with the environment's reaction / the rules", dict(cfg=m["cfg"], op="mask-vs-reaction"),
                                 dict(m, action=a, state=c.brief(), mask=il(c.mask), accepted=reacted, legal=legal, seed=kit.seed))
                if bad:
                    pids = {"C09"}
                    if "action_mask" in bad:
                        pids |= {"C04", "C12"}
                    if any(b.startswith("obs.") for b in bad):
                        pids.add("C12")
                    if inspec and not legal:
                        pids.add("C05")
                    if "reward" in bad:
                        pids.add("C08")
                    if "capacity" in bad or "visited_mask" in bad:
                        pids.add("C06")
                    if "step_type" in bad or "discount" in bad:
                        pids |= {"C03", "C11"}
                    kit.fail(sorted(pids), "model and implementation disagree on step (fields %s)" % ",".join(bad),
                             dict(cfg=m["cfg"], op="corr-step", fields=",".join(bad), model=m["model"]),
                             dict(m, action=a, state=c.brief(), model_out=g, impl=e, seed=kit.seed))
        elif kind == "init":
            n = m["n"]
            bad = envkit.diff_fields(layout(n) + [("valid_draw", 1)], got, exp)
            res["C10"].evaluations += 1
            res["C10"].distinct.add((m["cfg"], m.get("src"), m.get("p"), m.get("b"), m.get("ep"), m.get("key")))
            if bad:
                kit.fail(["C10"] + (["C01"] if "valid_draw" in bad else []),
                         "reset state is not init(draws) / demands outside [1,max_demand] / coordinates outside [0,1) (fields %s)" % ",".join(bad),
                         dict(cfg=m["cfg"], op="corr-init", fields=",".join(bad)), dict(m, model=got, impl=exp, seed=kit.seed))
        elif kind == "check":
            c = extra
            n = m["n"]
            mask_ok, feas, inst, rng_ok, complete, ncust, load, travelled, route_len, tour_len, diag0 = got
            res["C04"].evaluations += 1
            res["C12"].evaluations += 1
            if mask_ok != 1:
                kit.fail(["C04", "C12"], "action mask is not {depot iff away from it} + {unserved customers with demand <= capacity} (verified checker on implementation state)",
                         dict(cfg=m["cfg"], op="mask-exact"), dict(m, state=c.brief(), mask=il(c.mask), seed=kit.seed))
            if m.get("mask_only"):
                continue
            res["C01"].evaluations += 1
            if rng_ok != 1:
                kit.fail(["C01"], "state outside the declared observation ranges / shapes", dict(cfg=m["cfg"], op="ranges"), dict(m, state=c.brief(), seed=kit.seed))
            res["C10"].evaluations += 1
            if inst != 1:
                kit.fail(["C10"], "instance not well-formed (depot demand 0, demands in [1,max_demand], max_demand <= max_capacity)", dict(cfg=m["cfg"], op="instance"),
                         dict(m, state=c.brief(), seed=kit.seed))
            # C06: the hard constraints, on EVERY state met (an illegal node ends the episode and changes nothing)
            res["C06"].evaluations += 1
            res["C06"].distinct.add((m["cfg"],) + c.key())
            res["C06"].count("load:%s" % ("==capacity" if load == m["mc"] else "==0" if load == 0 else "between"))
            if feas != 1 or load > m["mc"] or load != m["mc"] - c.cap or diag0 != 1:
                kit.fail(["C06"], "state violates the hard constraints (load <= capacity, capacity = max - load, no customer twice, visited = route, trajectory = route)",
                         dict(cfg=m["cfg"], op="feasible"), dict(m, state=c.brief(), load=load, feasible=feas, seed=kit.seed))
            if m["final"]:
                if m["last_legal"]:
                    res["C06"].count("completed-episodes")
                    if complete != 1 or ncust != n:
                        kit.fail(["C06", "C11"], "episode ended after a legal node although not every customer is served / not back at the depot",
                                 dict(cfg=m["cfg"], op="complete"), dict(m, state=c.brief(), seed=kit.seed))
                    if sorted(a for a in m["route"] if a != 0) != list(range(1, n + 1)):
                        kit.fail(["C06"], "completed route does not serve every customer exactly once", dict(cfg=m["cfg"], op="route-perm"), dict(m, seed=kit.seed))
                if m["all_legal"] and m["last_legal"]:
                    # C08: return == -(route length incl. return to the depot), recomputed from the final state; dense == sparse
                    res["C08"].evaluations += 1
                    res["C08"].distinct.add((m["cfg"],) + c.key())
                    pts = [0] + list(m["route"]) + [0]
                    c64 = np.asarray(c.coords, np.float64)
                    f64 = float(sum(np.sqrt(((c64[pts[i]] - c64[pts[i + 1]]) ** 2).sum()) for i in range(len(pts) - 1)))
                    if abs(f64 * SC - route_len) > 1e-5 * SC:
                        kit.fail(["C08"], "verified route length disagrees with the float64 recomputation from the coordinates", dict(cfg=m["cfg"], op="objective-f64"),
                                 dict(m, f64=f64, route_len=route_len / SC, seed=kit.seed))
                    if tour_len != route_len:
                        kit.fail(["C08"], "tour_length(trajectory array) != length of the route actually driven", dict(cfg=m["cfg"], op="trajectory-objective"),
                                 dict(m, tour_len=tour_len / SC, route_len=route_len / SC, state=c.brief(), seed=kit.seed))
                    ulp = max(SC, route_len) >> 23
                    res["C08"].count("dense-return:%s" % ("exact" if m["ret_dense"] == -route_len else "within-tolerance"))
                    res["C08"].count("sparse-return:%s" % ("exact" if m["ret_sparse"] == -route_len else "within-tolerance"))
                    if abs(m["ret_dense"] + route_len) > (2 * n + 2) * ulp or abs(m["ret_sparse"] + route_len) > (2 * n + 2) * ulp:
                        kit.fail(["C08"], "episode return != -(route length incl. return to the depot)", dict(cfg=m["cfg"], op="objective"),
                                 dict(m, dense=m["ret_dense"] / SC, sparse_ret=m["ret_sparse"] / SC, route_len=route_len / SC, seed=kit.seed))
                    res["C08"].count("dense-vs-sparse-compared")
                    if abs(m["ret_dense"] - m["ret_sparse"]) > (2 * n + 2) * ulp:
                        kit.fail(["C08"], "dense and sparse returns differ on the same legal trajectory", dict(cfg=m["cfg"], op="dense-vs-sparse"),
                                 dict(m, dense=m["ret_dense"] / SC, sparse_ret=m["ret_sparse"] / SC, seed=kit.seed))
        elif kind == "penalty":
            res["C05"].evaluations += 1
            res["C05"].count("penalty-within-2ulp-of-2n*sqrt2 (verified penalty_b)")
            if got != [1]:
                kit.fail(["C05"], "the invalid-action reward is not -2*num_nodes*sqrt(2)", dict(cfg=m["cfg"], op="penalty"), dict(m, seed=kit.seed))
        elif kind == "rne":
            res["C09"].evaluations += 1
            if got != exp:
                badx = [(x, g, e) for x, g, e in zip(args, got, exp) if g != e][:3]
                kit.fail(["C09"], "model rounding rne24 differs from numpy float32 rounding", dict(op="rne24"), dict(examples=badx))
    tot = res["C10"].dist.get("customer-demands-drawn (configs with max_demand > 1)", 0)
    if tot and res["C10"].dist.get("customer-demand==max_demand (configs with max_demand > 1)", 0) == 0:
        res["C10"].notes.append("note (not a failure): docs say demands are sampled from [1, max_demand]; generator.py calls randint(minval=1, "
                                "maxval=max_demand) whose upper bound is exclusive: max_demand itself was never drawn in %d customer demands "
                                "(max_demand=1 still yields 1). 'demands <= capacity' holds either way." % tot)
    for pid in PROPS:
        res[pid].traces += len(calls)
        if not res[pid].samples:
            res[pid].samples.append(dict(env=NAME, example={k: v for k, v in metas[min(5, len(metas) - 1)][1].items() if k not in ("state", "route")}))
