"""FlatPack: correspondence with coq/Model/FlatPack.v + verified checkers on implementation states.

- every transition of the rollouts (mask-respecting and 35 %-uniform) is replayed in the extracted model and
  compared field by field (grid, blocks, action_mask, placed_blocks, step_count, num_blocks, step type,
  reward numerator, discount); reset states against `init`
- on small action spaces EVERY in-spec action (plus a fixed set of out-of-spec index tuples exercising JAX's
  clamp / wrap / drop semantics) is played from visited states on the real env (vmapped jitted step) and replayed
- verified checkers on implementation states: mask = declarative legal set, feasible packing, well-formed instance
- generator: draws recovered from the implementation's own intermediate grids, model generator replayed;
  `tiling_ok_b` on the implementation's solved grid; a complete solution inside the action space is searched
  in Python and validated by the verified `tiles_b` / `plays_b`; exhaustive failure is confirmed by the model's
  verified `solvable_b` (completeness theorem in Proofs/FlatPack_Solve.v)
- generator's OWN solution (block k back at the corner of its bounding box, rotation undone): the verified condition
  `own_ok_b` (Proofs/FlatPack_OwnSol.v: own solution tiles / is playable <-> own_ok_b, for all sizes and draws) is
  evaluated on the model's solved grid and recomputed with numpy on the implementation's; when it holds the own
  solution is PLAYED on the real env (every action accepted by the mask, final grid = the generator's solved grid)
  and the Python search must have found a solution; when it fails the instance is only counted (the unsolvable ones
  are reported by the exhaustive search as before)
Rewards: the model yields the integer numerator (cells of the placed block / 1 per block); the float32 value is
compared as round(reward*den) exactly plus |reward - num/den| <= 1e-6."""
import numpy as np

from harness import envkit

NAME = "flat_pack"
PROPS = ["C01", "C03", "C04", "C05", "C06", "C08", "C09", "C10", "C11", "C12"]
APPLIES = PROPS
R_ = envkit.R


def extra_configs(tier, add):
    import jumanji.environments as E
    from jumanji.environments.packing.flat_pack import generator as G, reward as RW
    rnd = G.RandomFlatPackGenerator
    add("r1c1", lambda: E.FlatPack(generator=rnd(1, 1)), 3, batch=3)  # steps < 4: keeps the C02 mode harness on its catalog config
    add("r1c3-block", lambda: E.FlatPack(generator=rnd(1, 3), reward_fn=RW.BlockDenseReward()), 7)
    add("r2c2", lambda: E.FlatPack(generator=rnd(2, 2)), 7, batch=8)
    add("r2c1", lambda: E.FlatPack(generator=rnd(2, 1)), 5, batch=4)   # non-square grid with the CELL reward (rows*cols != rows^2, cols^2)
    add("r1c2", lambda: E.FlatPack(generator=rnd(1, 2)), 5, batch=4)
    add("toy-norot-block", lambda: E.FlatPack(generator=G.ToyFlatPackGeneratorNoRotation(), reward_fn=RW.BlockDenseReward()), 7, batch=4)
    add("r3c3", lambda: E.FlatPack(generator=rnd(3, 3)), 12)
    if tier != "quick":
        add("r3c1", lambda: E.FlatPack(generator=rnd(3, 1)), 7)
        add("r2c2-block", lambda: E.FlatPack(generator=rnd(2, 2), reward_fn=RW.BlockDenseReward()), 7)
        add("r4c2", lambda: E.FlatPack(generator=rnd(4, 2)), 10)
        add("r3c4-block", lambda: E.FlatPack(generator=rnd(3, 4), reward_fn=RW.BlockDenseReward()), 14)


# ---------------------------------------------------------------- encoding
def dims(env):
    from jumanji.environments.packing.flat_pack.reward import BlockDenseReward
    return env.num_rows, env.num_cols, env.num_blocks, (1 if isinstance(env.reward_fn, BlockDenseReward) else 0)


def ints(x):
    return np.asarray(x).astype(np.int64).reshape(-1).tolist()


def enc_state(s):
    return (ints(s.grid) + ints(s.blocks) + ints(np.asarray(s.action_mask).astype(np.int64)) + ints(np.asarray(s.placed_blocks).astype(np.int64))
            + [int(s.step_count), int(s.num_blocks)])


def layout(R, C, N):
    return [("grid", R * C), ("blocks", N * 9), ("action_mask", N * 4 * (R - 2) * (C - 2)), ("placed_blocks", N),
            ("step_count", 1), ("num_blocks", 1), ("step_type", 1), ("reward", 1), ("discount", 1)]


def den(R, C, N, K):
    return N if K == 1 else R * C


def enc_out(s2, ts, d):
    r = float(ts.reward)
    return enc_state(s2) + [int(ts.step_type), int(round(r * d)), int(round(float(ts.discount)))]


STATE_FIELDS = {"grid", "blocks", "placed_blocks", "step_count", "num_blocks"}


# ---------------------------------------------------------------- generator trace (implementation side)
def make_gen_trace(gen):
    """jitted: key -> (base grid, grids after each column interlock, grids after each row interlock) using the
    generator's OWN methods in the order of RandomFlatPackGenerator.__call__"""
    import jax
    import jax.numpy as jnp
    from jumanji.environments.packing.flat_pack.utils import compute_grid_dim, get_significant_idxs
    R, C = compute_grid_dim(gen.num_row_blocks), compute_grid_dim(gen.num_col_blocks)
    ri, ci = get_significant_idxs(R), get_significant_idxs(C)

    def f(key):
        grid = jnp.ones((R, C), dtype=jnp.int32)
        (grid, _), _ = jax.lax.scan(gen._fill_grid_columns, (grid, 1), ci)
        (grid, _, _), _ = jax.lax.scan(gen._fill_grid_rows, (grid, gen.num_col_blocks, gen.num_col_blocks), ri)
        base = grid

        def cb(c, x):
            c2, _ = gen._select_col_interlocks(c, x)
            return c2, c2[0]

        def rb(c, x):
            c2, _ = gen._select_row_interlocks(c, x)
            return c2, c2[0]
        (grid, key), gc = jax.lax.scan(cb, (grid, key), ci)
        (grid, key), gr = jax.lax.scan(rb, (grid, key), ri)
        return base, gc, gr, grid
    return jax.jit(f), [int(x) for x in np.asarray(ri)], [int(x) for x in np.asarray(ci)]


def np_rot(b, k):
    return [b, np.flip(b.T, 1), np.flip(np.flip(b, 0), 1), np.flip(b.T, 0)][k]


def recover_draws(base, gc, gr, ri, ci, blocks):
    """-> (col draws, row draws, rotations, permutation, ok)"""
    ok = True
    cur = base
    cd, rd = [], []
    for t, v in enumerate(ci):
        new = gc[t]
        d = []
        for i in range(cur.shape[0]):
            left, right = cur[i, v - 1], cur[i, v + 1]
            ok &= new[i, v] in (left, right)
            d.append(1 if new[i, v] == left else 0)
        cd.append(d)
        cur = new
    for t, v in enumerate(ri):
        new = gr[t]
        d = []
        for j in range(cur.shape[1]):
            up, dn = cur[v - 1, j], cur[v + 1, j]
            ok &= new[v, j] in (up, dn)
            d.append(1 if new[v, j] == up else 0)
        rd.append(d)
        cur = new
    solved = cur
    N = blocks.shape[0]
    perm = [int(blocks[p].max()) - 1 for p in range(N)]
    rots = [0] * N
    for p in range(N):
        k = perm[p]
        if not (0 <= k < N):
            ok = False
            continue
        cells = np.argwhere(solved == k + 1)
        if len(cells) == 0:
            ok = False
            continue
        r0, c0 = cells[:, 0].min(), cells[:, 1].min()
        crop = np.zeros((3, 3), dtype=np.int64)
        for (i, j) in cells:
            if i - r0 < 3 and j - c0 < 3:
                crop[i - r0, j - c0] = k + 1
        hit = [q for q in range(4) if np.array_equal(np_rot(crop, q), blocks[p])]
        if hit:
            rots[k] = hit[0]
        else:
            ok = False
    return cd, rd, rots, perm, solved, ok


# ---------------------------------------------------------------- python-side solution search (untrusted; validated by the model)
def find_solution(blocks, R, C, budget=400000):
    """exact-cover DFS with bitsets -> (list of (k, r, c) per block index | None, exhausted_search: bool)"""
    N = len(blocks)
    cover = {}
    for b in range(N):
        seen = set()
        for k in range(4):
            rb = np_rot(blocks[b], k) != 0
            for r in range(R - 2):
                for c in range(C - 2):
                    m = 0
                    for i in range(3):
                        for j in range(3):
                            if rb[i, j]:
                                m |= 1 << ((r + i) * C + (c + j))
                    if m == 0 or m in seen:
                        continue
                    seen.add(m)
                    low = (m & -m).bit_length() - 1
                    cover.setdefault(low, []).append((b, k, r, c, m))
    full = (1 << (R * C)) - 1
    used = [False] * N
    sol = [None] * N
    nodes = [0]

    def dfs(occ):
        if occ == full:
            return True
        free = ~occ & full
        low = (free & -free).bit_length() - 1
        for (b, k, r, c, m) in cover.get(low, ()):
            if used[b] or (occ & m):
                continue
            nodes[0] += 1
            if nodes[0] > budget:
                raise TimeoutError
            used[b] = True
            sol[b] = (k, r, c)
            if dfs(occ | m):
                return True
            used[b] = False
            sol[b] = None
        return False
    try:
        if dfs(0) and all(x is not None for x in sol):
            return sol, True
        return None, True
    except TimeoutError:
        return None, False


OOS_ACTIONS = lambda R, C, N: [  # out-of-spec index tuples: gather clamp / negative wrap / scatter drop / dus clamp
    (N, 0, 0, 0), (-1, 0, 0, 0), (0, 4, 0, 0), (0, -1, 0, 0), (0, 0, R - 2, 0), (0, 0, -1, 0), (0, 0, -2, 0),
    (0, 0, 0, C - 2), (0, 0, 0, -1), (0, 1, R, C + 3), (N + 2, 7, -R, -C)]


def analyze(kit):
    import jax
    import jax.numpy as jnp
    from jumanji.environments.packing.flat_pack import generator as G
    q = kit.tier == "quick"
    calls, metas = [], []
    res = kit.res

    def add(entry, args, kind, lay, exp, meta):
        calls.append((entry, args))
        metas.append((kind, lay, exp, meta))

    toy_seen = {}
    for cfg in kit.configs():
        env = kit.env(cfg)
        R, C, N, K = dims(env)
        ecfg = [R, C, N, K]
        d = den(R, C, N, K)
        lay = layout(R, C, N)
        nact = N * 4 * (R - 2) * (C - 2)
        big = nact > 1500
        label = cfg["label"]
        step_all = None
        step_one = None
        for p in (0.0, 0.35):
            roll = kit.roll(cfg, p)
            _, st, ts, ac, fl, k0 = roll
            B, T = ac.shape[0], ac.shape[1]
            for b in range(B):
                s0, ts0 = R_.slice_tree(st, b, 0), R_.slice_tree(ts, b, 0)
                add("flat_pack_init_io", ecfg + ints(s0.blocks), "init", lay, enc_out(s0, ts0, d), dict(cfg=label, p=p, b=b, t=0, seed=kit.seed))
                # ---- episode-level: C11 horizon, C08 return
                end = int(fl[b])
                res["C11"].evaluations += 1
                res["C11"].distinct.add((label, p, b))
                res["C11"].count("episodes")
                if end != N:
                    kit.fail(["C11"], "first LAST at step %d, structural horizon is num_blocks = %d" % (end, N),
                             dict(cfg=label, op="horizon"), dict(cfg=label, p=p, b=b, seed=kit.seed, step_types=ts.step_type[b].tolist()))
                if end <= T:
                    ret = float(np.sum(np.asarray(ts.reward[b, 1:end + 1], dtype=np.float64)))
                    gfin = np.asarray(st.grid[b, end])
                    obj = (np.count_nonzero(gfin) / float(R * C)) if K == 0 else (np.count_nonzero(np.asarray(st.placed_blocks[b, end])) / float(N))
                    res["C08"].evaluations += 1
                    res["C08"].distinct.add((label, p, b))
                    res["C08"].count("cell-dense" if K == 0 else "block-dense")
                    if abs(ret - obj) > 1e-5:
                        kit.fail(["C08"], "episode return != documented objective recomputed from the final state",
                                 dict(cfg=label, op="objective"), dict(cfg=label, p=p, b=b, seed=kit.seed, ret=ret, objective=obj, kind=K))
            trs = list(kit.transitions(roll, upto_last=False))
            if big:
                # the default 11x11 instance has 8100 mask entries per state: replay every transition up to LAST + 3 after it
                trs = [x for x in trs if x[1] < fl[x[0]] + 3]
            for (b, t, s, a, s2, ts2) in trs:
                a = [int(x) for x in a]
                legal = bool(np.asarray(s.action_mask)[a[0], a[1], a[2], a[3]])
                e = ecfg + enc_state(s)
                meta = dict(cfg=label, p=p, b=b, t=t, action=a, legal=legal, seed=kit.seed, kind="rollout")
                add("flat_pack_step_io", e + a, "step", lay, enc_out(s2, ts2, d), dict(meta, rew=float(ts2.reward), den=d))
                if (not big) or (t % 4 == b % 4):
                    add("flat_pack_check_io", e, "check", None, None, dict(meta, legal_so_far=(p == 0.0),
                                                                        filled=int(np.count_nonzero(np.asarray(s.grid))), nplaced=int(np.sum(np.asarray(s.placed_blocks)))))
                o = ts2.observation
                res["C12"].evaluations += 1
                res["C12"].distinct.add((label, p, b, t))
                if not (np.array_equal(o.grid, s2.grid) and np.array_equal(o.blocks, s2.blocks) and np.array_equal(o.action_mask, s2.action_mask)):
                    kit.fail(["C12"], "observation differs from the state it views", dict(cfg=label, op="obs-copy"), dict(cfg=label, p=p, b=b, t=t, seed=kit.seed))
            # ---- every action (small action spaces) from visited states, judged by the env's own reaction
            if not big:
                acts = np.array([(bb, k, r, c) for bb in range(N) for k in range(4) for r in range(R - 2) for c in range(C - 2)]
                                + OOS_ACTIONS(R, C, N), dtype=np.int32)
                if step_all is None:
                    step_all = jax.jit(jax.vmap(env.step, in_axes=(None, 0)))
                picks = [(b, t) for b in range(B) for t in range(min(T, N + 1))]
                kit.rng.shuffle(picks)
                picks = picks[:(3 if q else 40)] if nact > 200 else picks[:(10 if q else 120)]
                for (b, t) in picks:
                    s = R_.slice_tree(st, b, t)
                    sj = jax.tree_util.tree_map(jnp.asarray, s)
                    ns, nts = step_all(sj, jnp.asarray(acts))
                    ns, nts = jax.tree_util.tree_map(np.asarray, (ns, nts))
                    e = ecfg + enc_state(s)
                    m = np.asarray(s.action_mask)
                    for ai in range(len(acts)):
                        a = [int(x) for x in acts[ai]]
                        inspec = ai < nact
                        s2, ts2 = R_.slice_tree(ns, ai), R_.slice_tree(nts, ai)
                        legal = bool(m[a[0], a[1], a[2], a[3]]) if inspec else None
                        meta = dict(cfg=label, p=p, b=b, t=t, action=a, legal=legal, seed=kit.seed, kind="all-actions" if inspec else "out-of-spec",
                                    rew=float(ts2.reward), den=d)
                        add("flat_pack_step_io", e + a, "step", lay, enc_out(s2, ts2, d), meta)
                        if inspec:
                            # the env's own reaction: a block appeared <=> the mask allowed it
                            placed_now = not np.array_equal(s2.grid, s.grid) or not np.array_equal(s2.placed_blocks, s.placed_blocks)
                            res["C04"].evaluations += 1
                            res["C04"].count("reaction-legal" if legal else "reaction-illegal")
                            if placed_now != legal:
                                kit.fail(["C04", "C05"] if not legal else ["C04"], "mask entry and the environment's reaction to the action disagree",
                                         dict(cfg=label, op="reaction"), dict(meta, placed=placed_now))
                            if not legal:
                                res["C05"].evaluations += 1
                                res["C05"].distinct.add((label, p, b, t, ai))
                                cont = int(ts2.step_type) == (2 if int(s.step_count) + 1 >= N else 1)
                                if placed_now or float(ts2.reward) != 0.0 or not cont or not np.array_equal(s2.action_mask, s.action_mask):
                                    kit.fail(["C05"], "illegal placement had an effect (grid/placed/mask changed, reward != 0 or wrong step type)",
                                             dict(cfg=label, op="ignored"), dict(meta, step_type=int(ts2.step_type)))
        # ---- generator (C10)
        gen = env.generator
        nkeys = (24 if q else 200) if not big else (6 if q else 40)
        if isinstance(gen, G.RandomFlatPackGenerator):
            nrb, ncb = gen.num_row_blocks, gen.num_col_blocks
            trace, ri, ci = make_gen_trace(gen)
            keys = jax.random.split(jax.random.PRNGKey(kit.seed * 131 + 17), nkeys)
            reset = jax.jit(env.reset)
            distinct_sets = set()
            for ki in range(nkeys):
                key = keys[ki]
                s0, _ = reset(key)
                blocks = np.asarray(s0.blocks).astype(np.int64)
                base, gc, gr, solved = [np.asarray(x).astype(np.int64) for x in trace(key)]
                cd, rd, rots, perm, solved2, ok = recover_draws(base, gc, gr, ri, ci, blocks)
                distinct_sets.add(blocks.tobytes())
                meta = dict(cfg=label, key=[int(x) for x in np.asarray(key)], nrb=nrb, ncb=ncb, seed=kit.seed)
                res["C10"].evaluations += 1
                res["C10"].distinct.add((label, ki))
                if not ok or not np.array_equal(solved, solved2):
                    kit.fail(["C10"], "could not recover the generator's draws from its own intermediate grids (an interlock value is neither neighbour, or a block is no rotation of its crop)",
                             dict(cfg=label, op="draws"), dict(meta, solved=solved.tolist(), blocks=blocks.tolist()))
                    # an instance that is not even the generator's documented construction: the concrete failing input is reported
                    # above; the model replay / verified searches below assume a well-formed instance (and may not terminate quickly)
                    continue
                args = [nrb, ncb] + [x for dd in cd for x in dd] + [x for dd in rd for x in dd] + rots + perm
                add("flat_pack_gen_io", args, "gen", [("valid_draw", 1), ("base_grid", R * C), ("solved_grid", R * C), ("tiling_ok", 1), ("blocks", N * 9)],
                    [1] + ints(base) + ints(solved) + [1] + ints(blocks), meta)
                add("flat_pack_tiling_io", [nrb, ncb] + ints(solved), "tiling", None, [1], dict(meta, solved=solved.tolist()))
                sol, exhausted = find_solution(blocks, R, C, budget=(150000 if q else 2000000))
                # ---- the generator's own solution (numpy, from the implementation's solved grid) and its play on the real env
                own = []
                for p_ in range(N):
                    cells = np.argwhere(solved == perm[p_] + 1)
                    own.append(((4 - rots[perm[p_]]) % 4, int(cells[:, 0].min()), int(cells[:, 1].min())) if ok and len(cells) else (0, 0, 0))
                own_ok = bool(ok and all(r0 <= R - 3 and c0 <= C - 3 for (_, r0, c0) in own))
                played = None
                if own_ok:
                    if step_one is None:
                        step_one = jax.jit(env.step)
                    s_cur, played = s0, True
                    for p_, (kk, r0, c0) in enumerate(own):
                        if not bool(np.asarray(s_cur.action_mask)[p_, kk, r0, c0]):
                            played = False
                            break
                        s_cur, _ = step_one(s_cur, jnp.asarray([p_, kk, r0, c0], jnp.int32))
                    if played and not np.array_equal(np.asarray(s_cur.grid), solved):
                        played = False
                    if not played:
                        kit.fail(["C10"], "the generator's own solution lies in the action space but is NOT playable on the real env (a placement masked out, or the final grid differs from the solved grid)",
                                 dict(cfg=label, op="own-solution-play"), dict(meta, own=own, blocks=blocks.tolist(), solved=solved.tolist()))
                res["C10"].count("own-solution-playable" if own_ok else "own-solution-outside-action-space")
                add("flat_pack_ownsol_io", args, "ownsol", None, None,
                    dict(meta, own=[list(x) for x in own], own_ok=own_ok, py_solved=(sol is not None), py_exhausted=exhausted, ok=ok))
                if sol is not None:
                    add("flat_pack_solution_io", ecfg + ints(blocks) + [x for krc in sol for x in krc], "solution", None, [1, 1], dict(meta, sol=sol, blocks=blocks.tolist()))
                    res["C10"].count("solvable")
                elif exhausted:
                    res["C10"].count("unsolvable")
                    m2 = dict(meta, blocks=blocks.tolist(), solved_grid=solved.tolist(),
                              repro="gen=RandomFlatPackGenerator(%d,%d); s=gen(jnp.asarray(%s,dtype=jnp.uint32)); exhaustive search over (block,rotation,row<=R-3,col<=C-3) finds no exact tiling" % (nrb, ncb, meta["key"]))
                    if int((blocks != 0).sum()) != R * C:
                        kit.fail(["C10"], "generated block set cannot tile the grid: its cells do not add up to the grid area",
                                 dict(cfg=label, op="unsolvable-instance"), dict(m2, cells=int((blocks != 0).sum()), area=R * C))
                    elif N <= 6:
                        add("flat_pack_solvable_io", ecfg + ints(blocks), "solvable", None, [1], m2)
                    else:
                        kit.fail(["C10"], "generated block set admits NO complete solution inside the action space (exhaustive python search; instance too large for the verified search)",
                                 dict(cfg=label, op="unsolvable-instance"), m2)
                else:
                    res["C10"].count("search-budget-exhausted")
            res["C10"].evaluations += 1
            if len(distinct_sets) < 2 and N > 1:
                kit.fail(["C10"], "random generator returned the same block set for every key", dict(cfg=label, op="key-dependence"), dict(cfg=label, keys=nkeys))
        else:
            s0, _ = jax.jit(env.reset)(jax.random.PRNGKey(kit.seed))
            blocks = np.asarray(s0.blocks).astype(np.int64)
            toy_seen[label] = ("rot" if isinstance(gen, G.ToyFlatPackGeneratorWithRotation) else "norot", blocks)
            sol, exhausted = find_solution(blocks, R, C)
            res["C10"].evaluations += 1
            res["C10"].distinct.add((label, 0))
            if sol is not None:
                add("flat_pack_solution_io", ecfg + ints(blocks) + [x for krc in sol for x in krc], "solution", None, [1, 1], dict(cfg=label, sol=sol, blocks=blocks.tolist()))
            else:
                kit.fail(["C10"], "toy instance has no complete solution", dict(cfg=label, op="unsolvable-instance"), dict(cfg=label, blocks=blocks.tolist()))
    if toy_seen:
        add("flat_pack_toy_io", [], "toy", None, None, dict(toy={k: (v[0], v[1].tolist()) for k, v in toy_seen.items()}))

    # primitive level: rotate_block and _expand_block_to_grid on random blocks / offsets (incl. out-of-range starts)
    from jumanji.environments.packing.flat_pack.utils import rotate_block
    rot_j = jax.jit(rotate_block)
    for _ in range(40 if q else 400):
        blk = kit.rng.integers(0, 5, size=(3, 3))
        k = int(kit.rng.integers(-2, 7))
        got = np.asarray(rot_j(jnp.asarray(blk, jnp.int32), k))
        kk = min(3, max(0, k))
        add("flat_pack_rotate_io", ints(blk) + [k], "rotate", None, ints(got) + ints(np.rot90(blk, -kk)), dict(block=blk.tolist(), k=k))
    for cfg in kit.configs()[:3]:
        env = kit.env(cfg)
        R, C, N, K = dims(env)
        ex = jax.jit(env._expand_block_to_grid)
        for _ in range(12 if q else 100):
            blk = kit.rng.integers(0, 5, size=(3, 3))
            r, c = int(kit.rng.integers(-R - 1, R + 2)), int(kit.rng.integers(-C - 1, C + 2))
            got = np.asarray(ex(jnp.asarray(blk, jnp.int32), r, c))
            add("flat_pack_expand_io", [R, C] + ints(blk) + [r, c], "expand", None, ints(got), dict(cfg=cfg["label"], block=blk.tolist(), r=r, c=c))

    outs = kit.model(calls)
    for (entry, args), (kind, lay, exp, m), got in zip(calls, metas, outs):
        if kind in ("step", "init"):
            bad = envkit.diff_fields(lay, got, exp)
            for pid in ("C09", "C04"):
                res[pid].evaluations += 1
            res["C09"].distinct.add((m["cfg"], m["p"], m["b"], m["t"], tuple(m.get("action", ()))))
            res["C09"].count(m.get("kind", "reset"))
            illegal = kind == "step" and m["legal"] is False
            if illegal:
                res["C05"].evaluations += 1
                res["C05"].distinct.add((m["cfg"], m["p"], m["b"], m["t"], tuple(m["action"])))
                res["C05"].count("illegal-action-steps")
            if kind == "step":
                num = got[-2]
                res["C08"].evaluations += 1
                if abs(m["rew"] - num / float(m["den"])) > 1e-6:
                    kit.fail(["C08", "C09"], "float reward differs from model numerator / denominator", dict(cfg=m["cfg"], op="reward-float"), dict(m, model_num=num))
            if bad:
                pids = {"C09"}
                if "action_mask" in bad:
                    pids.add("C04")
                if illegal and (set(bad) & (STATE_FIELDS | {"step_type", "reward"})):
                    pids.add("C05")
                if "reward" in bad:
                    pids.add("C08")
                if set(bad) & {"step_type", "discount"}:
                    pids |= {"C03", "C11"}
                small = dict(m)
                if len(got) < 400:
                    small.update(model=got, impl=exp)
                else:
                    i = next((j for j in range(min(len(got), len(exp))) if got[j] != exp[j]), -1)
                    small.update(first_diff=i, model_at=got[i:i + 12], impl_at=exp[i:i + 12])
                kit.fail(sorted(pids), "model and implementation disagree on %s (fields %s)" % (kind, ",".join(bad)),
                         dict(cfg=m["cfg"], op="corr-" + kind, fields=",".join(bad)), small)
        elif kind == "check":
            key = (m["cfg"], m["p"], m["b"], m["t"])
            res["C04"].evaluations += 1
            res["C04"].distinct.add(key)
            if got[0] != 1 or got[4] != 1:
                kit.fail(["C04"], "stored action mask is not the set of legal placements (verified checker on implementation state)",
                         dict(cfg=m["cfg"], op="mask-exact"), dict(m, checks=got))
            res["C06"].evaluations += 1
            res["C06"].distinct.add(key)
            res["C06"].count("mask-respecting" if m["legal_so_far"] else "with-illegal-attempts")
            if got[1] != 1:
                kit.fail(["C06"], "grid is not an overlap-free packing of the placed blocks inside the grid", dict(cfg=m["cfg"], op="feasible"), dict(m, checks=got))
            res["C10"].evaluations += 1
            if got[2] != 1:
                kit.fail(["C10"], "instance not well-formed (3x3 blocks with distinct ids 1..N)", dict(cfg=m["cfg"], op="inst-wf"), dict(m, checks=got))
            res["C01"].evaluations += 1
            res["C01"].distinct.add(key)
            if got[3] != 1:
                kit.fail(["C01"], "grid shape / value range 0..num_blocks violated", dict(cfg=m["cfg"], op="grid-range"), dict(m, checks=got))
            if got[5] != m["filled"] or got[6] != m["nplaced"]:
                kit.fail(["C08"], "model's filled-cell / placed-block count differs from numpy's", dict(cfg=m["cfg"], op="count"), dict(m, checks=got))
        elif kind == "gen":
            bad = envkit.diff_fields(lay, got, exp)
            res["C10"].evaluations += 1
            res["C10"].count("generator-replayed")
            if bad:
                kit.fail(["C10"], "generator model on the recovered draws disagrees with the implementation (fields %s)" % ",".join(bad),
                         dict(cfg=m["cfg"], op="corr-gen", fields=",".join(bad)), dict(m, model=got[:200], impl=exp[:200]))
        elif kind == "tiling":
            res["C10"].evaluations += 1
            if got != [1]:
                kit.fail(["C10"], "the generator's solved grid is not an exact tiling by connected blocks fitting their 3x3 windows",
                         dict(cfg=m["cfg"], op="tiling"), m)
        elif kind == "ownsol":
            res["C10"].evaluations += 1
            res["C10"].count("own-solution-checked")
            n3 = len(got) - 3
            mown = [got[3 + 3 * t: 6 + 3 * t] for t in range(n3 // 3)]
            if m["ok"] and (got[0] != int(m["own_ok"]) or mown != m["own"]):
                kit.fail(["C10"], "model's own solution / own_ok_b differs from the one recomputed on the implementation's solved grid",
                         dict(cfg=m["cfg"], op="corr-ownsol"), dict(m, model=got))
            if not (got[0] == got[1] == got[2]):
                kit.fail(["C10"], "own_ok_b, tiles_b and plays_b of the own solution disagree (contradicts random_generator_own_solution)",
                         dict(cfg=m["cfg"], op="ownsol-theorem"), dict(m, model=got[:3]))
            if got[0] == 1 and not m["py_solved"] and m["py_exhausted"]:
                kit.fail(["C10"], "own_ok_b holds but the exhaustive python search found no solution (harness search is wrong)",
                         dict(cfg=m["cfg"], op="harness-search"), dict(m, model=got[:3]))
        elif kind == "solution":
            res["C10"].evaluations += 1
            res["C06"].evaluations += 1
            if got != [1, 1]:
                kit.fail(["C10"], "python-found solution rejected by the verified checker (tiles_b, plays_b) = %s" % got, dict(cfg=m["cfg"], op="solution-check"), m)
        elif kind == "solvable":
            res["C10"].evaluations += 1
            if got == [0]:
                kit.fail(["C10"], "generated block set admits NO complete solution inside the action space (verified exhaustive search solvable_b = false)",
                         dict(cfg=m["cfg"], op="unsolvable-instance"), m)
            else:
                kit.fail(["C10"], "python exhaustive search and the verified search disagree", dict(cfg=m["cfg"], op="harness-search"), m)
        elif kind == "toy":
            res["C10"].evaluations += 1
            sg, rot, norot = got[:25], got[25:61], got[61:97]
            for lab, (which, blocks) in m["toy"].items():
                if [int(x) for x in np.asarray(blocks).reshape(-1)] != (rot if which == "rot" else norot):
                    kit.fail(["C10"], "toy generator's blocks differ from the literal instance of the model", dict(cfg=lab, op="toy-literal"), dict(which=which, blocks=blocks))
        elif kind in ("rotate", "expand"):
            res["C09"].evaluations += 1
            res["C09"].count("primitive-" + kind)
            if got != exp:
                kit.fail(["C09"], "%s: model / quarter-turn reference and implementation disagree" % kind, dict(op="prim-" + kind), dict(m, model=got, impl=exp))
    for pid in PROPS:
        res[pid].traces += len(calls)
        if not res[pid].samples and metas:
            res[pid].samples.append(dict(env=NAME, example={k: v for k, v in metas[min(5, len(metas) - 1)][3].items() if k not in ("blocks", "solved", "toy")}))
