"""Game2048: correspondence with coq/Model/Game2048.v (Impl AND Rules layer) + verified checkers on implementation states.

What is compared, per (state, action) of the REAL environment:
  game_2048_step_io   Impl model (two-index while loops, transform_board, stored-mask cond, draw recovered from the
                      successor board) vs implementation: board, mask, score, step_count, step_type, reward, discount, observation
  game_2048_rules_io  Rules model (slide = compress / merge once / pad, legal = "some line changes") vs implementation
  game_2048_check_io  verified checkers on the implementation's state: shape+non-negativity, mask = legal_b, mask = "move changes the board"
  game_2048_trans_io  verified transition checker trans_ok_b (tile sum conserved, exactly one 2/4 tile iff legal)
  game_2048_rows_io   the real move_left_row / can_move_left_row on ALL rows of length 1..5 over small exponents
Every one of the 4 actions is tried from every visited state (vmap over the action space)."""
import itertools

import numpy as np

from harness import envkit

NAME = "game_2048"
PROPS = ["C01", "C03", "C04", "C05", "C07", "C08", "C09", "C10", "C12"]
APPLIES = PROPS


def extra_configs(tier, add):
    import jumanji.environments as E
    add("b1", lambda: E.Game2048(board_size=1), 4)           # minimum size: born terminal
    add("b5", lambda: E.Game2048(board_size=5), 40 if tier == "quick" else 120, batch=4)
    if tier != "quick":
        add("b7", lambda: E.Game2048(board_size=7), 200, batch=8)


def ints(x):
    return [int(v) for v in np.asarray(x).reshape(-1)]


def fcode(x):
    """integral float -> int (exact); anything else -> a value no model output can equal"""
    x = float(x)
    return int(x) if x == int(x) else -(10 ** 15)


def enc_state(n, board, mask, score, step_count):
    return [n] + ints(board) + ints(mask) + [fcode(score), int(step_count)]


def layout(n):
    return [("ok", 1), ("board", n * n), ("action_mask", 4), ("score", 1), ("step_count", 1), ("step_type", 1), ("reward", 1),
            ("discount", 1), ("mask_of_action", 1), ("valid_draw", 1)]


def rules_layout(n):
    return layout(n)[1:]


def enc_impl(n, s2, ts2, lg):
    return ([1] + ints(s2.board) + ints(s2.action_mask) + [fcode(s2.score), int(s2.step_count), int(ts2.step_type),
            fcode(ts2.reward), fcode(ts2.discount), int(lg), 1])


def boundary_states(n):
    """directly constructed boards (exponents): terminal boards, double merges, big tiles, one-move boards"""
    B = []
    chk = np.fromfunction(lambda i, j: 1 + (i + j) % 2, (n, n), dtype=int)
    B.append(("full-no-move", chk))
    b = chk.copy(); b[0, 0] = b[0, 1] if n > 1 else b[0, 0]
    B.append(("full-one-merge", b))
    B.append(("all-equal", np.full((n, n), 3)))
    b = np.zeros((n, n), int); b[n - 1, n - 1] = 1
    B.append(("single-corner", b))
    b = np.zeros((n, n), int); b[0, :] = 15
    B.append(("big-row-15", b))
    b = np.zeros((n, n), int); b[:, 0] = np.arange(1, n + 1)
    B.append(("stuck-left-column", b))
    if n >= 4:
        b = np.zeros((n, n), int); b[1, :4] = [2, 2, 1, 1]; b[2, :4] = [1, 0, 0, 1]; b[3, :4] = [1, 1, 1, 0]
        B.append(("double-merge", b))
        b = np.zeros((n, n), int); b[0, :4] = [2, 1, 1, 0]; b[1, :4] = [1, 1, 2, 2]; b[2, :4] = [3, 0, 3, 3]
        B.append(("merge-once", b))
    if n >= 3:
        b = np.zeros((n, n), int); b[0, :3] = [1, 0, 1]; b[1, :3] = [0, 0, 5]; b[2, :3] = [4, 4, 4]
        B.append(("gap-merge", b))
    return B


def analyze(kit):
    import jax
    import jax.numpy as jnp
    from jumanji.environments.logic.game_2048 import utils as U
    from jumanji.environments.logic.game_2048.types import State
    R = envkit.R
    res = kit.res
    calls, metas = [], []
    q = kit.tier == "quick"

    def add_transition(cfg, n, tag, board, mask, score, sc, a, s2, ts2, where, every=False):
        lg = bool(np.asarray(mask)[int(a)])
        e = enc_state(n, board, mask, score, sc) + [int(a)] + ints(s2.board)
        exp = enc_impl(n, s2, ts2, lg)
        obs = ints(ts2.observation.board) + ints(ts2.observation.action_mask)
        m = dict(where, cfg=cfg["label"], n=n, tag=tag, action=int(a), legal=lg, every=every,
                 state=dict(board=np.asarray(board).tolist(), mask=ints(mask), score=fcode(score), step_count=int(sc)),
                 impl_next=dict(board=np.asarray(s2.board).tolist(), mask=ints(s2.action_mask), reward=float(ts2.reward), step_type=int(ts2.step_type)))
        calls.append(("game_2048_step_io", e)); metas.append(("step", exp, obs, m))
        if not where.get("stale"):
            calls.append(("game_2048_rules_io", e)); metas.append(("rules", exp[1:], None, m))
        calls.append(("game_2048_trans_io", [n] + ints(board) + [int(a)] + ints(s2.board))); metas.append(("trans", None, fcode(ts2.reward), m))

    for cfg in kit.configs():
        env = kit.env(cfg)
        n = env.board_size
        step4 = jax.jit(jax.vmap(lambda s: jax.vmap(lambda a: env.step(s, a))(jnp.arange(4, dtype=jnp.int32))))
        for p in (0.0, 0.35):
            roll = kit.roll(cfg, p)
            _, st, ts, ac, fl, k0 = roll
            Bn, T = ac.shape
            # ---- reset states (C10) ----
            for b in range(Bn):
                s0 = R.slice_tree(st, b, 0); ts0 = R.slice_tree(ts, b, 0)
                calls.append(("game_2048_init_io", [n] + ints(s0.board)))
                metas.append(("init", [1] + ints(s0.board) + ints(s0.action_mask) + [fcode(s0.score), int(s0.step_count), int(ts0.step_type), fcode(ts0.reward), fcode(ts0.discount), 1],
                              ints(ts0.observation.board) + ints(ts0.observation.action_mask), dict(cfg=cfg["label"], n=n, p=p, b=b, t=0, board=np.asarray(s0.board).tolist())))
            # ---- every transition of the rollouts, also after LAST (step is a function of the state) ----
            for (b, t, s, a, s2, ts2) in kit.transitions(roll, upto_last=False):
                add_transition(cfg, n, "rollout", s.board, s.action_mask, s.score, s.step_count, a, s2, ts2,
                               dict(p=p, b=b, t=t, after_last=bool(t >= fl[b])))
                calls.append(("game_2048_check_io", [n] + ints(s.board) + ints(s.action_mask)))
                metas.append(("check", None, None, dict(cfg=cfg["label"], n=n, p=p, b=b, t=t, after_last=bool(t >= fl[b]),
                                                        state=dict(board=np.asarray(s.board).tolist(), mask=ints(s.action_mask)))))
                # C12: copied observation fields
                res["C12"].evaluations += 1
                res["C12"].distinct.add((cfg["label"], p, b, t))
                if not (np.array_equal(ts2.observation.board, s2.board) and np.array_equal(ts2.observation.action_mask, s2.action_mask)):
                    kit.fail(["C12"], "observation differs from the state it views", dict(cfg=cfg["label"], op="obs-copy"),
                             dict(b=b, t=t, p=p, seed=kit.seed, board=np.asarray(s2.board).tolist(), obs=np.asarray(ts2.observation.board).tolist()))
            # ---- C08: telescoped return of each episode (to the first LAST, or to the end of the rollout) ----
            for b in range(Bn):
                end = int(min(T, fl[b]))
                ret = float(np.sum(np.asarray(ts.reward[b, 1:end + 1], np.float64)))
                calls.append(("game_2048_check_io", [n] + ints(st.board[b, end]) + ints(st.action_mask[b, end])))
                metas.append(("episode", None, None, dict(cfg=cfg["label"], n=n, p=p, b=b, end=end, ret=ret, terminated=bool(fl[b] <= T),
                                                          score=float(st.score[b, end]), first=ints(st.board[b, 0]),
                                                          boards=[ints(st.board[b, t]) for t in range(end + 1)],
                                                          legal=[bool(st.action_mask[b, t][int(ac[b, t])]) for t in range(end)],
                                                          actions=ints(ac[b, :end]))))
            # ---- EVERY action from visited states, by the real step under vmap ----
            stride = (3 if n >= 4 else 2 if n == 3 else 1) if q else 1
            idx = [(b, t) for b in range(Bn) for t in range(0, T + 1, stride)]
            sel = jax.tree_util.tree_map(lambda x: jnp.asarray(np.stack([x[b, t] for b, t in idx])), st)
            s4, ts4 = step4(sel)
            s4 = jax.tree_util.tree_map(np.asarray, s4)
            ts4 = jax.tree_util.tree_map(np.asarray, ts4.replace(extras={}))
            for k, (b, t) in enumerate(idx):
                s = R.slice_tree(st, b, t)
                for a in range(4):
                    add_transition(cfg, n, "every-action", s.board, s.action_mask, s.score, s.step_count, a,
                                   R.slice_tree(s4, k, a), R.slice_tree(ts4, k, a), dict(p=p, b=b, t=t, after_last=bool(t >= fl[b])), every=True)
        # ---- reset sweep (C10): many keys, so that both first-tile values and every cell occur ----
        nk = 64 if q else 512
        rs, rts = jax.jit(jax.vmap(env.reset))(jax.random.split(jax.random.PRNGKey(kit.seed * 31 + 101), nk))
        rs = jax.tree_util.tree_map(np.asarray, rs)
        rts = jax.tree_util.tree_map(np.asarray, rts.replace(extras={}))
        for k in range(nk):
            s0 = R.slice_tree(rs, k); ts0 = R.slice_tree(rts, k)
            calls.append(("game_2048_init_io", [n] + ints(s0.board)))
            metas.append(("init", [1] + ints(s0.board) + ints(s0.action_mask) + [fcode(s0.score), int(s0.step_count), int(ts0.step_type), fcode(ts0.reward), fcode(ts0.discount), 1],
                          ints(ts0.observation.board) + ints(ts0.observation.action_mask), dict(cfg=cfg["label"], n=n, p="reset-sweep", b=k, t=0, board=np.asarray(s0.board).tolist())))
            calls.append(("game_2048_check_io", [n] + ints(s0.board) + ints(s0.action_mask)))
            metas.append(("check", None, None, dict(cfg=cfg["label"], n=n, p="reset-sweep", b=k, t=0, after_last=False,
                                                    state=dict(board=np.asarray(s0.board).tolist(), mask=ints(s0.action_mask)))))
        # ---- directly constructed boundary states (consistent mask computed by the env's own mask function) ----
        bs = boundary_states(n)
        for _ in range(6 if q else 30):     # random dense boards with small exponents: many merges, many blocked lines
            bs.append(("random-dense", kit.rng.integers(0, 3, size=(n, n)) * kit.rng.integers(0, 2, size=(n, n)) + kit.rng.integers(0, 2, size=(n, n))))
        boards = jnp.asarray(np.stack([b for _, b in bs]), jnp.int32)
        masks = np.asarray(jax.jit(jax.vmap(env._get_action_mask))(boards))
        variants = []
        for k, (tag, b) in enumerate(bs):
            variants.append((tag, b, masks[k]))
            if (b == 0).any():   # stored mask deliberately stale (unreachable, but step is a function of the state): the cond reads the STORED mask
                variants.append((tag + "/stale-mask-all-true", b, np.ones(4, bool)))
            variants.append((tag + "/stale-mask-all-false", b, np.zeros(4, bool)))
        keys = jax.random.split(jax.random.PRNGKey(kit.seed + 17), len(variants))
        sel = State(board=jnp.asarray(np.stack([v[1] for v in variants]), jnp.int32), step_count=jnp.full((len(variants),), 5, jnp.int32),
                    action_mask=jnp.asarray(np.stack([v[2] for v in variants])), score=jnp.full((len(variants),), 12.0, jnp.float32), key=keys)
        s4, ts4 = step4(sel)
        s4 = jax.tree_util.tree_map(np.asarray, s4)
        ts4 = jax.tree_util.tree_map(np.asarray, ts4.replace(extras={}))
        for k, (tag, b, mk) in enumerate(variants):
            for a in range(4):
                add_transition(cfg, n, "boundary:" + tag, b, mk, 12.0, 5, a, R.slice_tree(s4, k, a), R.slice_tree(ts4, k, a),
                               dict(p=None, b=k, t=5, after_last=False, stale="stale" in tag), every=True)
            if "stale" not in tag:
                calls.append(("game_2048_check_io", [n] + ints(b) + ints(mk)))
                metas.append(("check", None, None, dict(cfg=cfg["label"], n=n, p=None, b=k, t=5, after_last=False, tag=tag,
                                                        state=dict(board=np.asarray(b).tolist(), mask=ints(mk)))))

    # ---- the real row loops on ALL rows of length 1..5 over exponents 0..K (C09, C04) ----
    K = 3 if q else 6
    mlr = jax.jit(jax.vmap(U.move_left_row))
    cml = jax.jit(jax.vmap(U.can_move_left_row))
    for L in range(1, 6 if q else 7):
        kk = K if L <= 5 else 3
        rows = np.array(list(itertools.product(range(kk + 1), repeat=L)), dtype=np.int32)
        out_rows, out_rew = mlr(jnp.asarray(rows))
        out_can = np.asarray(cml(jnp.asarray(rows)))
        out_rows, out_rew = np.asarray(out_rows), np.asarray(out_rew)
        for c0 in range(0, len(rows), 512):
            ch = rows[c0:c0 + 512]
            calls.append(("game_2048_rows_io", [L, len(ch)] + ints(ch)))
            metas.append(("rows", None, None, dict(L=L, rows=ch, out_rows=out_rows[c0:c0 + 512], out_rew=out_rew[c0:c0 + 512], out_can=out_can[c0:c0 + 512])))

    outs = kit.model(calls)
    spawn = {}   # (cfg,p,b,t) -> recovered draw of rollout transitions (for C08)
    phi_first = {}
    for (entry, args), (kind, exp, obs, m), got in zip(calls, metas, outs):
        if kind in ("step", "rules"):
            n = m["n"]
            lay = layout(n) if kind == "step" else rules_layout(n)
            nf = sum(k for _, k in lay)
            bad = envkit.diff_fields(lay, got[:nf], exp)
            draw = got[nf:nf + 2]
            if kind == "step" and not bad:
                if got[nf + 2:] != obs:
                    bad.append("observation")
            case = (m["cfg"], m["tag"], m.get("p"), m["b"], m["t"], m["action"])
            for pid in ("C09", "C07", "C03", "C01"):
                res[pid].evaluations += 1
            res["C09"].distinct.add(case + (kind,))
            res["C09"].count(("impl-" if kind == "step" else "rules-") + ("legal" if m["legal"] else "illegal"))
            if kind == "step":
                res["C12"].evaluations += 1
                res["C04"].evaluations += 1
                res["C04"].distinct.add(case)
                if m["tag"] == "rollout":
                    spawn[(m["cfg"], m["p"], m["b"], m["t"])] = (m["legal"], draw)
                # C04 by the env's own reaction / C05: an illegal action changes nothing but the step counter
                moved = m["impl_next"]["board"] != m["state"]["board"]
                if not m.get("stale"):
                    res["C04"].count("action:%d:%s" % (m["action"], "legal" if m["legal"] else "illegal"))
                    if moved != m["legal"]:
                        kit.fail(["C04"], "mask entry disagrees with the environment's own reaction (board %s)" % ("changed" if moved else "unchanged"),
                                 dict(cfg=m["cfg"], op="mask-vs-reaction", action=m["action"]), dict(m, seed=kit.seed))
                    if not m["legal"]:
                        res["C05"].evaluations += 1
                        res["C05"].distinct.add(case)
                        res["C05"].count("illegal-action-steps")
                        nx = m["impl_next"]
                        cont = 2 if not any(m["state"]["mask"]) else 1
                        if nx["board"] != m["state"]["board"] or nx["mask"] != m["state"]["mask"] or nx["reward"] != 0.0 or nx["step_type"] != cont \
                                or exp[1 + n * n + 4] != m["state"]["score"]:
                            kit.fail(["C05"], "illegal move is not ignored (board/mask/score changed, reward != 0 or the episode ended)",
                                     dict(cfg=m["cfg"], op="illegal-ignored", action=m["action"]), dict(m, seed=kit.seed))
            if bad:
                pids = {"C09"}
                if "action_mask" in bad or "mask_of_action" in bad:
                    pids.add("C04")
                if not m["legal"]:
                    pids.add("C05")
                if "board" in bad or "valid_draw" in bad:
                    pids.add("C07")
                if "reward" in bad or "score" in bad:
                    pids.add("C08")
                if "step_type" in bad or "discount" in bad:
                    pids.add("C03")
                if "observation" in bad:
                    pids.add("C12")
                if "ok" in bad:
                    pids.add("C09")
                kit.fail(sorted(pids), "%s model and implementation disagree on a step (fields %s)" % ("Impl" if kind == "step" else "Rules", ",".join(bad)),
                         dict(cfg=m["cfg"], op="corr-" + kind, fields=",".join(bad), tag=m["tag"].split("/")[-1]),
                         dict(m, model=got, impl=exp, seed=kit.seed))
        elif kind == "trans":
            if m.get("stale"):
                continue
            res["C07"].evaluations += 1
            res["C07"].distinct.add((m["cfg"], m["tag"], m.get("p"), m["b"], m["t"], m["action"]))
            res["C07"].count("legal" if m["legal"] else "illegal")
            res["C08"].evaluations += 1
            if got[0] != 1:
                kit.fail(["C07", "C09"], "transition violates: tile sum conserved by the move, exactly one 2/4 tile on an empty cell iff the move was legal",
                         dict(cfg=m["cfg"], op="trans-ok", action=m["action"]), dict(m, seed=kit.seed))
            if got[1] != int(m["legal"]):
                kit.fail(["C04"], "mask entry != legal_b (verified checker)", dict(cfg=m["cfg"], op="mask-exact", action=m["action"]), dict(m, seed=kit.seed))
            if got[2] != obs:
                kit.fail(["C08", "C09"], "reward != sum of the tiles created by merging", dict(cfg=m["cfg"], op="reward-merged", action=m["action"]),
                         dict(m, model_reward=got[2], impl_reward=obs, seed=kit.seed))
        elif kind == "init":
            n = m["n"]
            lay = [x for x in layout(n) if x[0] != "mask_of_action"]
            nf = sum(k for _, k in lay)
            bad = envkit.diff_fields(lay, got[:nf], exp)
            if not bad and got[nf + 2:] != obs:
                bad.append("observation")
            for pid in ("C10", "C09", "C03", "C12"):
                res[pid].evaluations += 1
            res["C10"].distinct.add((m["cfg"], m["p"], m["b"]))
            res["C10"].count("first-tile:%d" % got[nf + 1])
            res["C10"].count("first-cell:%s" % ("corner" if got[nf] in (0, n - 1, n * n - n, n * n - 1) else "other"))
            if bad:
                pids = {"C10", "C09"} | ({"C04"} if "action_mask" in bad else set()) | ({"C03"} if "step_type" in bad or "discount" in bad else set())
                kit.fail(sorted(pids), "model and implementation disagree on reset (fields %s)" % ",".join(bad),
                         dict(cfg=m["cfg"], op="corr-init", fields=",".join(bad)), dict(m, model=got, impl=exp, seed=kit.seed))
        elif kind == "check":
            res["C01"].evaluations += 1
            res["C04"].evaluations += 1
            res["C04"].distinct.add((m["cfg"], "state", m.get("p"), m["b"], m["t"]))
            if got[0] != 1:
                kit.fail(["C01", "C07"], "board is not an n x n array of non-negative exponents", dict(cfg=m["cfg"], op="board-wf"), dict(m, seed=kit.seed))
            if got[1] != 1 or got[2] != 1:
                kit.fail(["C04"], "action mask is not the set of legal directions (verified checker on implementation state)",
                         dict(cfg=m["cfg"], op="mask-exact-state"), dict(m, flags=got[:3], seed=kit.seed))
            if m["t"] == 0 and m.get("p") is not None:
                res["C10"].evaluations += 1
                if got[5] != 1 or got[3] not in (2, 4):
                    kit.fail(["C10"], "reset board does not hold exactly one tile of value 2 or 4", dict(cfg=m["cfg"], op="one-tile"), dict(m, seed=kit.seed))
                phi_first[(m["cfg"], m["p"], m["b"])] = got[4]
        elif kind == "episode":
            res["C08"].evaluations += 1
            res["C08"].distinct.add((m["cfg"], m["p"], m["b"]))
            res["C08"].count("terminated" if m["terminated"] else "cut-at-rollout-end")
            fours = sum(1 for t in range(m["end"]) if spawn[(m["cfg"], m["p"], m["b"], t)][0] and spawn[(m["cfg"], m["p"], m["b"], t)][1][1] == 2)
            objective = got[4] - phi_first[(m["cfg"], m["p"], m["b"])] - 4 * fours    # potential of the final board - potential brought in by spawned tiles
            if not (m["ret"] == m["score"] == objective):
                kit.fail(["C08"], "return != score != sum of merged tiles recomputed from the final board (potential sum((e-1) 2^e) minus spawned 4-tiles)",
                         dict(cfg=m["cfg"], op="objective"), dict(ret=m["ret"], score=m["score"], objective=objective, fours=fours, b=m["b"], p=m["p"],
                                                                   actions=m["actions"], first_board=m["first"], seed=kit.seed))
        elif kind == "rows":
            L = m["L"]
            w = 2 * L + 6
            for r in range(len(m["rows"])):
                g = got[r * w:(r + 1) * w]
                row = ints(m["rows"][r])
                impl_row, impl_rew, impl_can = ints(m["out_rows"][r]), fcode(m["out_rew"][r]), int(m["out_can"][r])
                loop_ok, loop_row, loop_rew, can_ok, can = g[0], g[1:1 + L], g[1 + L], g[2 + L], g[3 + L]
                sl, sl_rew, sl_changed = g[4 + L:4 + 2 * L], g[4 + 2 * L], g[5 + 2 * L]
                res["C09"].evaluations += 1
                res["C04"].evaluations += 1
                res["C09"].distinct.add(("row", L, tuple(row)))
                if loop_ok != 1 or can_ok != 1 or loop_row != impl_row or loop_rew != impl_rew:
                    kit.fail(["C09"], "Impl row loop differs from the real move_left_row", dict(op="row-impl", L=L),
                             dict(row=row, impl=impl_row, impl_reward=impl_rew, model=loop_row, model_reward=loop_rew))
                if sl != impl_row or sl_rew != impl_rew:
                    kit.fail(["C09", "C08"], "real move_left_row is not compress / merge once / pad", dict(op="row-rules", L=L),
                             dict(row=row, impl=impl_row, impl_reward=impl_rew, rules=sl, rules_reward=sl_rew))
                if can != impl_can or sl_changed != impl_can:
                    kit.fail(["C04", "C09"], "real can_move_left_row differs from 'sliding changes the row'", dict(op="row-can", L=L),
                             dict(row=row, impl=impl_can, model_loop=can, rules=sl_changed))
            res["C09"].count("rows-len-%d" % L, len(m["rows"]))
    for pid in PROPS:
        res[pid].traces += len(calls)
        if not res[pid].samples:
            ex = [mm[3] for mm in metas if mm[0] == "step"][:40]
            res[pid].samples.append(dict(env=NAME, example={k: v for k, v in ex[min(17, len(ex) - 1)].items() if k != "every"}))
