"""GraphColoring: correspondence with coq/Model/GraphColoring.v + verified checkers on implementation states.

Every number here is an integer (colours, node index, booleans; the reward is an integral float), so everything is compared
exactly.  Three kinds of inputs:
 - real rollouts (mask-respecting, 35 % uniform, fully uniform) of every catalogued / extra configuration, up to and INCLUDING
   the terminal state; every executed transition is replayed in the extracted model (`gc_step_io`), in the declarative rules
   (`gc_rules_io`) and in the observation builder (`gc_obs_io`);
 - a sweep: from visited states (reset, intermediate, terminal = stepping on after LAST) EVERY colour is tried on the real
   `env.step` (jit + vmap over the action space): the mask is judged by the environment's own reaction and by an independent
   Python statement of the rule (C04), every illegal colour is exercised (C05: LAST, reward -n, discount 0, and the colour IS
   written - the terminal colouring is improper, as the theorem C05_GraphColoring_invalid_colour_is_written says);
 - directly built graphs (complete, empty, path, star; n = 1..5): complete graphs make a legal completion cost -n, the same
   number as the invalid-colour penalty (the one case where the reward alone does not tell the two apart).
Verified boolean checkers evaluated on the implementation's own states: mask = legal set, proper colouring, symmetric loop-free
graph (`gc_check_io`), inside the declared spec / colours in use / complete (`gc_spec_io`), protocol (`proto_check_io`).
"""
import numpy as np

from harness import envkit

NAME = "graph_coloring"
PROPS = ["C01", "C03", "C04", "C05", "C06", "C08", "C09", "C10", "C11", "C12"]
APPLIES = PROPS


def extra_configs(tier, add):
    from jumanji.environments import GraphColoring
    from jumanji.environments.logic.graph_coloring.generator import RandomGenerator as G
    add("n1p5", lambda: GraphColoring(G(num_nodes=1, edge_probability=0.5)), 3)
    add("n2p7", lambda: GraphColoring(G(num_nodes=2, edge_probability=0.7)), 4)
    add("n5p99", lambda: GraphColoring(G(num_nodes=5, edge_probability=0.99)), 7)     # (almost) complete: n colours needed
    add("n7p05", lambda: GraphColoring(G(num_nodes=7, edge_probability=0.05)), 9)     # (almost) edge-free: masks all True
    if tier != "quick":
        add("n30p5", lambda: GraphColoring(G(num_nodes=30, edge_probability=0.5)), 33)
        add("n9p6", lambda: GraphColoring(G(num_nodes=9, edge_probability=0.6)), 12)


def bl(x):
    return [int(v) for v in np.asarray(x).reshape(-1)]


def enc_state(n, s):
    return bl(s.adj_matrix) + bl(s.colors) + [int(s.current_node_index)] + bl(s.action_mask)


def rew(ts):
    r = float(ts.reward)
    if r != round(r):
        raise ValueError("non-integral reward %r" % r)
    return int(round(r))


def enc_out(s2, ts):
    return bl(s2.colors) + [int(s2.current_node_index)] + bl(s2.action_mask) + [int(ts.step_type), rew(ts), int(round(float(ts.discount)))]


def enc_obs(o):
    return bl(o.adj_matrix) + bl(o.colors) + [int(o.current_node_index)] + bl(o.action_mask)


def _stepper(env, _cache={}):
    import jax
    if id(env) not in _cache:
        _cache[id(env)] = (jax.jit(jax.vmap(env.step)), env)
    return _cache[id(env)][0]


def step_many(env, items):
    """the REAL env.step (jit+vmap) on given (state, action) pairs -> list of (state', timestep) numpy slices"""
    import jax
    import jax.numpy as jnp
    from jumanji.environments.logic.graph_coloring.types import State
    out = []
    CH = 1024
    for i in range(0, len(items), CH):
        ch = items[i:i + CH]
        size = 64 if len(ch) <= 64 else CH                       # two batch sizes -> at most two compilations per env
        pad = ch + [ch[-1]] * (size - len(ch))
        S = State(adj_matrix=jnp.asarray(np.stack([np.asarray(s.adj_matrix, bool) for s, _ in pad])),
                  colors=jnp.asarray(np.stack([np.asarray(s.colors, np.int32) for s, _ in pad])),
                  current_node_index=jnp.asarray(np.asarray([int(s.current_node_index) for s, _ in pad], np.int32)),
                  action_mask=jnp.asarray(np.stack([np.asarray(s.action_mask, bool) for s, _ in pad])),
                  key=jnp.zeros((len(pad), 2), jnp.uint32))
        A = jnp.asarray(np.asarray([a for _, a in pad], np.int32))
        s2, ts = _stepper(env)(S, A)
        s2, ts = jax.tree_util.tree_map(np.asarray, (s2, ts.replace(extras={})))
        for j in range(len(ch)):
            out.append((envkit.R.slice_tree(s2, j), envkit.R.slice_tree(ts, j)))
    return out


class NS:
    """a plain numpy state (for directly built graphs)"""
    def __init__(self, adj, colors, cur, mask):
        self.adj_matrix, self.colors, self.current_node_index, self.action_mask = (np.asarray(adj, bool), np.asarray(colors, np.int32),
                                                                                   int(cur), np.asarray(mask, bool))


def py_legal(s, a):
    """the rule, stated independently in Python: no neighbour of the current node already has colour a"""
    adj, col = np.asarray(s.adj_matrix), np.asarray(s.colors)
    return not bool(np.any(adj[_row(s)] & (col == a)))


def _row(s):
    """row index the way a JAX gather reads it (an out-of-spec node index must be reported, not crash the harness)"""
    n, i = len(np.asarray(s.colors)), int(s.current_node_index)
    return min(max(i + n if i < 0 else i, 0), n - 1)


def analyze(kit):
    import jax
    from jax import numpy as jnp
    from jumanji.environments import GraphColoring
    from jumanji.environments.logic.graph_coloring.generator import RandomGenerator
    quick = kit.tier == "quick"
    res = kit.res
    calls, metas = [], []

    def layout(n):
        return [("colors", n), ("current_node_index", 1), ("action_mask", n), ("step_type", 1), ("reward", 1), ("discount", 1)]

    def obs_layout(n):
        return [("adj_matrix", n * n), ("colors", n), ("current_node_index", 1), ("action_mask", n)]

    def sdict(s):
        return dict(colors=bl(s.colors), node=int(s.current_node_index), mask=bl(s.action_mask),
                    adj_row=bl(np.asarray(s.adj_matrix)[_row(s)]))

    def submit_step(n, s, a, s2, ts2, m):
        """one (state, action) with the implementation's answer: code model, rules, observation builder, protocol, spec"""
        e = [n] + enc_state(n, s)
        m = dict(m, n=n, action=int(a), legal=py_legal(s, int(a)), masked_in=bool(np.asarray(s.action_mask)[int(a)]), state=sdict(s))
        exp = enc_out(s2, ts2)
        extra = (s, s2, ts2)
        calls.append(("gc_step_io", e + [int(a)])); metas.append(("step", dict(m, via="code"), exp, extra))
        calls.append(("gc_rules_io", e + [int(a)])); metas.append(("step", dict(m, via="rules"), exp, None))
        calls.append(("gc_obs_io", e + [int(a)])); metas.append(("obs", m, enc_obs(ts2.observation), None))
        calls.append(("proto_check_io", [1, 0, 0, int(ts2.step_type), rew(ts2), int(round(float(ts2.discount)))]))
        metas.append(("proto", dict(m, first=False), [1], None))
        calls.append(("gc_spec_io", [n] + enc_state(n, s2))); metas.append(("spec", dict(m, of="successor"), None, (s2, None)))

    def submit_check(n, s, m, legal_so_far, fresh=False):
        calls.append(("gc_check_io", [n] + enc_state(n, s)))
        metas.append(("check", dict(m, n=n, legal_so_far=legal_so_far, fresh=fresh, state=sdict(s)), [1, 1, 1], None))

    def sweep(env, n, states, label, src):
        """EVERY colour from the given states on the real env"""
        items = [(s, a) for (s, m) in states for a in range(n)]
        ms = [dict(m, cfg=label, src=src, origin=m["src"]) for (s, m) in states for a in range(n)]
        if not items:
            return
        for (s, a), (s2, ts2), m in zip(items, step_many(env, items), ms):
            submit_step(n, s, a, s2, ts2, m)

    # ------------------------------------------------------------------ real rollouts
    for cfg in kit.configs():
        env = kit.env(cfg)
        n = env.num_nodes
        label = cfg["label"]
        visited = []
        for p in (0.0, 0.35, 1.0):
            roll = kit.roll(cfg, p)
            _, st, ts, ac, fl, k0 = roll
            B, T = ac.shape
            for b in range(B):
                end = min(T, fl[b])
                s0 = envkit.R.slice_tree(st, b, 0)
                ts0 = envkit.R.slice_tree(ts, b, 0)
                m0 = dict(cfg=label, src="reset", p=p, b=b, t=0)
                # reset: state = init(generated graph), FIRST / reward 0 / discount 1, observation = view, inside the spec
                calls.append(("gc_init_io", [n] + bl(s0.adj_matrix))); metas.append(("init", dict(m0, n=n), enc_out(s0, ts0), None))
                calls.append(("proto_check_io", [1, 1, 0, int(ts0.step_type), rew(ts0), int(round(float(ts0.discount)))]))
                metas.append(("proto", dict(m0, first=True), [1], None))
                calls.append(("gc_spec_io", [n] + enc_state(n, s0))); metas.append(("spec", dict(m0, of="reset", n=n), None, (s0, None)))
                res["C12"].evaluations += 1
                if enc_obs(ts0.observation) != enc_state(n, s0):
                    kit.fail(["C12"], "reset observation differs from the reset state", dict(cfg=label, op="obs-copy-reset"), dict(b=b, p=p, seed=kit.seed))
                all_legal = True
                ret = 0
                for t in range(end):
                    s = envkit.R.slice_tree(st, b, t)
                    s2 = envkit.R.slice_tree(st, b, t + 1)
                    ts2 = envkit.R.slice_tree(ts, b, t + 1)
                    a = int(ac[b, t])
                    m = dict(cfg=label, src="rollout", p=p, b=b, t=t)
                    submit_step(n, s, a, s2, ts2, m)
                    submit_check(n, s, m, legal_so_far=all_legal)
                    visited.append((s, m))
                    all_legal = all_legal and py_legal(s, a)
                    ret += rew(ts2)
                    if not np.array_equal(s2.adj_matrix, s.adj_matrix):
                        kit.fail(["C09", "C05"], "step changed the graph", dict(cfg=label, op="instance-const"), dict(b=b, t=t, p=p, seed=kit.seed))
                if fl[b] <= T:          # the episode ended inside the rollout: terminal state
                    sf = envkit.R.slice_tree(st, b, end)
                    mf = dict(cfg=label, src="terminal", p=p, b=b, t=int(end))
                    submit_check(n, sf, mf, legal_so_far=all_legal)
                    visited.append((sf, mf))
                    complete = bool((np.asarray(sf.colors) >= 0).all())
                    calls.append(("gc_spec_io", [n] + enc_state(n, sf)))
                    metas.append(("spec", dict(mf, of="final", n=n, ret=ret, all_legal=all_legal, complete=complete, steps=int(end)), None, (sf, None)))
                    # C11: exactly n under mask-respecting play, at most n otherwise
                    res["C11"].evaluations += 1
                    res["C11"].distinct.add((label, p, b))
                    res["C11"].count("episode-length:%s:%s" % ("mask-respecting" if all_legal else "with-illegal-colour", "=n" if end == n else "<n" if end < n else ">n"))
                    if end > n or (all_legal and end != n):
                        kit.fail(["C11"], "episode length: not (exactly num_nodes under mask-respecting play, at most num_nodes otherwise)",
                                 dict(cfg=label, op="horizon"), dict(b=b, p=p, steps=int(end), n=n, all_legal=all_legal, seed=kit.seed))
                elif T >= n:
                    res["C11"].evaluations += 1
                    kit.fail(["C11"], "no LAST step within num_nodes steps", dict(cfg=label, op="horizon-none"), dict(b=b, p=p, steps=int(T), n=n, seed=kit.seed))
        # ---- EVERY colour from visited states (reset, intermediate, terminal = stepping on after LAST)
        lim = 40 if quick else 200
        pick = visited if (n <= 7 or len(visited) <= lim) else [visited[int(i)] for i in kit.rng.choice(len(visited), lim, replace=False)]
        sweep(env, n, pick, label, "sweep")
        # ---- C10: fresh reset keys: well-formed graphs, dependence on the key; model generator = tril(k=-1)+transpose
        nk = 24 if quick else 128
        keys = jax.random.split(jax.random.PRNGKey(kit.seed + 4242), nk)
        s0s, _ = jax.tree_util.tree_map(np.asarray, jax.jit(jax.vmap(env.reset))(keys))
        seen = set()
        for i in range(nk):
            s0 = envkit.R.slice_tree(s0s, i)
            submit_check(n, s0, dict(cfg=label, src="fresh-reset", key=i, p=None, b=i, t=0), legal_so_far=True, fresh=True)
            seen.add(tuple(bl(s0.adj_matrix)))
            adjm = np.asarray(s0.adj_matrix)
            res["C10"].evaluations += 1
            if int(adjm.sum()) != 2 * int(np.tril(adjm, -1).sum()):
                kit.fail(["C10"], "degree sum != 2 * number of edges below the diagonal", dict(cfg=label, op="handshake"), dict(key=i, seed=kit.seed))
        res["C10"].count("distinct-graphs/%d-keys:%s" % (nk, label), len(seen))
        if n >= 5 and len(seen) < 2:
            kit.fail(["C10"], "generator does not depend on the key", dict(cfg=label, op="key-dependence"), dict(keys=nk, distinct=len(seen), seed=kit.seed))
        for _ in range(4):
            d = kit.rng.random((n, n)) < kit.rng.choice([0.2, 0.5, 0.9])
            a = jnp.tril(jnp.asarray(d), k=-1)
            a = np.asarray(a + a.T)
            calls.append(("gc_gen_io", [n] + bl(d))); metas.append(("gen", dict(cfg=label), bl(a), None))

    # ------------------------------------------------------------------ directly built graphs, played on the real env
    def graphs(n):
        full = ~np.eye(n, dtype=bool)
        path = np.zeros((n, n), bool)
        for i in range(n - 1):
            path[i, i + 1] = path[i + 1, i] = True
        star = np.zeros((n, n), bool)
        star[0, 1:] = True
        star[1:, 0] = True
        return [("complete", full), ("empty", np.zeros((n, n), bool)), ("path", path), ("star", star)]

    for n in ([1, 2, 3, 4, 5] if quick else [1, 2, 3, 4, 5, 8, 13]):
        env = GraphColoring(RandomGenerator(num_nodes=n, edge_probability=0.5))
        for gname, adj in graphs(n):
            for pol in ("first", "last", "random", "slip"):
                label = "built-%s-n%d" % (gname, n)
                s = NS(adj, np.full(n, -1), 0, np.ones(n, bool))
                t, ret, all_legal = 0, 0, True
                while True:
                    m = dict(cfg=label, src="built", pol=pol, p=None, b=0, t=t)
                    submit_check(n, s, m, legal_so_far=all_legal)
                    sweep(env, n, [(s, m)], label, "built-sweep")
                    legal = [c for c in range(n) if s.action_mask[c]]
                    illegal = [c for c in range(n) if not s.action_mask[c]]
                    if pol == "slip" and illegal and t == n - 1:
                        a = illegal[0]                                  # an illegal colour on the LAST node
                    elif pol == "first" or not legal:
                        a = legal[0] if legal else 0
                    elif pol == "last":
                        a = legal[-1]
                    else:
                        a = int(kit.rng.choice(legal))
                    all_legal = all_legal and py_legal(s, a)
                    (s2, ts2), = step_many(env, [(s, a)])
                    submit_step(n, s, a, s2, ts2, dict(m, src="built-play"))
                    ret += rew(ts2)
                    s = NS(s2.adj_matrix, s2.colors, s2.current_node_index, s2.action_mask)
                    t += 1
                    if int(ts2.step_type) == 2 or t > n + 1:
                        mf = dict(cfg=label, src="built-terminal", pol=pol, p=None, b=0, t=t)
                        submit_check(n, s, mf, legal_so_far=all_legal)
                        sweep(env, n, [(s, mf)], label, "built-sweep-after-last")
                        complete = bool((s.colors >= 0).all())
                        calls.append(("gc_spec_io", [n] + enc_state(n, s)))
                        metas.append(("spec", dict(mf, of="final", n=n, ret=ret, all_legal=all_legal, complete=complete, steps=t,
                                                   expect=(n if gname == "complete" else 1 if gname == "empty" else None) if pol == "first" else None), None, (s, None)))
                        res["C11"].evaluations += 1
                        res["C11"].distinct.add((label, pol))
                        res["C11"].count("episode-length:%s:%s" % ("mask-respecting" if all_legal else "with-illegal-colour", "=n" if t == n else "<n" if t < n else ">n"))
                        if t > n or (all_legal and t != n):
                            kit.fail(["C11"], "episode length: not (exactly num_nodes under mask-respecting play, at most num_nodes otherwise)",
                                     dict(cfg=label, op="horizon"), dict(pol=pol, steps=t, n=n, seed=kit.seed))
                        break

    # ------------------------------------------------------------------ compare
    outs = kit.model(calls)
    for (entry, args), (kind, m, exp, extra), got in zip(calls, metas, outs):
        if kind == "step":
            n = m["n"]
            bad = envkit.diff_fields(layout(n), got, exp)
            key = (m["cfg"], m["src"], m.get("pol"), m.get("p"), m.get("b"), m["t"], m["action"])
            res["C09"].evaluations += 1
            res["C09"].distinct.add(key)
            res["C09"].count("model:%s" % m["via"])
            if m.get("origin") in ("terminal", "built-terminal"):
                res["C09"].count("steps-after-LAST")
            if bad:
                pids = {"C09"}
                if "action_mask" in bad:
                    pids |= {"C04", "C12"}
                if not m["legal"]:
                    pids.add("C05")
                if "reward" in bad:
                    pids.add("C08")
                if "colors" in bad:
                    pids.add("C06")
                if "step_type" in bad or "discount" in bad:
                    pids |= {"C03", "C11"}
                if "current_node_index" in bad:
                    pids.add("C01")
                kit.fail(sorted(pids), "model (%s) and implementation disagree on step (fields %s)" % (m["via"], ",".join(bad)),
                         dict(cfg=m["cfg"], op="corr-step", fields=",".join(bad), model=m["via"]), dict(m, model=got, impl=exp, seed=kit.seed))
            if extra is None:
                continue
            s, s2, ts2 = extra
            a = m["action"]
            lastt, r, disc = int(ts2.step_type) == 2, rew(ts2), int(round(float(ts2.discount)))
            col2 = np.asarray(s2.colors)
            complete = bool((col2 >= 0).all())
            ncol = len(set(int(c) for c in col2 if c >= 0))
            # ---- C04 judged by the environment's own reaction: punished (LAST with -n although not a completion worth -n)
            res["C04"].evaluations += 1
            res["C04"].distinct.add(key)
            ambiguous = lastt and r == -n and complete and ncol == n          # a legal completion with n colours also pays -n
            punished = lastt and r == -n and not ambiguous
            res["C04"].count("mask:%d/env-%s" % (int(m["masked_in"]), "ambiguous(-n both ways)" if ambiguous else "punishes" if punished else "accepts"))
            if m["masked_in"] != m["legal"] or (not ambiguous and m["masked_in"] == punished):
                kit.fail(["C04"], "mask entry disagrees with the environment's reaction / the rule 'no neighbour has this colour'",
                         dict(cfg=m["cfg"], op="mask-vs-reaction"), dict(m, punished=punished, reward=r, step_type=int(ts2.step_type), seed=kit.seed))
            # ---- C03: LAST iff (complete or illegal); discount
            res["C03"].evaluations += 1
            if lastt != (complete or not m["legal"]) or disc != (0 if lastt else 1) or int(ts2.step_type) not in (1, 2):
                kit.fail(["C03", "C11"], "step type / discount: not (LAST with discount 0 iff complete or illegal colour, else MID with discount 1)",
                         dict(cfg=m["cfg"], op="last-iff"), dict(m, step_type=int(ts2.step_type), discount=disc, complete=complete, seed=kit.seed))
            # ---- C01: the node index wraps to 0 after the last node
            res["C01"].evaluations += 1
            cur = int(s.current_node_index)
            if cur == n - 1:
                res["C01"].count("node-index-wrap-on-last-node")
            if int(s2.current_node_index) != (0 if cur == n - 1 else cur + 1):
                kit.fail(["C01", "C09"], "next node index is not cur+1 (0 after the last node)", dict(cfg=m["cfg"], op="node-index"), dict(m, got=int(s2.current_node_index), seed=kit.seed))
            want = np.asarray(s.colors).copy()
            if 0 <= cur < n:
                want[cur] = a
            if not m["legal"]:
                # ---- C05: the documented effect (LAST, -n, discount 0) and what the code does to the state: the colour is written
                res["C05"].evaluations += 1
                res["C05"].distinct.add(key)
                res["C05"].count("illegal-colour-steps")
                if not (lastt and r == -n and disc == 0 and np.array_equal(col2, want) and np.array_equal(s2.adj_matrix, s.adj_matrix)):
                    kit.fail(["C05"], "illegal colour: not (LAST, reward -num_nodes, discount 0, colour written, graph untouched)",
                             dict(cfg=m["cfg"], op="illegal-effect"), dict(m, step_type=int(ts2.step_type), reward=r, colors_after=bl(col2), seed=kit.seed))
            else:
                res["C08"].evaluations += 1
                wantr = -ncol if complete else 0
                if r != wantr or not np.array_equal(col2, want):
                    kit.fail(["C08", "C09"], "legal colour: reward is not (0 while nodes remain, -(colours in use) at completion) or colour not written",
                             dict(cfg=m["cfg"], op="legal-effect"), dict(m, reward=r, expected=wantr, colors_after=bl(col2), seed=kit.seed))
        elif kind == "obs":
            n = m["n"]
            res["C12"].evaluations += 1
            res["C12"].distinct.add((m["cfg"], m["src"], m.get("pol"), m.get("p"), m.get("b"), m["t"], m["action"]))
            bad = envkit.diff_fields(obs_layout(n), got, exp)
            if bad:
                kit.fail(["C12"], "observation differs from the model's observation builder (fields %s)" % ",".join(bad),
                         dict(cfg=m["cfg"], op="corr-obs", fields=",".join(bad)), dict(m, model=got, impl=exp, seed=kit.seed))
        elif kind == "init":
            n = m["n"]
            bad = envkit.diff_fields(layout(n), got, exp)
            for pid in ("C09", "C10"):
                res[pid].evaluations += 1
            res["C10"].distinct.add((m["cfg"], m["p"], m["b"]))
            if bad:
                kit.fail(["C09", "C10"] + (["C04"] if "action_mask" in bad else []), "reset state is not init(graph) (fields %s)" % ",".join(bad),
                         dict(cfg=m["cfg"], op="corr-init", fields=",".join(bad)), dict(m, model=got, impl=exp, seed=kit.seed))
        elif kind == "proto":
            res["C03"].evaluations += 1
            res["C03"].distinct.add((m["cfg"], m["src"], m.get("pol"), m.get("p"), m.get("b"), m["t"], m.get("action")))
            res["C03"].count("first" if m["first"] else "step")
            if got != [1]:
                kit.fail(["C03"], "timestep violates the FIRST / MID / LAST protocol (verified checker)", dict(cfg=m["cfg"], op="protocol"), dict(m, seed=kit.seed))
        elif kind == "spec":
            n = m["n"]
            s = extra[0]
            in_spec, used, used_code, complete = got
            res["C01"].evaluations += 1
            res["C01"].distinct.add((m["cfg"], m["src"], m.get("pol"), m.get("p"), m.get("b"), m["t"], m.get("action"), m["of"]))
            res["C01"].count("state:%s" % m["of"])
            if in_spec != 1:
                kit.fail(["C01"], "emitted state/observation outside the declared spec (verified checker ranges_b)", dict(cfg=m["cfg"], op="ranges"),
                         dict(m, colors=bl(s.colors), node=int(s.current_node_index), seed=kit.seed))
            if used != used_code:
                kit.fail(["C08", "C09"], "declarative colour count != unique/count_nonzero model on an implementation state", dict(cfg=m["cfg"], op="colour-count"), dict(m, seed=kit.seed))
            if m["of"] == "final" and m["all_legal"] and m["complete"]:
                # C08: return == -(colours in use), recomputed from the final state (verified count and Python set)
                res["C08"].evaluations += 1
                res["C08"].distinct.add((m["cfg"], m["src"], m.get("pol"), m.get("p"), m.get("b")))
                pyn = len(set(int(c) for c in np.asarray(s.colors) if c >= 0))
                res["C08"].count("completed-episodes")
                if not (m["ret"] == -used == -pyn and complete == 1 and 1 <= used <= n):
                    kit.fail(["C08"], "return != -(number of colours in use in the final state)", dict(cfg=m["cfg"], op="objective"),
                             dict(m, colours=used, py_colours=pyn, colors=bl(s.colors), seed=kit.seed))
                if m.get("expect") is not None and used != m["expect"]:
                    kit.fail(["C08"], "greedy colouring of a complete/empty graph uses an unexpected number of colours", dict(cfg=m["cfg"], op="objective-known"),
                             dict(m, colours=used, seed=kit.seed))
            if m["of"] == "final" and m["all_legal"] and not m["complete"]:
                kit.fail(["C06", "C11"], "episode ended under mask-respecting play with uncoloured nodes", dict(cfg=m["cfg"], op="complete"), dict(m, colors=bl(s.colors), seed=kit.seed))
        elif kind == "check":
            res["C04"].evaluations += 1
            res["C12"].evaluations += 1
            res["C04"].count("mask-exact-checked:%s" % m["src"])
            if got[0] != 1:
                kit.fail(["C04", "C12"], "action mask is not the set of legal colours of the shown state (verified checker on implementation state)",
                         dict(cfg=m["cfg"], op="mask-exact"), dict(m, seed=kit.seed))
            if m["legal_so_far"]:
                res["C06"].evaluations += 1
                res["C06"].distinct.add((m["cfg"], m["src"], m.get("pol"), m.get("p"), m["b"], m["t"]))
                if got[1] != 1:
                    kit.fail(["C06"], "adjacent nodes share a colour under mask-respecting play", dict(cfg=m["cfg"], op="proper"), dict(m, seed=kit.seed))
            elif m["src"] in ("terminal", "built-terminal"):
                # the terminal colouring after an illegal colour is improper (C05_GraphColoring_invalid_colour_is_written)
                res["C05"].evaluations += 1
                res["C05"].count("terminal-colouring-after-illegal-colour:%s" % ("improper" if got[1] != 1 else "proper"))
                if got[1] == 1:
                    kit.fail(["C05"], "terminal colouring after an illegal colour is proper: the colour was not written?", dict(cfg=m["cfg"], op="illegal-written"), dict(m, seed=kit.seed))
            if m["t"] == 0:
                res["C10"].evaluations += 1
                res["C10"].distinct.add((m["cfg"], m["src"], m.get("p"), m["b"]))
                if got[2] != 1:
                    kit.fail(["C10"], "generated graph is not symmetric/loop-free", dict(cfg=m["cfg"], op="gen-wf"), dict(m, seed=kit.seed))
        elif kind == "gen":
            res["C10"].evaluations += 1
            if got != exp:
                kit.fail(["C10"], "generator model disagrees with tril+transpose", dict(cfg=m["cfg"], op="corr-gen"), dict(m, seed=kit.seed))
    for pid in PROPS:
        res[pid].traces += len(calls)
        if not res[pid].samples:
            res[pid].samples.append(dict(env=NAME, example={k: v for k, v in metas[min(5, len(metas) - 1)][1].items() if k != "state"}))
