"""GraphColoring: correspondence with coq/Model/GraphColoring.v + verified checkers on implementation states."""
import numpy as np

from harness import envkit

NAME = "graph_coloring"
PROPS = ["C04", "C05", "C06", "C08", "C09", "C10", "C12"]
APPLIES = PROPS


def enc_state(n, s):
    return ([int(x) for x in np.asarray(s.adj_matrix).reshape(-1)] + [int(x) for x in np.asarray(s.colors)]
            + [int(s.current_node_index)] + [int(x) for x in np.asarray(s.action_mask)])


def enc_out(s2, ts):
    return ([int(x) for x in np.asarray(s2.colors)] + [int(s2.current_node_index)] + [int(x) for x in np.asarray(s2.action_mask)]
            + [int(ts.step_type), int(round(float(ts.reward))), int(round(float(ts.discount)))])


def analyze(kit):
    import jax
    calls, metas = [], []
    for cfg in kit.configs():
        env = kit.env(cfg)
        n = env.num_nodes
        layout = [("colors", n), ("current_node_index", 1), ("action_mask", n), ("step_type", 1), ("reward", 1), ("discount", 1)]
        for p in (0.0, 0.35):
            roll = kit.roll(cfg, p)
            _, st, ts, ac, fl, k0 = roll
            for b in range(ac.shape[0]):
                s0 = envkit.R.slice_tree(st, b, 0)
                ts0 = envkit.R.slice_tree(ts, b, 0)
                # reset state from the generated instance
                calls.append(("gc_init_io", [n] + [int(x) for x in np.asarray(s0.adj_matrix).reshape(-1)]))
                metas.append(("init", layout, enc_out(s0, ts0), dict(cfg=cfg["label"], p=p, b=b, t=0)))
                ret = 0.0
                for t in range(min(ac.shape[1], fl[b])):
                    ret += float(ts.reward[b, t + 1])
                ncol = len(set(int(c) for c in np.asarray(st.colors[b, min(fl[b], ac.shape[1])]) if c >= 0))
                done_by_completion = fl[b] <= ac.shape[1] and (np.asarray(st.colors[b, fl[b]]) >= 0).all() and p == 0.0
                if done_by_completion:  # C08: return == -(colours used), recomputed from the final state
                    kit.res["C08"].evaluations += 1
                    kit.res["C08"].distinct.add((cfg["label"], b))
                    if ret != -ncol:
                        kit.fail(["C08"], "return != -(number of colours used)", dict(cfg=cfg["label"], op="objective"),
                                 dict(ret=ret, colours=ncol, b=b, seed=kit.seed))
            for (b, t, s, a, s2, ts2) in kit.transitions(roll):
                e = [n] + enc_state(n, s)
                legal = bool(np.asarray(s.action_mask)[int(a)])
                calls.append(("gc_step_io", e + [int(a)]))
                metas.append(("step", layout, enc_out(s2, ts2), dict(cfg=cfg["label"], p=p, b=b, t=t, action=int(a), legal=legal,
                                                                  state=dict(colors=np.asarray(s.colors).tolist(), node=int(s.current_node_index)))))
                calls.append(("gc_check_io", e))
                metas.append(("check", None, [1, 1, 1], dict(cfg=cfg["label"], p=p, b=b, t=t, legal_so_far=(p == 0.0),
                                                            state=dict(colors=np.asarray(s.colors).tolist(), node=int(s.current_node_index),
                                                                       mask=np.asarray(s.action_mask).astype(int).tolist(),
                                                                       adj_row=np.asarray(s.adj_matrix)[int(s.current_node_index)].astype(int).tolist()))))
                # C12: observation fields are copies of the state
                kit.res["C12"].evaluations += 1
                o = ts2.observation
                if not (np.array_equal(o.colors, s2.colors) and np.array_equal(o.action_mask, s2.action_mask)
                        and np.array_equal(o.adj_matrix, s2.adj_matrix) and int(o.current_node_index) == int(s2.current_node_index)):
                    kit.fail(["C12"], "observation differs from the state it views", dict(cfg=cfg["label"], op="obs-copy"), dict(b=b, t=t, seed=kit.seed))
                kit.res["C12"].distinct.add((cfg["label"], b, t))
        # generator on explicit draw matrices (C10): model gen = tril(k=-1)+transpose of the same draws
        from jax import numpy as jnp
        for _ in range(4):
            d = kit.rng.random((n, n)) < 0.5
            a = jnp.tril(jnp.asarray(d), k=-1)
            a = np.asarray(a + a.T)
            calls.append(("gc_gen_io", [n] + [int(x) for x in d.reshape(-1)]))
            metas.append(("gen", None, [int(x) for x in a.reshape(-1)], dict(cfg=cfg["label"])))
    outs = kit.model(calls)
    for (entry, args), (kind, layout, exp, m), got in zip(calls, metas, outs):
        if kind in ("step", "init"):
            bad = envkit.diff_fields(layout, got, exp)
            for pid in ("C09", "C04", "C05"):
                kit.res[pid].evaluations += 1
            kit.res["C09"].distinct.add((m["cfg"], m["p"], m["b"], m["t"]))
            if kind == "step" and not m["legal"]:
                kit.res["C05"].distinct.add((m["cfg"], m["p"], m["b"], m["t"]))
                kit.res["C05"].count("illegal-action-steps")
            if bad:
                pids = {"C09"}
                if "action_mask" in bad:
                    pids.add("C04")
                if kind == "step" and not m["legal"]:
                    pids.add("C05")
                if "reward" in bad:
                    pids.add("C08")
                kit.fail(sorted(pids), "model and implementation disagree on %s (fields %s)" % (kind, ",".join(bad)),
                         dict(cfg=m["cfg"], op="corr-" + kind, fields=",".join(bad)), dict(m, model=got, impl=exp, seed=kit.seed))
        elif kind == "check":
            kit.res["C04"].evaluations += 1
            kit.res["C04"].distinct.add((m["cfg"], m["p"], m["b"], m["t"]))
            if got[0] != 1:
                kit.fail(["C04"], "action mask is not the set of legal colours (verified checker on implementation state)",
                         dict(cfg=m["cfg"], op="mask-exact"), dict(m, seed=kit.seed))
            if m["legal_so_far"]:
                kit.res["C06"].evaluations += 1
                kit.res["C06"].distinct.add((m["cfg"], m["b"], m["t"]))
                if got[1] != 1:
                    kit.fail(["C06"], "adjacent nodes share a colour under mask-respecting play", dict(cfg=m["cfg"], op="proper"), dict(m, seed=kit.seed))
            kit.res["C10"].evaluations += 1
            if m["t"] == 0:
                kit.res["C10"].distinct.add((m["cfg"], m["p"], m["b"]))
                if got[2] != 1:
                    kit.fail(["C10"], "generated graph is not symmetric/loop-free", dict(cfg=m["cfg"], op="gen-wf"), dict(m, seed=kit.seed))
        elif kind == "gen":
            kit.res["C10"].evaluations += 1
            if got != exp:
                kit.fail(["C10"], "generator model disagrees with tril+transpose", dict(cfg=m["cfg"], op="corr-gen"), dict(m, seed=kit.seed))
    for pid in PROPS:
        kit.res[pid].traces += len(calls)
        if not kit.res[pid].samples:
            kit.res[pid].samples.append(dict(env=NAME, example=metas[min(5, len(metas) - 1)][3]))
