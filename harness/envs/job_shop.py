"""JobShop: correspondence with coq/Model/JobShop.v + verified checkers on implementation states.

Everything is integral (int32 arrays, rewards -1 / -J*O*D), so every comparison is exact.
 - every rollout transition (mask-respecting and 35%-uniform policies) is replayed in the extracted model, field by field
 - reset = model `init` of the generated instance; RandomGenerator = model `gen` on the draws recovered by re-splitting
   the reset key exactly as generator.py does; ToyGenerator = the model's literal
 - the verified checkers (mask = legal, Feasible, Complete, instance well-formed, ranges, makespan, potential) are run on the
   implementation's own states; every pre-LAST state is reached by mask-respecting actions only (an invalid action ends the
   episode), so Feasible is required on all of them
 - small configurations: EVERY joint action from visited states through the real jitted+vmapped step; large ones: every
   single-machine deviation (machine m, job j) from a legal joint action.  The mask entry is judged by the env's own
   reaction: with at least one machine given a job the all-idle penalty is impossible, so penalty <=> invalid.
 - a few out-of-spec actions (-1, J+1, ...) are replayed for correspondence only (gathers clamp / wrap).
"""
import itertools

import numpy as np

from harness import envkit

NAME = "job_shop"
PROPS = ["C04", "C05", "C06", "C08", "C09", "C10", "C11", "C12"]
APPLIES = PROPS


def extra_configs(tier, add):
    from jumanji.environments import JobShop
    from jumanji.environments.packing.job_shop import generator as G
    R = G.RandomGenerator
    add("j1m1o1d1", lambda: JobShop(generator=R(num_jobs=1, num_machines=1, max_num_ops=1, max_op_duration=1)), 4)
    add("j2m3o2d3", lambda: JobShop(generator=R(num_jobs=2, num_machines=3, max_num_ops=2, max_op_duration=3)), 16)
    add("j4m1o3d2", lambda: JobShop(generator=R(num_jobs=4, num_machines=1, max_num_ops=3, max_op_duration=2)), 28)
    add("j2m2o4d1", lambda: JobShop(generator=R(num_jobs=2, num_machines=2, max_num_ops=4, max_op_duration=1)), 12)
    add("j5m3o2d4", lambda: JobShop(generator=R(num_jobs=5, num_machines=3, max_num_ops=2, max_op_duration=4)), 44)
    if tier != "quick":
        add("j10m5o5d5", lambda: JobShop(generator=R(num_jobs=10, num_machines=5, max_num_ops=5, max_op_duration=5)), 120)
        add("j3m6o3d3", lambda: JobShop(generator=R(num_jobs=3, num_machines=6, max_num_ops=3, max_op_duration=3)), 30)


def il(x):
    return [int(v) for v in np.asarray(x).reshape(-1)]


def dims(env):
    return [int(env.num_jobs), int(env.num_machines), int(env.max_num_ops), int(env.max_op_duration)]


def enc_state(s):
    return (il(s.ops_machine_ids) + il(s.ops_durations) + il(s.ops_mask) + il(s.machines_job_ids) + il(s.machines_remaining_times)
            + il(s.action_mask) + [int(s.step_count)] + il(s.scheduled_times))


def enc_dyn(s):
    return (il(s.ops_mask) + il(s.machines_job_ids) + il(s.machines_remaining_times) + il(s.action_mask) + [int(s.step_count)]
            + il(s.scheduled_times))


def enc_ts(ts):
    r = float(ts.reward)
    assert r == int(r)
    return [int(ts.step_type), int(r), int(round(float(ts.discount)))]


def layout(J, M, O):
    return [("ops_mask", J * O), ("machines_job_ids", M), ("machines_remaining_times", M), ("action_mask", M * (J + 1)),
            ("step_count", 1), ("scheduled_times", J * O), ("step_type", 1), ("reward", 1), ("discount", 1)]


def brief(s):
    return dict(ops_mask=il(s.ops_mask), job_ids=il(s.machines_job_ids), remaining=il(s.machines_remaining_times),
                step_count=int(s.step_count), scheduled=il(s.scheduled_times), machine_ids=il(s.ops_machine_ids),
                durations=il(s.ops_durations), action_mask=il(s.action_mask))


def py_makespan(s):
    sc, du, mk, mi = (np.asarray(x) for x in (s.scheduled_times, s.ops_durations, s.ops_mask, s.ops_machine_ids))
    done = (mi != -1) & (~mk)
    return int((sc + du)[done].max()) if done.any() else 0


def _stepper(env, _cache={}):
    import jax
    if id(env) not in _cache:
        _cache[id(env)] = (jax.jit(jax.vmap(env.step, in_axes=(None, 0))), env)
    return _cache[id(env)][0]


def step_actions(env, s, acts, pad_to):
    """REAL env.step (jit, vmapped over actions) from the single numpy state s -> list of (state', timestep)"""
    import jax
    import jax.numpy as jnp
    A = np.asarray(acts, np.int32)
    n = len(A)
    if n < pad_to:
        A = np.concatenate([A, np.repeat(A[-1:], pad_to - n, 0)], 0)
    sj = jax.tree_util.tree_map(jnp.asarray, s)
    s2, ts = _stepper(env)(sj, jnp.asarray(A))
    s2, ts = jax.tree_util.tree_map(np.asarray, (s2, ts.replace(extras={})))
    return [(envkit.R.slice_tree(s2, i), envkit.R.slice_tree(ts, i)) for i in range(n)]


def analyze(kit):
    import jax
    import jax.numpy as jnp
    from jumanji.environments.packing.job_shop import generator as G
    quick = kit.tier == "quick"
    res = kit.res
    calls, metas = [], []
    toy_seen = False

    def add_step(d, s, a, s2, ts2, meta):
        J, M, O, D = d
        calls.append(("job_shop_step_io", d + enc_state(s) + [int(x) for x in a]))
        metas.append(("step", layout(J, M, O), enc_dyn(s2) + enc_ts(ts2), meta))

    def add_check(d, s, meta):
        calls.append(("job_shop_check_io", d + enc_state(s)))
        metas.append(("check", None, None, meta))

    for cfg in kit.configs():
        env = kit.env(cfg)
        d = dims(env)
        J, M, O, D = d
        H = J * O * D
        label = cfg["label"]
        is_random = isinstance(env.generator, G.RandomGenerator)
        visited = []
        for p in (0.0, 0.35):
            roll = kit.roll(cfg, p)
            _, st, ts, ac, fl, k0 = roll
            B, T = ac.shape[0], ac.shape[1]
            for b in range(B):
                s0 = envkit.R.slice_tree(st, b, 0)
                ts0 = envkit.R.slice_tree(ts, b, 0)
                # ---- reset = init(instance)
                calls.append(("job_shop_init_io", d + il(s0.ops_machine_ids) + il(s0.ops_durations)))
                metas.append(("init", layout(J, M, O), enc_dyn(s0) + enc_ts(ts0), dict(cfg=label, p=p, b=b, t=0, key=il(k0[b]))))
                # ---- generator: recover the draws from the reset key exactly as RandomGenerator.__call__ does
                if is_random:
                    key, mk, dk, ok = jax.random.split(jnp.asarray(k0[b]), 4)
                    dm = np.asarray(jax.random.randint(mk, (J, O), 0, M))
                    dd = np.asarray(jax.random.randint(dk, (J, O), 1, D + 1))
                    nops = np.asarray(jax.random.randint(ok, (J,), 1, O + 1))
                    calls.append(("job_shop_gen_io", d + il(dm) + il(dd) + il(nops)))
                    metas.append(("gen", None, [1] + il(s0.ops_machine_ids) + il(s0.ops_durations), dict(cfg=label, p=p, b=b, key=il(k0[b]))))
                    res["C10"].count("num_ops==1" if (nops == 1).any() else "num_ops>1")
                    res["C10"].count("num_ops==max" if (nops == O).any() else "num_ops<max")
                elif not toy_seen:
                    toy_seen = True
                    calls.append(("job_shop_toy_io", []))
                    metas.append(("toy", None, d + il(s0.ops_machine_ids) + il(s0.ops_durations), dict(cfg=label)))
                # ---- transitions up to (and including) the first LAST
                end = min(T, fl[b])
                ret = 0
                cause = None
                for t in range(end):
                    s = envkit.R.slice_tree(st, b, t)
                    s2 = envkit.R.slice_tree(st, b, t + 1)
                    ts2 = envkit.R.slice_tree(ts, b, t + 1)
                    a = il(ac[b, t])
                    am = np.asarray(s.action_mask)
                    legal = all(bool(am[m, a[m]]) for m in range(M))
                    meta = dict(cfg=label, p=p, b=b, t=t, action=a, legal=legal, src="rollout", state=brief(s))
                    add_step(d, s, a, s2, ts2, meta)
                    add_check(d, s, dict(cfg=label, p=p, b=b, t=t, kind="pre", first=(t == 0), state=brief(s)))
                    visited.append(s)
                    r = int(float(ts2.reward))
                    ret += r
                    # ---- C12: the observation is a copy of the successor state's fields
                    o = ts2.observation
                    res["C12"].evaluations += 1
                    res["C12"].distinct.add((label, p, b, t))
                    for f in ("ops_machine_ids", "ops_durations", "ops_mask", "machines_job_ids", "machines_remaining_times", "action_mask"):
                        if not np.array_equal(getattr(o, f), getattr(s2, f)):
                            kit.fail(["C12"], "observation field %s is not the state field" % f, dict(cfg=label, op="obs-copy", field=f),
                                     dict(b=b, t=t, p=p, seed=kit.seed))
                    if not (np.array_equal(s2.ops_machine_ids, s.ops_machine_ids) and np.array_equal(s2.ops_durations, s.ops_durations)):
                        kit.fail(["C09", "C05"], "step changed the problem instance", dict(cfg=label, op="instance-const"), dict(b=b, t=t, p=p, seed=kit.seed))
                    if int(ts2.step_type) == 2:
                        # decided from the successor state (with J=O=D=1 the penalty equals the ordinary -1)
                        idle2 = bool(((np.asarray(s2.machines_job_ids) == J) & (np.asarray(s2.machines_remaining_times) == 0)).all())
                        cause = "invalid" if not legal else ("all-idle" if idle2 else "finished")
                        if legal and ((r == -H) != idle2) and H != 1:
                            kit.fail(["C08", "C09"], "penalty given without an all-idle state (or the converse)", dict(cfg=label, op="idle-penalty"),
                                     dict(meta, reward=r, seed=kit.seed))
                # ---- the final state of a finished episode
                if fl[b] <= T and end >= 1:
                    sf = envkit.R.slice_tree(st, b, end)
                    res["C11"].evaluations += 1
                    res["C11"].distinct.add((label, p, b))
                    res["C11"].count("ended:" + str(cause))
                    res["C08"].count("ended:" + str(cause))
                    if end > H:
                        kit.fail(["C11"], "episode longer than num_jobs*max_num_ops*max_op_duration", dict(cfg=label, op="horizon"),
                                 dict(b=b, p=p, steps=int(end), H=H, seed=kit.seed, key=il(k0[b])))
                    add_check(d, sf, dict(cfg=label, p=p, b=b, t=end, kind="final", cause=cause, ret=ret, steps=int(end), first=False,
                                          py_makespan=py_makespan(sf), state=brief(sf)))
                elif fl[b] > T:
                    res["C11"].count("not-ended-within-rollout")
                for t in range(end, min(T, end + 2)):       # steps taken after LAST: correspondence only
                    s = envkit.R.slice_tree(st, b, t)
                    add_step(d, s, il(ac[b, t]), envkit.R.slice_tree(st, b, t + 1), envkit.R.slice_tree(ts, b, t + 1),
                             dict(cfg=label, p=p, b=b, t=t, action=il(ac[b, t]), legal=True, inspec=False, src="after-last", state=brief(s)))

        # ---------------------------------------------------------------- every action / every single-machine deviation
        if visited:
            nact = (J + 1) ** M
            full = nact <= 1500
            npick = (12 if quick else 60) if full else (4 if quick else 20)
            idx = kit.rng.choice(len(visited), min(len(visited), npick), replace=False)
            for i in idx:
                s = visited[int(i)]
                am = np.asarray(s.action_mask)
                if full:
                    acts = [list(a) for a in itertools.product(range(J + 1), repeat=M)]
                    pad = nact
                else:
                    # a legal base action (first legal job per machine, else no-op), then every (machine, job) deviation
                    base = [int(np.argmax(am[m])) for m in range(M)]
                    acts = [base] + [base[:m] + [j] + base[m + 1:] for m in range(M) for j in range(J + 1)]
                    acts += [[J] * M]
                    pad = M * (J + 1) + 2
                # out-of-spec indices: correspondence only
                oos = [[-1] * M, [J + 1] * M, [J + 3] + [J] * (M - 1), [-(J + 1)] + [J] * (M - 1), [-(J + 2)] * M]
                outs = step_actions(env, s, acts + oos, pad + len(oos))
                for k, (a, (s2, ts2)) in enumerate(zip(acts + oos, outs)):
                    inspec = k < len(acts)
                    legal = inspec and all(bool(am[m, a[m]]) for m in range(M))
                    meta = dict(cfg=label, action=a, legal=legal, src="sweep" if inspec else "out-of-spec", inspec=inspec, state=brief(s),
                                p="sweep", b=int(i), t=k)
                    add_step(d, s, a, s2, ts2, meta)
                    if not inspec:
                        continue
                    # the env's own reaction judges the mask: some machine gets a job => never all-idle => penalty <=> invalid
                    r = int(float(ts2.reward))
                    if any(x != J for x in a):
                        res["C04"].evaluations += 1
                        res["C04"].count("reaction-judged:" + ("legal" if legal else "illegal"))
                        if (r == -H and int(ts2.step_type) == 2) != (not legal) and H != 1:
                            kit.fail(["C04", "C05"], "the env's reaction (penalty+LAST) disagrees with its own mask", dict(cfg=label, op="mask-reaction"),
                                     dict(meta, reward=r, step_type=int(ts2.step_type), seed=kit.seed))
                    if not legal:
                        res["C05"].evaluations += 1
                        dup = len([x for x in a if x != J]) != len(set(x for x in a if x != J))
                        res["C05"].count("illegal:" + ("same job on two machines" if dup else "masked-out job"))
                        if not (int(ts2.step_type) == 2 and r == -H and float(ts2.discount) == 0.0):
                            kit.fail(["C05"], "invalid action did not give LAST with the documented penalty", dict(cfg=label, op="invalid-penalty"),
                                     dict(meta, reward=r, step_type=int(ts2.step_type), discount=float(ts2.discount), seed=kit.seed))
                    else:
                        dup = len([x for x in a if x != J]) != len(set(x for x in a if x != J))
                        if dup:
                            kit.fail(["C04", "C05"], "the mask lets two machines take the same job", dict(cfg=label, op="dup-job"), dict(meta, seed=kit.seed))

        if visited and (J + 1) * M <= 60:
            for i in kit.rng.choice(len(visited), min(len(visited), 3 if quick else 12), replace=False):
                s = visited[int(i)]
                du = np.asarray(s.ops_durations).copy()
                realm = np.asarray(s.ops_machine_ids) != -1
                du[realm] = kit.rng.integers(0, 3, int(realm.sum()))
                s = s.replace(ops_durations=du.astype(np.int32))
                am = np.asarray(s.action_mask)
                base = [int(np.argmax(am[m])) for m in range(M)]
                acts = [base] + [base[:m] + [j] + base[m + 1:] for m in range(M) for j in range(J + 1)]
                for k, (a, (s2, ts2)) in enumerate(zip(acts, step_actions(env, s, acts, M * (J + 1) + 7))):
                    add_step(d, s, a, s2, ts2, dict(cfg=label, action=a, legal=True, inspec=False, src="custom-durations", state=brief(s),
                                                    p="custom", b=int(i), t=k))
    # -------------------------------------------------------------------- model
    outs = kit.model(calls)
    pots = {}
    for (entry, args), (kind, lay, exp, m), got in zip(calls, metas, outs):
        if kind in ("step", "init"):
            bad = envkit.diff_fields(lay, got, exp)
            res["C09"].evaluations += 1
            res["C09"].distinct.add((m["cfg"], m.get("p"), m["b"], m["t"]))
            res["C04"].evaluations += 1
            if kind == "step":
                res["C09"].count("step:" + m["src"])
                if m.get("inspec", True) and not m["legal"]:
                    res["C05"].evaluations += 1
                    res["C05"].distinct.add((m["cfg"], m.get("p"), m["b"], m["t"]))
                    res["C05"].count("illegal-action-steps-replayed")
                res["C08"].evaluations += 1
            if bad:
                pids = {"C09"}
                if "action_mask" in bad:
                    pids.add("C04")
                if kind == "step" and m.get("inspec", True) and not m["legal"]:
                    pids.add("C05")
                if "reward" in bad:
                    pids.add("C08")
                if "step_type" in bad:
                    pids.add("C11")
                kit.fail(sorted(pids), "model and implementation disagree on %s (fields %s)" % (kind, ",".join(bad)),
                         dict(cfg=m["cfg"], op="corr-" + kind, fields=",".join(bad)), dict(m, model=got, impl=exp, seed=kit.seed))
        elif kind == "gen":
            res["C10"].evaluations += 1
            res["C10"].distinct.add((m["cfg"], m["p"], m["b"]))
            if got[0] != 1:
                kit.fail(["C10"], "recovered generator draws are outside the declared ranges", dict(cfg=m["cfg"], op="valid-draw"), dict(m, seed=kit.seed))
            if got != exp:
                kit.fail(["C10"], "generator model disagrees with the generated instance", dict(cfg=m["cfg"], op="corr-gen"), dict(m, model=got, impl=exp, seed=kit.seed))
        elif kind == "toy":
            res["C10"].evaluations += 1
            res["C10"].count("toy-literal")
            if got != exp:
                kit.fail(["C10"], "ToyGenerator instance differs from the model's literal", dict(cfg=m["cfg"], op="toy"), dict(model=got, impl=exp))
        elif kind == "check":
            (shape, mask_ok, feas, compl, wf, padok, ranges, mksp, pot, finished, idle) = got
            key = (m["cfg"], m["p"], m["b"], m["t"])
            pots[key] = pot
            res["C04"].evaluations += 1
            res["C04"].distinct.add(key)
            res["C06"].evaluations += 1
            res["C06"].distinct.add(key)
            if shape != 1:
                kit.fail(["C09"], "state arrays do not have the configured shapes", dict(cfg=m["cfg"], op="shape"), dict(m, seed=kit.seed))
            if mask_ok != 1:
                kit.fail(["C04"], "action mask is not the set of legal (machine, job) pairs (verified checker on implementation state)",
                         dict(cfg=m["cfg"], op="mask-exact"), dict(m, seed=kit.seed))
            if ranges != 1:
                kit.fail(["C09"], "state values leave the declared ranges", dict(cfg=m["cfg"], op="ranges"), dict(m, seed=kit.seed))
            valid_path = m["kind"] == "pre" or m.get("cause") in ("finished", "all-idle")
            if valid_path:
                if feas != 1:
                    kit.fail(["C06"], "schedule violates precedence / machine exclusivity under mask-respecting play", dict(cfg=m["cfg"], op="feasible"), dict(m, seed=kit.seed))
            if m.get("first"):
                res["C10"].evaluations += 1
                if wf != 1 or padok != 1:
                    kit.fail(["C10"], "generated instance is not well-formed (ranges / prefix-closed ops / padding)", dict(cfg=m["cfg"], op="gen-wf"), dict(m, seed=kit.seed))
            if m["kind"] == "final":
                res["C08"].evaluations += 1
                res["C08"].distinct.add(key)
                if m["cause"] == "finished":
                    res["C06"].count("completed-schedules")
                    if compl != 1 or finished != 1:
                        kit.fail(["C06"], "episode ended as finished but some operation is unscheduled", dict(cfg=m["cfg"], op="complete"), dict(m, seed=kit.seed))
                    if not (m["ret"] == -mksp == -m["py_makespan"] == -m["steps"]):
                        kit.fail(["C08"], "return != -makespan of the final schedule", dict(cfg=m["cfg"], op="objective"),
                                 dict(m, model_makespan=mksp, seed=kit.seed))
                elif m["cause"] == "all-idle":
                    if idle != 1:
                        kit.fail(["C09"], "all-idle penalty without all machines idle", dict(cfg=m["cfg"], op="idle"), dict(m, seed=kit.seed))
    # C11: the potential (work still to start + work in progress) drops by >= 1 on every step that is not penalised,
    # i.e. every MID step (and the finishing step) either starts an operation or has a busy machine
    for (kind, lay, exp, m), got in zip(metas, outs):
        if kind != "check" or m["t"] < 1:
            continue
        if not (m["kind"] == "pre" or m.get("cause") == "finished"):
            continue
        prev = pots.get((m["cfg"], m["p"], m["b"], m["t"] - 1))
        if prev is None:
            continue
        res["C11"].evaluations += 1
        if not got[8] <= prev - 1:
            kit.fail(["C11"], "a non-penalised step neither started an operation nor had a busy machine (potential did not drop)",
                     dict(cfg=m["cfg"], op="potential-strict"), dict(m, prev=prev, now=got[8], seed=kit.seed))
        if m["kind"] == "pre" and got[8] < 1:
            kit.fail(["C11"], "a running episode has no work left", dict(cfg=m["cfg"], op="potential-positive"), dict(m, seed=kit.seed))
    for pid in PROPS:
        res[pid].traces += len(calls)
        if not res[pid].samples and metas:
            res[pid].samples.append(dict(env=NAME, example={k: v for k, v in metas[min(5, len(metas) - 1)][3].items() if k != "state"}))
