"""Knapsack: correspondence with coq/Model/Knapsack.v + verified checkers on implementation states.

Numbers.  The code computes in float32.  Every float32 is a dyadic rational; all numbers met here are multiples of
2^-30 (uniform draws are multiples of 2^-23, the dyadic-grid instances multiples of 2^-10), so every weight, value,
budget and dense reward is sent to the model as the exact integer x * 2^30 (integrality is asserted, never rounded).
 - real instances (generator states): the model is run with the binary32 rounding of `budget - weight` (rne24), which
   makes packed_items, remaining_budget, action_mask, step type, discount and the DENSE reward bit-exact.  Only the
   SPARSE reward (a float32 dot product, summation order unspecified) is compared with a tolerance of n ulps.
 - dyadic-grid instances (multiples of 2^-10, built directly): float32 arithmetic is exact, everything including
   the sparse reward is compared exactly, against both the exact model and the rne24 model and the declarative
   `step_rules`; these include the boundary weight == remaining budget, zero weights and an exhausted budget.
"""
import numpy as np

from harness import envkit

NAME = "knapsack"
PROPS = ["C04", "C05", "C06", "C08", "C09", "C10", "C11", "C12"]
APPLIES = PROPS
K = 30
SC = 1 << K


def extra_configs(tier, add):
    from jumanji.environments import Knapsack
    from jumanji.environments.packing.knapsack import generator as G, reward as R
    add("n1b05", lambda: Knapsack(generator=G.RandomGenerator(num_items=1, total_budget=0.5)), 4)
    add("n4b0sparse", lambda: Knapsack(generator=G.RandomGenerator(num_items=4, total_budget=0.0), reward_fn=R.SparseReward()), 4)
    add("n8b100sparse", lambda: Knapsack(generator=G.RandomGenerator(num_items=8, total_budget=100.0), reward_fn=R.SparseReward()), 11)
    add("n6b1dense", lambda: Knapsack(generator=G.RandomGenerator(num_items=6, total_budget=1.0), reward_fn=R.DenseReward()), 9)
    if tier != "quick":
        add("n50b12sparse", lambda: Knapsack(reward_fn=R.SparseReward()), 52)
        add("n100b25", lambda: Knapsack(generator=G.RandomGenerator(num_items=100, total_budget=25.0)), 70)


def q(x):
    """exact integer code x * 2^30 of float(s); raises if some value is not a multiple of 2^-30"""
    a = np.asarray(x, np.float64).reshape(-1) * SC
    r = np.round(a)
    if not np.all(r == a) or not np.all(np.isfinite(a)):
        raise ValueError("value off the 2^-30 grid: %r" % (np.asarray(x).reshape(-1)[:4],))
    return [int(v) for v in r]


def bl(x):
    return [int(v) for v in np.asarray(x).reshape(-1)]


class Case:
    __slots__ = ("w", "v", "p", "b", "m", "a", "meta", "grid", "n", "total")

    def __init__(self, w, v, p, b, m, a, grid, total, meta):
        self.w, self.v, self.p, self.b, self.m, self.a = (np.asarray(w, np.float32), np.asarray(v, np.float32), np.asarray(p, bool),
                                                         np.float32(b), None if m is None else np.asarray(m, bool), int(a))
        self.grid, self.total, self.meta, self.n = grid, total, meta, len(self.w)

    def enc(self):
        return q(self.w) + q(self.v) + bl(self.p) + q(self.b)

    def legal(self):  # the rules, stated independently in Python on exact numbers
        return 0 <= self.a < self.n and (not self.p[self.a]) and float(self.w[self.a]) <= float(self.b)


def _stepper(env, _cache={}):
    import jax
    if id(env) not in _cache:
        _cache[id(env)] = (jax.jit(jax.vmap(env.step)), env)
    return _cache[id(env)][0]


def step_many(env, cases):
    """the REAL env.step (jit+vmap) on directly constructed states -> list of (state', timestep) numpy slices"""
    import jax
    import jax.numpy as jnp
    from jumanji.environments.packing.knapsack.types import State
    out = []
    CH = 2048
    for i in range(0, len(cases), CH):
        ch = cases[i:i + CH]
        pad = ch + [ch[-1]] * ((256 if len(ch) <= 256 else CH) - len(ch))       # two batch sizes -> two compilations per env
        S = State(weights=jnp.asarray(np.stack([c.w for c in pad])), values=jnp.asarray(np.stack([c.v for c in pad])),
                  packed_items=jnp.asarray(np.stack([c.p for c in pad])), remaining_budget=jnp.asarray(np.stack([c.b for c in pad])),
                  key=jnp.zeros((len(pad), 2), jnp.uint32))
        A = jnp.asarray(np.asarray([c.a for c in pad], np.int32))
        s2, ts = _stepper(env)(S, A)
        s2, ts = jax.tree_util.tree_map(np.asarray, (s2, ts.replace(extras={})))
        for j in range(len(ch)):
            out.append((envkit.R.slice_tree(s2, j), envkit.R.slice_tree(ts, j)))
    return out


def analyze(kit):
    import jax
    import jax.numpy as jnp
    from jumanji.environments import Knapsack
    from jumanji.environments.packing.knapsack import reward as RW
    quick = kit.tier == "quick"
    res = kit.res
    calls, metas = [], []

    def layout(n):
        return [("packed_items", n), ("remaining_budget", 1), ("action_mask", n), ("step_type", 1), ("reward", 1), ("discount", 1)]

    def enc_out(s2, ts):
        return (bl(s2.packed_items) + q(s2.remaining_budget) + bl(ts.observation.action_mask)
                + [int(ts.step_type)] + q(ts.reward) + [int(round(float(ts.discount)))])

    def submit(cases, envs, label):
        """run every case through the real dense and sparse env and through the model(s)"""
        if not cases:
            return
        for sp, env in envs.items():
            outs = step_many(env, cases)
            for c, (s2, ts) in zip(cases, outs):
                n = c.n
                exp = enc_out(s2, ts)
                m = dict(c.meta, cfg=label, sparse=sp, action=c.a, legal=c.legal(), grid=c.grid, n=n,
                         state=dict(weights=c.w.tolist(), values=c.v.tolist(), packed=bl(c.p), budget=float(c.b)))
                modes = (1, 0) if c.grid else (1,)
                for fl in modes:
                    calls.append(("knapsack_step_io", [n, fl, sp] + c.enc() + [c.a]))
                    metas.append(("step", dict(m, fl=fl), exp, (c, s2, ts)))
                if c.grid and 0 <= c.a < n:
                    calls.append(("knapsack_rules_io", [n, sp] + c.enc() + [c.a]))
                    metas.append(("step", dict(m, fl="rules"), exp, (c, s2, ts)))

    def submit_check(c, legal_so_far, terminal_by_valid=False, where=None):
        """verified checkers on an implementation state (c.m = the mask the implementation showed for it)"""
        calls.append(("knapsack_check_io", [c.n, q(c.total)[0], SC] + c.enc() + bl(c.m)))
        metas.append(("check", dict(c.meta, cfg=where, grid=c.grid, n=c.n, legal_so_far=legal_so_far, terminal_by_valid=terminal_by_valid,
                                    state=dict(weights=c.w.tolist(), values=c.v.tolist(), packed=bl(c.p), budget=float(c.b), mask=bl(c.m))),
                      None, c))

    # ------------------------------------------------------------------ real rollouts
    for cfg in kit.configs():
        env = kit.env(cfg)
        n = env.num_items
        total = np.float32(env.total_budget)
        sparse_cfg = int(isinstance(env.reward_fn, RW.SparseReward))
        envs = {0: env if not sparse_cfg else Knapsack(generator=env.generator, reward_fn=RW.DenseReward()),
                1: env if sparse_cfg else Knapsack(generator=env.generator, reward_fn=RW.SparseReward())}
        label = cfg["label"]
        cases, sweep_states = [], []
        for p in (0.0, 0.35):
            roll = kit.roll(cfg, p)
            _, st, ts, ac, fl, k0 = roll
            B, T = ac.shape
            for b in range(B):
                end = min(T, fl[b])
                # ---- C10: reset state = init(draws), draws valid
                s0 = envkit.R.slice_tree(st, b, 0)
                ts0 = envkit.R.slice_tree(ts, b, 0)
                calls.append(("knapsack_init_io", [n, q(total)[0], SC] + q(s0.weights) + q(s0.values)))
                metas.append(("init", dict(cfg=label, p=p, b=b, n=n), enc_out(s0, ts0) + [1], None))
                # ---- transitions up to the first LAST: executed rollout step, compared directly
                ret_exact = 0
                for t in range(end):
                    s = envkit.R.slice_tree(st, b, t)
                    tsc = envkit.R.slice_tree(ts, b, t)
                    s2 = envkit.R.slice_tree(st, b, t + 1)
                    ts2 = envkit.R.slice_tree(ts, b, t + 1)
                    a = int(ac[b, t])
                    c = Case(s.weights, s.values, s.packed_items, s.remaining_budget, tsc.observation.action_mask, a, False, total,
                             dict(src="rollout", p=p, b=b, t=t))
                    exp = enc_out(s2, ts2)
                    calls.append(("knapsack_step_io", [n, 1, sparse_cfg] + c.enc() + [a]))
                    metas.append(("step", dict(c.meta, cfg=label, sparse=sparse_cfg, action=a, legal=c.legal(), grid=False, n=n, fl=1, rolled=True,
                                               state=dict(weights=c.w.tolist(), values=c.v.tolist(), packed=bl(c.p), budget=float(c.b))), exp, (c, s2, ts2)))
                    cases.append(c)               # replayed below on the dense AND the sparse twin
                    submit_check(c, legal_so_far=(p == 0.0), where=label)
                    sweep_states.append(c)
                    ret_exact += q(ts2.reward)[0]
                    # ---- C12 copied observation fields
                    o = ts2.observation
                    res["C12"].evaluations += 1
                    res["C12"].distinct.add((label, p, b, t))
                    if not (np.array_equal(o.weights, s2.weights) and np.array_equal(o.values, s2.values)
                            and np.array_equal(o.packed_items, s2.packed_items)):
                        kit.fail(["C12"], "observation field is not a copy of the state field", dict(cfg=label, op="obs-copy"),
                                 dict(b=b, t=t, p=p, seed=kit.seed))
                    if not (np.array_equal(s2.weights, s.weights) and np.array_equal(s2.values, s.values)):
                        kit.fail(["C09", "C05"], "step changed the problem instance (weights/values)", dict(cfg=label, op="instance-const"),
                                 dict(b=b, t=t, p=p, seed=kit.seed))
                # ---- final state of the episode
                if end >= 1 and fl[b] <= T:
                    sf = envkit.R.slice_tree(st, b, end)
                    tsf = envkit.R.slice_tree(ts, b, end)
                    last_c = cases[-1]
                    cf = Case(sf.weights, sf.values, sf.packed_items, sf.remaining_budget, tsf.observation.action_mask, 0, False, total,
                              dict(src="final", p=p, b=b, t=end, ret=ret_exact, sparse=sparse_cfg, last_legal=last_c.legal(), steps=int(end)))
                    submit_check(cf, legal_so_far=(p == 0.0), terminal_by_valid=last_c.legal(), where=label)
                    res["C11"].evaluations += 1
                    res["C11"].distinct.add((label, p, b))
                    res["C11"].count("episode-length:%s" % ("=n" if end == n else "<n"))
                    if end > n:
                        kit.fail(["C11"], "episode longer than num_items", dict(cfg=label, op="horizon"), dict(b=b, p=p, steps=int(end), seed=kit.seed))
        submit(cases, envs, label)
        # ---- EVERY action (and a few out-of-spec indices) from visited states
        pick = sweep_states if (n <= 12 or len(sweep_states) <= 40) else [sweep_states[i] for i in kit.rng.choice(len(sweep_states), 40 if quick else 160, replace=False)]
        sweep = []
        for c in pick:
            for a in list(range(n)):
                sweep.append(Case(c.w, c.v, c.p, c.b, c.m, a, False, total, dict(c.meta, src="sweep")))
        submit(sweep, envs, label)
        # ---- float32 boundary states built from visited ones: remaining budget == weight of an unpacked item, and one
        #      grid step (2^-23) above / below it; every action; judged against the float32 model and the env's own reaction
        from jumanji.environments.packing.knapsack.types import State as _State
        fb = []
        if sweep_states:
            for i in kit.rng.choice(len(sweep_states), min(len(sweep_states), 10 if quick else 60), replace=False):
                c = sweep_states[int(i)]
                unp = np.where(~c.p)[0]
                if not len(unp):
                    continue
                j = int(kit.rng.choice(unp))
                for d in (0.0, 2.0 ** -23, -2.0 ** -23):
                    bud = np.float32(max(float(c.w[j]) + d, 0.0))
                    mi = np.asarray(env._state_to_observation(_State(weights=jnp.asarray(c.w), values=jnp.asarray(c.v), packed_items=jnp.asarray(c.p),
                                                                     remaining_budget=jnp.asarray(bud), key=jnp.zeros(2, jnp.uint32))).action_mask)
                    res["C04"].count("boundary:float32 weight==remaining_budget" if d == 0.0 else "boundary:float32 one grid step off")
                    for a in range(n):
                        fb.append(Case(c.w, c.v, c.p, bud, mi, a, False, total, dict(c.meta, src="float-boundary", j=j, d=d)))
        submit(fb, envs, label)
        # ---- C10: more reset keys: valid draws, dependence on the key
        nk = 24 if quick else 128
        keys = jax.random.split(jax.random.PRNGKey(kit.seed + 4242), nk)
        s0s, ts0s = jax.tree_util.tree_map(np.asarray, jax.jit(jax.vmap(env.reset))(keys))
        seen = set()
        for i in range(nk):
            s0 = envkit.R.slice_tree(s0s, i)
            ts0 = envkit.R.slice_tree(ts0s, i)
            calls.append(("knapsack_init_io", [n, q(total)[0], SC] + q(s0.weights) + q(s0.values)))
            metas.append(("init", dict(cfg=label, key=i, n=n), enc_out(s0, ts0) + [1], None))
            seen.add((tuple(q(s0.weights)), tuple(q(s0.values))))
        res["C10"].evaluations += 1
        res["C10"].count("distinct-instances/%d-keys" % nk, len(seen))
        if len(seen) < nk:
            kit.fail(["C10"], "generator does not depend on the key (repeated instance)", dict(cfg=label, op="key-dependence"),
                     dict(keys=nk, distinct=len(seen), seed=kit.seed))

    # ------------------------------------------------------------------ dyadic-grid instances built directly
    from jumanji.environments.packing.knapsack import generator as G
    grid_ns = [1, 2, 3, 5, 8] if quick else [1, 2, 3, 5, 8, 13, 50]
    G10 = 1 << 10
    for n in grid_ns:
        gen = G.RandomGenerator(num_items=n, total_budget=1.0)
        envs = {0: Knapsack(generator=gen, reward_fn=RW.DenseReward()), 1: Knapsack(generator=gen, reward_fn=RW.SparseReward())}
        label = "grid-n%d" % n
        for ep in range(10 if quick else 40):
            mode = ep % 5
            wi = kit.rng.integers(0, G10 + 1, n)           # includes 0 and 1.0 (= declared maximum)
            vi = kit.rng.integers(0, G10 + 1, n)
            if mode == 0:      # budget = weight of one item (boundary at reset)
                bi = int(wi[kit.rng.integers(n)])
            elif mode == 1:    # budget = total weight of a random subset: can be exhausted exactly
                sub = kit.rng.random(n) < 0.6
                bi = int(wi[sub].sum())
            elif mode == 2:    # everything fits
                bi = int(wi.sum()) + int(kit.rng.integers(0, 3))
            elif mode == 3:    # some zero weights / zero budget
                wi[kit.rng.random(n) < 0.4] = 0
                bi = int(kit.rng.integers(0, 2)) * int(wi.max())
            else:
                bi = int(kit.rng.integers(0, max(2, int(wi.sum()))))
            bi = min(bi, 15 * G10)
            w, v = (wi / G10).astype(np.float32), (vi / G10).astype(np.float32)
            total = np.float32(bi / G10)
            packed = np.zeros(n, bool)
            bud = total
            order = list(kit.rng.permutation(n))
            if mode == 1:
                order = [i for i in order if sub[i]] + [i for i in order if not sub[i]]
            rets = {0: 0, 1: 0}
            t = 0
            all_legal = True
            from jumanji.environments.packing.knapsack.types import State as _State
            # the mask the IMPLEMENTATION shows for the constructed state (its own observation function), never recomputed here
            mask = np.asarray(envs[0]._state_to_observation(_State(weights=jnp.asarray(w), values=jnp.asarray(v), packed_items=jnp.asarray(packed),
                                                                    remaining_budget=jnp.asarray(bud), key=jnp.zeros(2, jnp.uint32))).action_mask)
            while True:
                st_meta = dict(src="grid", ep=ep, t=t, mode=mode)
                cases = [Case(w, v, packed, bud, mask, a, True, total, st_meta) for a in list(range(n)) + [n, n + 3, -1, -n, -n - 1, -2 * n - 1]]
                submit(cases, envs, label)
                c0 = cases[0]
                submit_check(c0, legal_so_far=all_legal, where=label)
                if ((~packed) & (w == bud)).any():
                    res["C04"].count("boundary:weight==remaining_budget")
                if bud == 0:
                    res["C04"].count("boundary:budget==0")
                # advance with the REAL env: a legal item following `order`, sometimes an illegal one
                legal_items = [i for i in order if mask[i]]
                illegal_items = [i for i in range(n) if not mask[i]]
                if legal_items and not (illegal_items and kit.rng.random() < 0.1):
                    a = legal_items[0]
                else:
                    a = illegal_items[int(kit.rng.integers(len(illegal_items)))] if illegal_items else 0
                    all_legal = all_legal and bool(mask[a])
                nxt = {sp: step_many(envs[sp], [Case(w, v, packed, bud, mask, a, True, total, st_meta)])[0] for sp in (0, 1)}
                for sp in (0, 1):
                    rets[sp] += q(nxt[sp][1].reward)[0]
                s2, ts2 = nxt[0]
                if not (np.array_equal(s2.packed_items, nxt[1][0].packed_items) and s2.remaining_budget == nxt[1][0].remaining_budget
                        and int(ts2.step_type) == int(nxt[1][1].step_type)):
                    kit.fail(["C08", "C09"], "dense and sparse environments disagree on the successor state", dict(cfg=label, op="dense-sparse-state"),
                             dict(st_meta, action=int(a), seed=kit.seed))
                was_legal = bool(mask[a])
                packed, bud = np.asarray(s2.packed_items), np.float32(s2.remaining_budget)
                mask = np.asarray(ts2.observation.action_mask)
                t += 1
                if int(ts2.step_type) == 2 or t > n + 1:
                    cf = Case(w, v, packed, bud, mask, 0, True, total,
                              dict(src="grid-final", ep=ep, t=t, mode=mode, ret=rets[0], ret_sparse=rets[1], sparse=0, last_legal=was_legal, steps=t))
                    submit_check(cf, legal_so_far=all_legal, terminal_by_valid=was_legal, where=label)
                    res["C11"].evaluations += 1
                    res["C11"].distinct.add((label, ep))
                    res["C11"].count("episode-length:%s" % ("=n" if t == n else "<n" if t < n else ">n"))
                    if t > n:
                        kit.fail(["C11"], "episode longer than num_items", dict(cfg=label, op="horizon"), dict(st_meta, steps=t, seed=kit.seed))
                    break

    # ------------------------------------------------------------------ the rounding function itself, against numpy float32
    xs = [int(x) for x in kit.rng.integers(0, 1 << 40, 300)] + [int(x) for x in kit.rng.integers(0, 1 << 26, 300)]
    xs += [(1 << 24) + d for d in range(-2, 9)] + [(1 << 25) + d for d in range(-4, 13)] + [3 * (1 << 23) + d for d in range(0, 8)] + [0, 1, -5, -(1 << 25) - 2, -(1 << 25) - 6]
    calls.append(("knapsack_rne_io", xs))
    metas.append(("rne", dict(), [int(np.float32(float(x))) for x in xs], None))

    # ------------------------------------------------------------------ float32 note (not a failure): see Proofs/Knapsack.v float32_overpack
    from jumanji.environments.packing.knapsack.types import State
    e2 = Knapsack(generator=G.RandomGenerator(num_items=2, total_budget=1.0))
    sA = State(weights=jnp.array([2.0 ** -25, 1.0], jnp.float32), values=jnp.array([0.5, 0.5], jnp.float32), packed_items=jnp.zeros(2, bool),
               remaining_budget=jnp.array(1.0, jnp.float32), key=jax.random.PRNGKey(0))
    stp = jax.jit(e2.step)
    sB, _ = stp(sA, 0)
    sC, _ = stp(sB, 1)
    res["C06"].notes.append("float32 note: budget 1.0, weights [2^-25, 1.0]: 1.0 - 2^-25 rounds back to 1.0, both items get packed "
                            "(remaining_budget after item 0 = %r, packed = %s): exact packed weight 1 + 2^-25 > budget by half an ulp. "
                            "Inherent to float32; the exact-arithmetic model (and every dyadic-grid instance) keeps packed weight <= budget."
                            % (float(sB.remaining_budget), bl(sC.packed_items)))

    # ------------------------------------------------------------------ compare
    outs = kit.model(calls)
    for (entry, args), (kind, m, exp, extra), got in zip(calls, metas, outs):
        if kind == "step":
            c, s2, ts2 = extra
            n = m["n"]
            exp = list(exp)
            ridx = 2 * n + 2
            inspec = 0 <= m["action"] < n
            if m["sparse"] and not m["grid"] and len(got) == len(exp) and got[ridx] != exp[ridx]:
                # float32 dot product: order of summation unspecified -> n ulps
                tol = n * max(SC, abs(exp[ridx])) >> 23
                res["C08"].count("sparse-reward-compared-with-tolerance")
                if abs(got[ridx] - exp[ridx]) <= tol:
                    exp[ridx] = got[ridx]
            bad = envkit.diff_fields(layout(n), got, exp)
            for pid in ("C09", "C04", "C12"):
                res[pid].evaluations += 1
            key = (m["cfg"], m["src"], m.get("p"), m.get("b"), m.get("ep"), m["t"], m.get("d"), m["action"], m["sparse"])
            res["C09"].distinct.add(key)
            res["C09"].count("model:%s" % ("rules" if m["fl"] == "rules" else "float32" if m["fl"] else "exact"))
            if not inspec:
                res["C09"].count("out-of-spec-index-steps")
            if inspec and not m["legal"]:
                res["C05"].evaluations += 1
                res["C05"].distinct.add(key)
                res["C05"].count("illegal:%s" % ("already-packed" if c.p[m["action"]] else "too-heavy"))
                # the documented effect, judged directly on the implementation's reaction
                untouched = (np.array_equal(s2.packed_items, c.p) and np.float32(s2.remaining_budget) == c.b
                             and np.array_equal(s2.weights, c.w) and np.array_equal(s2.values, c.v))
                if not (int(ts2.step_type) == 2 and float(ts2.reward) == 0.0 and float(ts2.discount) == 0.0 and untouched):
                    kit.fail(["C05"], "illegal item: not (LAST, reward 0, packed items and remaining budget untouched)",
                             dict(cfg=m["cfg"], op="illegal-effect"), dict(m, step_type=int(ts2.step_type), reward=float(ts2.reward),
                                                                          packed_after=bl(s2.packed_items), budget_after=float(s2.remaining_budget), seed=kit.seed))
            if inspec and c.m is not None:
                # C04 judged by the environment's own reaction: mask[a] <=> the item really gets packed
                reacted = bool(s2.packed_items[m["action"]]) and not bool(c.p[m["action"]])
                res["C04"].distinct.add(key[:-1])
                res["C04"].count("mask:%d/env-accepts:%d" % (int(c.m[m["action"]]), int(reacted)))
                if bool(c.m[m["action"]]) != reacted or bool(c.m[m["action"]]) != m["legal"]:
                    kit.fail(["C04"], "mask entry disagrees with the environment's reaction / the rules", dict(cfg=m["cfg"], op="mask-vs-reaction"),
                             dict(m, mask=bl(c.m), accepted=reacted, seed=kit.seed))
            if bad:
                pids = {"C09"}
                if "action_mask" in bad:
                    pids |= {"C04", "C12"}
                if inspec and not m["legal"]:
                    pids.add("C05")
                if "reward" in bad:
                    pids.add("C08")
                if "packed_items" in bad or "remaining_budget" in bad:
                    pids.add("C06")
                if "step_type" in bad or "discount" in bad:
                    pids |= {"C03", "C11"}
                kit.fail(sorted(pids), "model and implementation disagree on step (fields %s)" % ",".join(bad),
                         dict(cfg=m["cfg"], op="corr-step", fields=",".join(bad), model=str(m["fl"])), dict(m, model=got, impl=exp, seed=kit.seed))
        elif kind == "init":
            n = m["n"]
            bad = envkit.diff_fields(layout(n) + [("valid_draw", 1)], got, exp)
            res["C10"].evaluations += 1
            res["C10"].distinct.add((m["cfg"], m.get("p"), m.get("b"), m.get("key")))
            if bad:
                kit.fail(["C10"] + (["C01"] if "valid_draw" in bad else []), "reset state is not init(draws) / draws outside [0,1) (fields %s)" % ",".join(bad),
                         dict(cfg=m["cfg"], op="corr-init", fields=",".join(bad)), dict(m, model=got, impl=exp, seed=kit.seed))
        elif kind == "check":
            c = extra
            mask_ok, feas, nonneg, shp, rng_ok, unp, pval, pw, maximal = got
            res["C04"].evaluations += 1
            res["C12"].evaluations += 1
            if mask_ok != 1:
                kit.fail(["C04", "C12"], "action mask is not {unpacked items with weight <= remaining budget} (verified checker on implementation state)",
                         dict(cfg=m["cfg"], op="mask-exact"), dict(m, seed=kit.seed))
            res["C01"].evaluations += 1
            if shp != 1 or rng_ok != 1:
                kit.fail(["C01", "C10"], "weights/values outside the declared [0,1] range or wrong shape", dict(cfg=m["cfg"], op="ranges"), dict(m, seed=kit.seed))
            # C06: never over budget.  remaining budget >= 0 under ANY in-spec actions; packed weight + remaining = total
            res["C06"].evaluations += 1
            res["C06"].distinct.add((m["cfg"], m["src"], m.get("p"), m.get("b"), m.get("ep"), m["t"]))
            tot = q(c.total)[0]
            if c.grid:
                ok = feas == 1 and pw <= tot
                res["C06"].count("feasible-exact")
            else:
                k = int(np.sum(c.p))
                ok = nonneg == 1 and abs(pw + q(c.b)[0] - tot) <= (k * max(tot, 1) >> 24) + 1 and pw <= tot + (k * max(tot, 1) >> 24) + 1
                res["C06"].count("feasible-within-k-half-ulps")
            if not ok:
                kit.fail(["C06"], "packed weight + remaining budget != total budget, or over budget", dict(cfg=m["cfg"], op="feasible"),
                         dict(m, packed_weight=pw / SC, total=float(c.total), seed=kit.seed))
            if m["src"] in ("final", "grid-final"):
                if m["terminal_by_valid"]:
                    res["C06"].count("completed-episodes")
                    if maximal != 1:
                        kit.fail(["C06", "C11"], "episode ended after a legal item although another item still fits", dict(cfg=m["cfg"], op="maximal"), dict(m, seed=kit.seed))
                # C08: return == packed value recomputed from the final state
                if m["legal_so_far"] and m["terminal_by_valid"]:
                    res["C08"].evaluations += 1
                    res["C08"].distinct.add((m["cfg"], m["src"], m.get("p"), m.get("b"), m.get("ep")))
                    f64 = float(np.dot(np.asarray(c.p, np.float64), np.asarray(c.v, np.float64)))
                    if abs(f64 * SC - pval) > 1e-6 * SC:
                        kit.fail(["C08"], "verified packed_value disagrees with the float64 recomputation", dict(cfg=m["cfg"], op="objective-f64"), dict(m, seed=kit.seed))
                    exact_ret = c.grid or not m["sparse"]
                    res["C08"].count("return-compared-%s" % ("exactly" if exact_ret else "with-tolerance"))
                    tol = 0 if exact_ret else (c.n * max(SC, pval) >> 23)
                    if abs(m["ret"] - pval) > tol:
                        kit.fail(["C08"], "episode return != packed value of the final state", dict(cfg=m["cfg"], op="objective"),
                                 dict(m, ret=m["ret"] / SC, packed_value=pval / SC, seed=kit.seed))
                    if "ret_sparse" in m:
                        res["C08"].count("dense-vs-sparse-compared")
                        if m["ret_sparse"] != m["ret"]:
                            kit.fail(["C08"], "dense and sparse returns differ on the same legal trajectory", dict(cfg=m["cfg"], op="dense-vs-sparse"),
                                     dict(m, dense=m["ret"] / SC, sparse_ret=m["ret_sparse"] / SC, seed=kit.seed))
        elif kind == "rne":
            res["C09"].evaluations += 1
            if got != exp:
                badx = [(x, g, e) for x, g, e in zip(args, got, exp) if g != e][:3]
                kit.fail(["C09"], "model rounding rne24 differs from numpy float32 rounding", dict(op="rne24"), dict(examples=badx))
    for pid in PROPS:
        res[pid].traces += len(calls)
        if not res[pid].samples:
            res[pid].samples.append(dict(env=NAME, example={k: v for k, v in metas[min(5, len(metas) - 1)][1].items() if k != "state"}))
