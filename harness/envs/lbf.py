"""LevelBasedForaging: correspondence with coq/Model/Lbf.v (Impl step + Rules reference step + both observers +
RandomGenerator over recovered draws) and the verified boolean checkers (Inv / mask = legal table / view = declarative
view / spec bounds / monotone food / generated-instance well-formedness) evaluated on the implementation's own states.

Transitions come from the shared mask-respecting / 35%-uniform rollouts, from a FORAGING policy written here (agents walk
to the same food and load it, otherwise random play almost never eats anything), and from directly constructed boundary
states (agents crowded around a food, corners, last steps before the limit, everything-but-one eaten).  From a sample of
states EVERY joint action of the 6^A action space is tried on the real env (vmap), which exercises every illegal action
(C05), judges the mask by the env's own reaction (C04) and checks the invariant after ANY action (C07).

Rewards are float32 in the code and exact rationals in the model: compared with tolerance 2e-6 (and exactly when the
model value is a float32-representable number)."""
import itertools
from fractions import Fraction

import numpy as np

from harness import envkit

NAME = "lbf"
PROPS = ["C01", "C03", "C04", "C05", "C07", "C08", "C09", "C10", "C11", "C12"]
APPLIES = PROPS
TOL = 2e-6


def _G():
    from jumanji.environments.routing.lbf.generator import RandomGenerator
    return RandomGenerator


def _cfgs(tier):
    """(registered, label, time_limit, steps, batch, env kwargs, generator kwargs).  Registered configurations also go through the
    generic C01/C03/C11, mode and wrapper analyses (slow: few of them in the quick tier); the others are analysed here only."""
    q = tier == "quick"
    C = [
        (True, "g5a1f1fov1-t4", 4, 6, None, {}, dict(grid_size=5, fov=1, num_agents=1, num_food=1)),     # minimum sizes
        (False, "g5a2f1fov5-grid-t30", 30, 33, None, dict(grid_observation=True), dict(grid_size=5, fov=5, num_agents=2, num_food=1, force_coop=True)),
        (False, "g6a3f2fov2-pen025-t25", 25, 28, None, dict(penalty=0.25), dict(grid_size=6, fov=2, num_agents=3, num_food=2, max_agent_level=3)),
        (False, "g7a2f3fov3-nonorm-t40", 40, 43, None, dict(normalize_reward=False), dict(grid_size=7, fov=3, num_agents=2, num_food=3)),
        (not q, "g6a4f1fov6-coop-t2", 2, 4, 4, {}, dict(grid_size=6, fov=6, num_agents=4, num_food=1, force_coop=True)),
    ]
    if not q:
        C += [
            (True, "g10a30f6fov2-t5", 5, 7, 8, {}, dict(grid_size=10, fov=2, num_agents=30, num_food=6)),     # the dense generator case
            (False, "g9a3f4fov4-grid-nonorm-pen05-t60", 60, 64, None, dict(grid_observation=True, normalize_reward=False, penalty=0.5),
             dict(grid_size=9, fov=4, num_agents=3, num_food=4)),
            (True, "g8a2f2fov8-t100", 100, 104, None, {}, dict(grid_size=8, fov=8, num_agents=2, num_food=2, force_coop=True)),
            (False, "g12a5f3fov3-pen0125-t30", 30, 33, 8, dict(penalty=0.125), dict(grid_size=12, fov=3, num_agents=5, num_food=3, max_agent_level=4)),
        ]
    return C


def _maker(ekw, gkw):
    import jumanji.environments as E
    G = _G()
    return lambda t: E.LevelBasedForaging(generator=G(**gkw), time_limit=t, **ekw)


def extra_configs(tier, add):
    for (reg, label, tl, steps, batch, ekw, gkw) in _cfgs(tier):
        if reg:
            mk = _maker(ekw, gkw)
            add(label, (lambda mk=mk, tl=tl: mk(tl)), steps, batch=batch, time_limit=tl, mk=mk)


def private_configs(tier):
    q = tier == "quick"
    out = []
    for (reg, label, tl, steps, batch, ekw, gkw) in _cfgs(tier):
        if not reg:
            mk = _maker(ekw, gkw)
            out.append(dict(env=NAME, label=label, make=(lambda mk=mk, tl=tl: mk(tl)), steps=steps, batch=batch or (6 if q else 16), time_limit=tl,
                            tags=dict(mk=mk), private=True))
    return out


# ---------------------------------------------------------------- encoders
def ints(x):
    return [int(v) for v in np.asarray(x).reshape(-1)]


def is_grid(env):
    from jumanji.environments.routing.lbf.observer import GridObserver
    return isinstance(env._observer, GridObserver)


def enc_cfg(env):
    pen = Fraction(float(np.float32(env.penalty)))
    return [int(env.grid_size), int(env.num_agents), int(env.num_food), int(env.fov), int(env.time_limit), int(bool(env.normalize_reward)),
            pen.numerator, pen.denominator, int(is_grid(env)), int(env._generator.max_agent_level)]


def enc_state(s):
    a, f = s.agents, s.food_items
    pa, pf = np.asarray(a.position), np.asarray(f.position)
    A = np.column_stack([np.asarray(a.id), pa[:, 0], pa[:, 1], np.asarray(a.level), np.asarray(a.loading)]).astype(np.int64)
    F = np.column_stack([np.asarray(f.id), pf[:, 0], pf[:, 1], np.asarray(f.level), np.asarray(f.eaten)]).astype(np.int64)
    return A.reshape(-1).tolist() + F.reshape(-1).tolist() + [int(s.step_count)]


def enc_obs(o):
    return ints(o.action_mask) + ints(o.agents_view)


def view_len(env):
    return 3 * (2 * env.fov + 1) ** 2 if is_grid(env) else 3 * (env.num_food + env.num_agents)


def lay_state(env):
    return [("agents", 5 * env.num_agents), ("food_items", 5 * env.num_food), ("step_count", 1)]


def lay_obs(env):
    return [("action_mask", 6 * env.num_agents), ("agents_view", env.num_agents * view_len(env))]


def lay_ts(env):
    return [("step_type", 1), ("discount", env.num_agents)]


def describe(s):
    a, f = s.agents, s.food_items
    return dict(agents=[[int(i)] + [int(v) for v in p] + [int(l), int(b)] for i, p, l, b in
                        zip(np.asarray(a.id), np.asarray(a.position), np.asarray(a.level), np.asarray(a.loading))],
                food=[[int(i)] + [int(v) for v in p] + [int(l), int(b)] for i, p, l, b in
                      zip(np.asarray(f.id), np.asarray(f.position), np.asarray(f.level), np.asarray(f.eaten))],
                step_count=int(s.step_count))


def rewards_match(pairs, impl):
    """pairs: model (num, den)*; impl: float32 array.  -> (ok, exact_count)"""
    impl = np.asarray(impl, np.float64).reshape(-1)
    if len(pairs) != 2 * len(impl):
        return False, 0
    exact = 0
    for i, r in enumerate(impl):
        q = Fraction(pairs[2 * i], pairs[2 * i + 1])
        if not np.isfinite(r):
            return False, exact
        if Fraction(float(r)) == q:
            exact += 1
        elif abs(float(q) - r) > TOL * max(1.0, abs(r)):
            return False, exact
    return True, exact


# ---------------------------------------------------------------- real-env drivers
_JIT = {}


def forage_rollout(env, keys, steps, eps, p_unif):
    """Agents walk towards the first uneaten food and LOAD when adjacent; eps: random masked move; p_unif: any action."""
    import jax
    import jax.numpy as jnp
    from jumanji.environments.routing.lbf.constants import MOVES

    def policy(key, s, mask, eps, p_unif):
        A = mask.shape[0]
        k1, k2, k3, k4 = jax.random.split(key, 4)
        pos = s.agents.position
        tgt = s.food_items.position[jnp.argmax(~s.food_items.eaten)]
        newpos = pos[:, None, :] + MOVES[None, :, :]
        dist = jnp.abs(tgt[None, None, :] - newpos).sum(-1).astype(jnp.float32)
        adj = jnp.abs(tgt[None, :] - pos).sum(-1) == 1
        score = jnp.where(mask, -dist, -1e4)
        score = score.at[:, 5].set(jnp.where(adj & mask[:, 5], 1e3, -1e4))
        score = score.at[:, 0].add(-0.5) + 0.3 * jax.random.uniform(k1, score.shape)
        greedy = jnp.argmax(score, -1)
        pm = mask.astype(jnp.float32)
        masked = jax.vmap(lambda k, p: jax.random.choice(k, 6, p=p / p.sum()))(jax.random.split(k2, A), pm)
        unif = jax.random.randint(k3, (A,), 0, 6)
        u = jax.random.uniform(k4, (A,))
        return jnp.where(u < p_unif, unif, jnp.where(u < p_unif + eps, masked, greedy)).astype(jnp.int32)

    def one(key, eps, p_unif):
        k0, kp = jax.random.split(key)
        s0, ts0 = env.reset(k0)
        ts0 = ts0.replace(extras={})

        def body(carry, k):
            s, ts = carry
            a = policy(k, s, ts.observation.action_mask, eps, p_unif)
            s2, ts2 = env.step(s, a)
            ts2 = ts2.replace(extras={})
            return (s2, ts2), (s2, ts2, a)
        _, (ss, tss, acts) = jax.lax.scan(body, (s0, ts0), jax.random.split(kp, steps))
        cat = lambda a, b: jnp.concatenate([jnp.asarray(a)[None], jnp.asarray(b)], 0)
        return jax.tree_util.tree_map(cat, s0, ss), jax.tree_util.tree_map(cat, ts0, tss), acts, k0
    ck = ("forage", id(env), steps)
    if ck not in _JIT:
        _JIT[ck] = (jax.jit(jax.vmap(one, in_axes=(0, None, None))), env)
    st, ts, ac, k0 = _JIT[ck][0](keys, jnp.float32(eps), jnp.float32(p_unif))
    to_np = lambda t: jax.tree_util.tree_map(np.asarray, t)
    st, ts = to_np(st), to_np(ts)
    return (env, st, ts, np.asarray(ac), envkit.R.first_last(ts), np.asarray(k0))


def mk_states(env, rows):
    """rows: list of (apos[A,2], alvl[A], aload[A], fpos[F,2], flvl[F], eaten[F], cnt) -> batched State"""
    import jax
    import jax.numpy as jnp
    from jumanji.environments.routing.lbf.types import Agent, Food, State
    A, F, N = env.num_agents, env.num_food, len(rows)
    col = lambda k, dt: np.stack([np.asarray(r[k]) for r in rows]).astype(dt)
    return State(agents=Agent(id=np.tile(np.arange(A, dtype=np.int32), (N, 1)), position=col(0, np.int32), level=col(1, np.int32), loading=col(2, bool)),
                 food_items=Food(id=np.tile(np.arange(F, dtype=np.int32), (N, 1)), position=col(3, np.int32), level=col(4, np.int32), eaten=col(5, bool)),
                 step_count=col(6, np.int32), key=np.zeros((N, 2), np.uint32))


def state_row(s):
    return (np.asarray(s.agents.position), np.asarray(s.agents.level), np.asarray(s.agents.loading), np.asarray(s.food_items.position),
            np.asarray(s.food_items.level), np.asarray(s.food_items.eaten), np.asarray(s.step_count))


def synthetic_rows(kit, env, n):
    """physically consistent states built directly: agents crowded around a food / in corners / anywhere, foods anywhere
    (border too: step is a function of the state), some eaten, loading flags arbitrary, step counts near the limit."""
    g, A, F, T = env.grid_size, env.num_agents, env.num_food, env.time_limit
    ml = env._generator.max_agent_level
    rng = kit.rng
    out = []
    for k in range(n):
        mode = k % 4
        cells = [(x, y) for x in range(g) for y in range(g)]
        fidx = rng.choice(len(cells), F, replace=False)
        fpos = np.asarray([cells[i] for i in fidx], np.int32)
        eaten = rng.random(F) < (0.3 if mode != 3 else 0.0)
        if mode == 2 and F > 1:           # all but one eaten
            eaten[:] = True
            eaten[int(rng.integers(F))] = False
        taken = {tuple(p) for p in fpos}  # agents may stand on EATEN food cells
        free = [c for c in cells if c not in {tuple(p) for p, e in zip(fpos, eaten) if not e}]
        apos = []
        f0 = fpos[int(np.argmax(~eaten))] if (~eaten).any() else fpos[0]
        near = [c for c in free if abs(c[0] - f0[0]) + abs(c[1] - f0[1]) <= 2]
        corners = [c for c in [(0, 0), (0, g - 1), (g - 1, 0), (g - 1, g - 1)] if c in free]
        for i in range(A):
            pool = near if mode in (0, 2) and rng.random() < 0.8 else corners if mode == 1 and rng.random() < 0.6 else free
            pool = [c for c in pool if c not in apos] or [c for c in free if c not in apos]
            apos.append(pool[int(rng.integers(len(pool)))])
        alvl = rng.integers(1, ml + 1, A)
        flvl = rng.integers(1, max(2, min(A * ml, int(np.sort(alvl)[:3].sum()))) + 1, F)
        cnt = [0, max(T - 2, 0), max(T - 1, 0), int(rng.integers(0, max(T, 1)))][int(rng.integers(4))]
        out.append((np.asarray(apos, np.int32), alvl.astype(np.int32), rng.random(A) < 0.3, fpos, flvl.astype(np.int32), eaten, np.int32(cnt)))
    return out


def analyze(kit):
    import jax
    import jax.numpy as jnp

    q = kit.tier == "quick"
    res = kit.res
    calls, metas = [], []

    def call(entry, args, kind, exp, m, layout=None):
        calls.append((entry, args))
        metas.append((kind, layout, exp, m))

    for cfg in list(kit.configs()) + private_configs(kit.tier):
        env = kit.env(cfg)
        g, A, F, T = env.grid_size, env.num_agents, env.num_food, env.time_limit
        label = cfg["label"]
        ec = enc_cfg(env)
        coop = int(bool(env._generator.force_coop))
        L_step = lay_state(env) + lay_obs(env) + lay_ts(env)
        L_ref = lay_state(env) + lay_ts(env)
        norm, pen = bool(env.normalize_reward), float(env.penalty)
        visited = []
        rolls = [] if cfg.get("private") else [("mask", kit.roll(cfg, 0.0)), ("unif35", kit.roll(cfg, 0.35))]
        base = jax.random.PRNGKey(kit.seed * 6151 + 17)
        rolls.append(("forage", forage_rollout(env, jax.random.split(base, cfg["batch"]), cfg["steps"], 0.1, 0.0)))
        rolls.append(("forage-unif15", forage_rollout(env, jax.random.split(jax.random.fold_in(base, 1), cfg["batch"]), cfg["steps"], 0.1, 0.15)))
        for pol, roll in rolls:
            _, st, ts, ac, fl, k0 = roll
            B, Tn = ac.shape[0], ac.shape[1]
            s0s = set()
            for b in range(B):
                s0 = envkit.R.slice_tree(st, b, 0)
                ts0 = envkit.R.slice_tree(ts, b, 0)
                where = dict(cfg=label, pol=pol, b=b, t=0)
                # ---- C10: the generator over the draws recovered from the generated state
                fp, ap = np.asarray(s0.food_items.position), np.asarray(s0.agents.position)
                dr = ints(fp[:, 0] * g + fp[:, 1]) + ints(ap[:, 0] * g + ap[:, 1]) + ints(s0.agents.level) + ints(s0.food_items.level)
                exp = [1] + enc_state(s0) + [int(ts0.step_type)] + ints(np.asarray(ts0.reward) != 0) + ints(ts0.discount)
                call("lbf_gen_io", ec + [coop] + dr, "gen", exp, dict(where, state=describe(s0)),
                     [("valid_draws", 1)] + lay_state(env) + [("step_type", 1), ("reward", A), ("discount", A)])
                call("lbf_gencheck_io", ec + [coop] + enc_state(s0), "gencheck", [1], dict(where, state=describe(s0)))
                call("lbf_obs_io", ec + enc_state(s0), "obs0", enc_obs(ts0.observation), dict(where, state=describe(s0)), lay_obs(env))
                call("lbf_check_io", ec + enc_state(s0), "check", [1, 1, 1, 1], dict(where, state=describe(s0)))
                res["C12"].count("reset-observations")
                if int(ts0.observation.step_count) != 0:
                    kit.fail(["C12"], "reset observation step_count != 0", dict(cfg=label, op="obs-copy"), dict(where, seed=kit.seed))
                s0s.add(tuple(enc_state(s0)))
                # ---- C08: episode return against the eaten food mass of the final state
                n = int(min(Tn, fl[b]))
                sN = envkit.R.slice_tree(st, b, n)
                ret = float(np.sum(np.asarray(ts.reward[b, 1:n + 1], np.float64)))
                call("lbf_mono_io", ec + enc_state(s0) + enc_state(sN), "return", None,
                     dict(where, steps=n, ret=ret, norm=norm, pen=pen, ended=bool(fl[b] <= Tn), final=describe(sN)))
            res["C10"].evaluations += 1
            res["C10"].distinct.add(("key-dependence", label, pol))
            if B >= 4 and len(s0s) < 2:
                kit.fail(["C10"], "generator does not depend on the key (all reset states equal)", dict(cfg=label, op="gen-key"), dict(pol=pol, seed=kit.seed))
            for (b, t, s, a, s2, ts2) in kit.transitions(roll):
                where = dict(cfg=label, pol=pol, b=b, t=t)
                m = dict(where, action=ints(a), state=describe(s), masked=[bool(np.asarray(ts.observation.action_mask[b, t])[i, int(a[i])]) for i in range(A)])
                e = ec + enc_state(s)
                o = ts2.observation
                call("lbf_step_io", e + ints(a), "step", (enc_state(s2) + enc_obs(o) + [int(ts2.step_type)] + ints(ts2.discount), np.asarray(ts2.reward)), m, L_step)
                call("lbf_ref_io", e + ints(a), "ref", (enc_state(s2) + [int(ts2.step_type)] + ints(ts2.discount), np.asarray(ts2.reward)), m, L_ref)
                call("lbf_check_io", ec + enc_state(s2), "check", [1, 1, 1, 1], dict(where, state=describe(s2), succ=True))
                call("lbf_mono_io", e + enc_state(s2), "mono", None, dict(m, reward=np.asarray(ts2.reward, np.float64).tolist(), norm=norm, pen=pen, next=describe(s2)))
                res["C12"].evaluations += 1
                res["C12"].distinct.add((label, pol, b, t))
                if int(o.step_count) != int(s2.step_count):
                    kit.fail(["C12"], "observation step_count differs from the state", dict(cfg=label, op="obs-copy"), dict(m, seed=kit.seed))
                # ---- C03 / C11: LAST exactly when everything is eaten or the limit is reached; truncation keeps discount 1
                alle = bool(np.asarray(s2.food_items.eaten).all())
                atlim = int(s2.step_count) >= T
                last = int(ts2.step_type) == 2
                d = np.asarray(ts2.discount, np.float64)
                for pid in ("C03", "C11"):
                    res[pid].evaluations += 1
                    res[pid].distinct.add((label, pol, b, t))
                res["C03"].count("last:%s" % ("terminated" if alle else "truncated") if last else "mid")
                if last != (alle or atlim):
                    kit.fail(["C11", "C03"], "LAST is not exactly (all food eaten or step_count >= time_limit)", dict(cfg=label, op="last-cause"), dict(m, seed=kit.seed))
                if not np.array_equal(d, np.zeros(A) if alle else np.ones(A)):
                    kit.fail(["C03"], "discount is not 0 on termination / 1 on MID and on truncation", dict(cfg=label, op="discount"), dict(m, seed=kit.seed, discount=d.tolist()))
                visited.append(s)

        # ---- every joint action from sampled visited states and constructed boundary states
        nv, nsyn = {1: (12, 16), 2: (6, 10), 3: (2, 3)}.get(A, (1, 1))
        if not q:
            nv, nsyn = nv * 3, nsyn * 3
        if A > 4:
            nv, nsyn = 0, 0   # 6^A too large: joint actions sampled below
        acts = np.asarray(list(itertools.product(range(6), repeat=A)), np.int32) if A <= 4 else kit.rng.integers(0, 6, (200, A)).astype(np.int32)
        idx = kit.rng.permutation(len(visited))[:max(nv, 1)] if visited else []
        rows = [state_row(visited[i]) for i in idx]
        nvis = len(rows)
        rows += synthetic_rows(kit, env, max(nsyn, 1))
        batch = mk_states(env, rows)

        def step_noextras(s, a):
            s2, t2 = env.step(s, a)
            return s2, t2.replace(extras={})
        obs_of = jax.jit(jax.vmap(env._observer.state_to_observation))
        O = jax.tree_util.tree_map(np.asarray, obs_of(batch))
        f = jax.jit(jax.vmap(jax.vmap(step_noextras, in_axes=(None, 0)), in_axes=(0, None)))
        S2, TS2 = f(batch, jnp.asarray(acts))
        S2 = jax.tree_util.tree_map(np.asarray, S2)
        TS2 = jax.tree_util.tree_map(np.asarray, TS2)
        batch_np = jax.tree_util.tree_map(np.asarray, batch)
        J = acts.shape[0]
        pow6 = [6 ** (A - 1 - i) for i in range(A)]
        for k in range(len(rows)):
            origin = "visited" if k < nvis else "synthetic"
            s = envkit.R.slice_tree(batch_np, k)
            o = envkit.R.slice_tree(O, k)
            e = ec + enc_state(s)
            mask = np.asarray(o.action_mask)
            wk = dict(cfg=label, origin=origin, k=k)
            call("lbf_check_io", e, "check", [1, 1, 1, 1], dict(wk, state=describe(s)))
            call("lbf_obs_io", e, "obs0", enc_obs(o), dict(wk, state=describe(s)), lay_obs(env))
            pos = np.asarray(s.agents.position)
            for j in range(J):
                a = acts[j]
                s2 = envkit.R.slice_tree(S2, k, j)
                ts2 = envkit.R.slice_tree(TS2, k, j)
                legal = [bool(mask[i, int(a[i])]) for i in range(A)]
                m = dict(wk, action=ints(a), masked=legal, state=describe(s), all_actions=True)
                call("lbf_step_io", e + ints(a), "step", (enc_state(s2) + enc_obs(ts2.observation) + [int(ts2.step_type)] + ints(ts2.discount), np.asarray(ts2.reward)), m, L_step)
                if j % 3 == 0 or not all(legal):
                    call("lbf_ref_io", e + ints(a), "ref", (enc_state(s2) + [int(ts2.step_type)] + ints(ts2.discount), np.asarray(ts2.reward)), m, L_ref)
                call("lbf_check_io", ec + enc_state(s2), "check-succ", [1], dict(m, next=describe(s2)))
                p2 = np.asarray(s2.agents.position)
                # ---- C04 by the env's own reaction: one agent acts, the others NOOP
                movers = [i for i in range(A) if a[i] != 0]
                if len(movers) == 1 and A <= 4:
                    i = movers[0]
                    ai = int(a[i])
                    res["C04"].evaluations += 1
                    res["C04"].distinct.add((label, origin, k, j))
                    res["C04"].count("single-agent-reactions")
                    if 1 <= ai <= 4:
                        moved = not np.array_equal(p2[i], pos[i])
                        if moved != legal[i]:
                            kit.fail(["C04"], "mask disagrees with the env's reaction to a lone move (masked-in move ignored or masked-out move executed)",
                                     dict(cfg=label, op="mask-reaction"), dict(m, seed=kit.seed, moved=moved, next=describe(s2)))
                    elif ai == 5 and not legal[i]:
                        if not (np.array_equal(s2.food_items.eaten, s.food_items.eaten) and not np.asarray(ts2.reward).any()):
                            kit.fail(["C04"], "masked-out LOAD ate food or was rewarded", dict(cfg=label, op="mask-reaction"), dict(m, seed=kit.seed, next=describe(s2)))
                # ---- C05: every agent playing an illegal action stays put, and the whole step equals the step where those
                #      agents play NOOP instead (except their own loading flag)
                if not all(legal) and A <= 4:
                    res["C05"].evaluations += 1
                    res["C05"].distinct.add((label, origin, k, j))
                    res["C05"].count("illegal-joint-actions")
                    bad_i = [i for i in range(A) if not legal[i]]
                    stay = all(np.array_equal(p2[i], pos[i]) for i in bad_i)
                    jj = sum((0 if i in bad_i else int(a[i])) * pow6[i] for i in range(A))
                    r2 = envkit.R.slice_tree(S2, k, jj)
                    rt2 = envkit.R.slice_tree(TS2, k, jj)
                    ld = np.asarray(s2.agents.loading).copy()
                    ld[bad_i] = False
                    same = (np.array_equal(s2.agents.position, r2.agents.position) and np.array_equal(ld, r2.agents.loading)
                            and np.array_equal(s2.food_items.eaten, r2.food_items.eaten) and np.array_equal(ts2.reward, rt2.reward)
                            and int(ts2.step_type) == int(rt2.step_type) and np.array_equal(ts2.discount, rt2.discount))
                    cont = int(ts2.step_type) == 1 or bool(np.asarray(s2.food_items.eaten).all()) or int(s2.step_count) >= T
                    if not (stay and same and cont):
                        kit.fail(["C05"], "illegal action not ignored (agent moved, something eaten/rewarded on its behalf, or episode ended)",
                                 dict(cfg=label, op="illegal-effect"), dict(m, seed=kit.seed, stay=stay, same_as_noop=same, next=describe(s2)))

    outs = kit.model(calls)
    for (entry, args), (kind, layout, exp, m), got in zip(calls, metas, outs):
        cid = tuple(sorted((k, str(v)) for k, v in m.items() if k in ("cfg", "pol", "b", "t", "origin", "k", "action", "succ")))
        if kind in ("step", "ref"):
            exp_i, exp_r = exp
            n = len(exp_i)
            bad = envkit.diff_fields(layout, got[:n], exp_i)
            ok_r, exact = rewards_match(got[n:], exp_r)
            if not ok_r:
                bad.append("reward")
            illegal = not all(m["masked"])
            pids = ["C09"] + (["C05"] if illegal else []) + (["C12", "C04"] if kind == "step" else [])
            for pid in pids + ["C08"]:
                res[pid].evaluations += 1
                res[pid].distinct.add((kind,) + cid)
            res["C09"].count("corr-" + kind)
            res["C08"].count("rewards-exact" if exact == len(exp_r) else "rewards-within-tolerance")
            if illegal:
                res["C05"].count("illegal-action-steps-replayed")
            if bad:
                blame = {"C09"} | ({"C05"} if illegal else set())
                if "action_mask" in bad:
                    blame.add("C04")
                if "agents_view" in bad:
                    blame.add("C12")
                if "agents" in bad or "food_items" in bad:
                    blame.add("C07")
                if "reward" in bad:
                    blame.add("C08")
                if "step_count" in bad or "step_type" in bad:
                    blame.add("C11")
                if "step_type" in bad or "discount" in bad:
                    blame.add("C03")
                what = "Impl model and implementation disagree on step" if kind == "step" else "Rules reference step and implementation disagree"
                kit.fail(sorted(blame), "%s (fields %s)" % (what, ",".join(bad)), dict(cfg=m["cfg"], op="corr-" + kind, fields=",".join(bad)),
                         dict(m, model=got[:80], impl=exp_i[:80], impl_reward=np.asarray(exp_r, np.float64).tolist(), model_reward=got[n:], seed=kit.seed))
        elif kind == "obs0":
            bad = envkit.diff_fields(layout, got, exp)
            for pid in ("C12", "C04"):
                res[pid].evaluations += 1
                res[pid].distinct.add((kind,) + cid)
            if bad:
                kit.fail(sorted({"C12"} | ({"C04"} if "action_mask" in bad else set())), "observation model and implementation disagree (fields %s)" % ",".join(bad),
                         dict(cfg=m["cfg"], op="corr-obs", fields=",".join(bad)), dict(m, model=got[:80], impl=exp[:80], seed=kit.seed))
        elif kind in ("check", "check-succ"):
            names = ["Inv", "mask-exact", "view-exact", "spec-bounds"]
            blame = {"Inv": ["C07"], "mask-exact": ["C04"], "view-exact": ["C12"], "spec-bounds": ["C01"]}
            for i, ev in enumerate(exp):
                for pid in blame[names[i]]:
                    res[pid].evaluations += 1
                    res[pid].distinct.add((kind, names[i]) + cid)
                if got[i] != ev:
                    kit.fail(blame[names[i]], "verified checker %s fails on an implementation state%s" % (names[i], " reached by an arbitrary joint action" if kind == "check-succ" else ""),
                             dict(cfg=m["cfg"], op="checker-" + names[i]), dict(m, kind=kind, seed=kit.seed))
        elif kind == "gen":
            bad = envkit.diff_fields(layout, got, exp)
            res["C10"].evaluations += 1
            res["C10"].distinct.add((kind,) + cid)
            res["C10"].count("generated-states-replayed")
            if bad:
                kit.fail(["C10"] + (["C03"] if set(bad) & {"step_type", "reward", "discount"} else []),
                         "generator model on the recovered draws disagrees with reset, or the draws are not valid (fields %s)" % ",".join(bad),
                         dict(cfg=m["cfg"], op="corr-gen", fields=",".join(bad)), dict(m, model=got[:80], impl=exp[:80], seed=kit.seed))
        elif kind == "gencheck":
            res["C10"].evaluations += 1
            res["C10"].distinct.add((kind,) + cid)
            if got != exp:
                kit.fail(["C10"], "generated instance is not well formed (distinct cells / food interior and non adjacent / levels / force_coop)",
                         dict(cfg=m["cfg"], op="gen-wf"), dict(m, seed=kit.seed))
        elif kind == "mono":
            for pid in ("C07", "C08"):
                res[pid].evaluations += 1
                res[pid].distinct.add(("mono",) + cid)
            if got[0] != 1:
                kit.fail(["C07"], "food moved / changed level / came back, or an agent changed id, level or jumped", dict(cfg=m["cfg"], op="mono"), dict(m, seed=kit.seed))
            if m["norm"] and m["pen"] == 0.0 and got[3] > 0:
                tot = float(np.sum(m["reward"]))
                if abs(tot - (got[2] - got[1]) / got[3]) > 1e-5:
                    kit.fail(["C08"], "normalised step rewards do not sum to (level of food eaten this step) / (total food level)",
                             dict(cfg=m["cfg"], op="step-reward"), dict(m, mass_before=got[1], mass_after=got[2], total=got[3], seed=kit.seed))
        elif kind == "return":
            res["C08"].evaluations += 1
            res["C08"].distinct.add(("return",) + cid)
            if m["norm"] and m["pen"] == 0.0 and got[3] > 0:
                frac = (got[2] - got[1]) / got[3]
                res["C08"].count("episode-returns:%s" % ("all-food-collected" if got[2] == got[3] else "partial"))
                if abs(m["ret"] - frac) > 1e-4 or (got[2] == got[3] and abs(m["ret"] - 1.0) > 1e-4):
                    kit.fail(["C08"], "episode return != (level of food eaten) / (total food level) [= 1 when all food is collected]",
                             dict(cfg=m["cfg"], op="return"), dict(m, mass=got[2], total=got[3], seed=kit.seed))
            else:
                res["C08"].count("episode-returns:unnormalised-or-penalised(step-wise only)")
    for pid in PROPS:
        res[pid].traces += len(calls)
        if not res[pid].samples and metas:
            res[pid].samples.append(dict(env=NAME, example={k: v for k, v in metas[min(9, len(metas) - 1)][3].items()}))
