"""Maze: correspondence with coq/Model/Maze.v and coq/Model/MazeGen.v + verified checkers on implementation states.

- every rollout transition and EVERY action (0..3) from every visited state and from directly constructed boundary
  states is replayed in the extracted model (`maze_step_io` = Impl layer, `maze_rule_io` = declarative rules) and
  compared field by field with the real `env.step`;
- `maze_check_io` (Physical_b, mask == legal_b) runs on the implementation's own states; the mask is also judged by
  the environment's own reaction (mask[a] <=> the agent moves);
- the recursive-division generator is tied to the code by re-running the REAL `split_next_chamber` loop with the
  draws recorded (`random_odd` / `random_even` on the same keys) and replaying them in `mazegen_gen_io`; every
  generated maze additionally goes through the verified BFS connectivity checker `mazegen_connected_io`.
  Connectivity, termination and absence of stack overflow are PROVED for all sizes and draws (Proofs/Maze_GenTotal.v);
  the real loop is checked against the proved fuel (max(1, (w//2)*(h//2)) iterations) and stack-depth (2*depth <= w*h)
  bounds, and the degenerate 1x1 grid is run through the real generator as well.
"""
import numpy as np

from harness import envkit

NAME = "maze"
PROPS = ["C04", "C05", "C07", "C09", "C10", "C11", "C12"]
APPLIES = PROPS

LAYOUT = [("agent_position", 2), ("target_position", 2), ("action_mask", 4), ("step_count", 1),
          ("step_type", 1), ("reward", 1), ("discount", 1), ("time_limit", 1)]
INIT_LAYOUT = LAYOUT[:7] + [("valid_draw", 1)]


def extra_configs(tier, add):
    import jumanji.environments as E
    from jumanji.environments.routing.maze.generator import RandomGenerator as G, ToyGenerator
    add("toy-none", lambda: E.Maze(generator=ToyGenerator()), 28, time_limit=25, mk=lambda t: E.Maze(generator=ToyGenerator(), time_limit=t), topt=0)
    add("r2c2t3", lambda: E.Maze(generator=G(num_rows=2, num_cols=2), time_limit=3), 6, time_limit=3, mk=lambda t: E.Maze(generator=G(num_rows=2, num_cols=2), time_limit=t))
    add("r1c2t2", lambda: E.Maze(generator=G(num_rows=1, num_cols=2), time_limit=2), 5, time_limit=2, mk=lambda t: E.Maze(generator=G(num_rows=1, num_cols=2), time_limit=t))
    add("r7c2t0", lambda: E.Maze(generator=G(num_rows=7, num_cols=2), time_limit=0), 17, time_limit=14, mk=lambda t: E.Maze(generator=G(num_rows=7, num_cols=2), time_limit=t), topt=0)
    if tier != "quick":
        add("r3c8none", lambda: E.Maze(generator=G(num_rows=3, num_cols=8)), 28, time_limit=24, mk=lambda t: E.Maze(generator=G(num_rows=3, num_cols=8), time_limit=t), topt=0)
        add("r12c15t40", lambda: E.Maze(generator=G(num_rows=12, num_cols=15), time_limit=40), 44, time_limit=40, mk=lambda t: E.Maze(generator=G(num_rows=12, num_cols=15), time_limit=t))
        add("default-none", lambda: E.Maze(), 104, time_limit=100, batch=4, mk=lambda t: E.Maze(time_limit=t), topt=0)


def topt_of(cfg, env):
    """the time_limit argument the instance was built with (0 encodes None / falsy)"""
    if "topt" in cfg["tags"]:
        return cfg["tags"]["topt"]
    if "none" in cfg["label"]:
        return 0
    return int(env.time_limit)


def enc_state(s):
    return ([int(s.agent_position.row), int(s.agent_position.col), int(s.target_position.row), int(s.target_position.col)]
            + [int(x) for x in np.asarray(s.walls).reshape(-1)] + [int(x) for x in np.asarray(s.action_mask)] + [int(s.step_count)])


def enc_out(s2, ts, T):
    out = [int(s2.agent_position.row), int(s2.agent_position.col), int(s2.target_position.row), int(s2.target_position.col)] \
        + [int(x) for x in np.asarray(s2.action_mask)] + [int(s2.step_count), int(ts.step_type)]
    r, d = float(ts.reward), float(ts.discount)
    out += [int(r) if r in (0.0, 1.0) else 777, int(d) if d in (0.0, 1.0) else 777]
    return out + [T]


def enc_obs(o):
    return ([int(o.agent_position.row), int(o.agent_position.col), int(o.target_position.row), int(o.target_position.col)]
            + [int(x) for x in np.asarray(o.walls).reshape(-1)] + [int(o.step_count)] + [int(x) for x in np.asarray(o.action_mask)])


def state_desc(s):
    return dict(agent=[int(s.agent_position.row), int(s.agent_position.col)], target=[int(s.target_position.row), int(s.target_position.col)],
                walls=np.asarray(s.walls).astype(int).tolist(), mask=np.asarray(s.action_mask).astype(int).tolist(), step_count=int(s.step_count))


# ----------------------------------------------------------------------------------------------------------------
def make_recorder(width, height, _cache={}):
    """jit+vmap: run the REAL split_next_chamber loop from a key, recording per iteration the popped chamber and the
    two draws (re-derived with the real random_odd/random_even from the same sub-keys)."""
    import jax
    import jax.numpy as jnp
    from jumanji.environments.commons.maze_utils import maze_generation as mg
    from jumanji.environments.commons.maze_utils.stack import stack_pop
    if (width, height) in _cache:
        return _cache[(width, height)]
    N = width * height + 2

    def rec(key):
        st0 = mg.MazeGenerationState(mg.create_empty_maze(width, height), mg.create_chambers_stack(width, height), key)

        def body(st, _):
            rem = mg.chambers_remaining(st)
            _, chamber = stack_pop(st.chambers)
            x, y, w, h = chamber
            _, wk, pk = jax.random.split(st.key, 3)
            horiz = w >= h
            wd = jnp.where(horiz, mg.random_odd(wk, w), mg.random_odd(wk, h))
            pd = jnp.where(horiz, mg.random_even(pk, h), mg.random_even(pk, w))
            new = mg.split_next_chamber(st)
            st2 = jax.tree_util.tree_map(lambda a, b: jnp.where(rem, a, b), new, st)
            return st2, (rem, chamber, wd, pd, st.chambers.insertion_index)
        stf, (rem, ch, wd, pd, depth) = jax.lax.scan(body, st0, None, length=N)
        return stf.maze, stf.chambers.insertion_index, rem, ch, wd, pd, depth
    f = jax.jit(jax.vmap(rec))
    g = jax.jit(jax.vmap(lambda k: mg.generate_maze(width, height, k)))
    _cache[(width, height)] = (f, g)
    return f, g


def gen_calls(kit, calls, metas, rows, cols, keys, label, walls_expected=None):
    """record + replay the generator for a batch of maze keys (width = cols, height = rows)"""
    f, g = make_recorder(cols, rows)
    mz, idx, rem, ch, wd, pd, depth = (np.asarray(x) for x in f(keys))
    # the reset walls (when given) are the reference output of the real generate_maze; otherwise call it
    real = np.asarray(mz) if walls_expected is not None else np.asarray(g(keys))
    for b in range(len(keys)):
        n = int(rem[b].sum())
        ok_rec = bool(rem[b, :n].all()) and int(idx[b]) == 0 and np.array_equal(mz[b], real[b])
        if walls_expected is not None:
            ok_rec = ok_rec and np.array_equal(real[b].astype(bool), walls_expected[b])
        kit.res["C10"].evaluations += 1
        if not ok_rec:
            kit.fail(["C10"], "recorded generator loop does not reproduce generate_maze / the reset walls (tie broke)",
                     dict(cfg=label, op="gen-record"), dict(rows=rows, cols=cols, key=np.asarray(keys[b]).tolist(), seed=kit.seed))
            continue
        # the proved bounds of Proofs/Maze_GenTotal.v on the REAL loop: at most gen_fuel = max(1, (width//2)*(height//2))
        # iterations (the fuel of C10_MazeGen_terminates_tight / C10_MazeGen_connected) and 2 * (stack depth) <= capacity
        # = width*height before every iteration (the invariant behind C10_MazeGen_stack_never_overflows; 1x1 is the
        # documented degenerate case: depth 1, capacity 1, no push)
        kit.res["C10"].evaluations += 1
        dmax = int(depth[b, :n].max()) if n else 0
        kit.res["C10"].count("gen-max-stack-depth", dmax)
        if n > max(1, (cols // 2) * (rows // 2)) or (rows * cols >= 2 and 2 * dmax > rows * cols):
            kit.fail(["C10"], "real generator loop exceeds the proved fuel / stack-depth bounds",
                     dict(cfg=label, op="gen-bounds"), dict(rows=rows, cols=cols, key=np.asarray(keys[b]).tolist(), n=n, fuel=max(1, (cols // 2) * (rows // 2)), max_depth=dmax, seed=kit.seed))
        draws = []
        for i in range(n):
            draws += [int(wd[b, i]), int(pd[b, i])]
        # flags: finished, leftover draws, draws valid, cap_ok (conservatively false on 1x1, see C10_MazeGen_1x1)
        exp = [1, 0, 1, 0 if rows * cols == 1 else 1] + [int(x) for x in real[b].reshape(-1)] + [int(x) for x in ch[b, :n].reshape(-1)]
        calls.append(("mazegen_gen_io", [cols, rows, n] + draws))
        metas.append(("gen", None, exp, dict(cfg=label, rows=rows, cols=cols, b=b, key=np.asarray(keys[b]).tolist(), draws=draws, n=n)))
        kit.res["C10"].count("gen-iterations", n)


def conn_call(calls, metas, rows, cols, walls, m):
    calls.append(("mazegen_connected_io", [rows, cols] + [int(x) for x in np.asarray(walls).reshape(-1)]))
    metas.append(("conn", None, None, dict(m, rows=rows, cols=cols, walls=np.asarray(walls).astype(int).tolist())))


# ----------------------------------------------------------------------------------------------------------------
def synthetic_states(kit, env, s0, T):
    """directly constructed boundary states derived from a reset state s0: clock at the limit, agent next to / on the
    target, agent walled in, random (non-generated) wall patterns, agent on every border."""
    import jax.numpy as jnp
    from jumanji.environments.routing.maze.types import Position, State
    rows, cols = env.num_rows, env.num_cols
    out = []
    if not hasattr(env, "_verif_mask_fn"):
        import jax
        env._verif_mask_fn = jax.jit(env._compute_action_mask)
    mask_fn = env._verif_mask_fn

    def mk(walls, ar, ac, tr, tc, sc, tag):
        walls = jnp.asarray(walls, bool)
        pos = Position(jnp.asarray(ar, jnp.int32), jnp.asarray(ac, jnp.int32))
        tgt = Position(jnp.asarray(tr, jnp.int32), jnp.asarray(tc, jnp.int32))
        mask = mask_fn(walls, pos)
        out.append((tag, State(agent_position=pos, target_position=tgt, walls=walls, action_mask=mask,
                               key=jnp.asarray(s0.key), step_count=jnp.asarray(sc, jnp.int32))))
    w0 = np.asarray(s0.walls)
    a0 = (int(s0.agent_position.row), int(s0.agent_position.col))
    t0 = (int(s0.target_position.row), int(s0.target_position.col))
    for sc in sorted({max(T - 2, 0), T - 1, T, T + 3}):
        mk(w0, a0[0], a0[1], t0[0], t0[1], sc, "clock=%d" % sc)
    free = [(r, c) for r in range(rows) for c in range(cols) if not w0[r, c]]
    # agent next to the target / on the target
    for (dr, dc) in ((-1, 0), (0, 1), (1, 0), (0, -1)):
        p = (t0[0] + dr, t0[1] + dc)
        if p in free:
            mk(w0, p[0], p[1], t0[0], t0[1], 0, "next-to-target")
    mk(w0, t0[0], t0[1], t0[0], t0[1], 1, "on-target")
    # every free border cell and corner
    border = [p for p in free if p[0] in (0, rows - 1) or p[1] in (0, cols - 1)]
    for i in kit.rng.permutation(len(border))[:6]:
        p = border[int(i)]
        mk(w0, p[0], p[1], t0[0], t0[1], 0, "border")
    # random wall patterns (not generator output) incl. all-free and walled-in agent
    for dens in (0.0, 0.3, 0.6):
        w = kit.rng.random((rows, cols)) < dens
        fr = [(r, c) for r in range(rows) for c in range(cols) if not w[r, c]]
        if len(fr) >= 2:
            i, j = kit.rng.choice(len(fr), 2, replace=False)
            mk(w, fr[i][0], fr[i][1], fr[j][0], fr[j][1], int(kit.rng.integers(0, max(T, 1))), "random-walls-%.1f" % dens)
    if rows * cols >= 2:
        w = np.ones((rows, cols), bool)
        r, c = int(kit.rng.integers(0, rows)), int(kit.rng.integers(0, cols))
        w[r, c] = False
        r2, c2 = (r, (c + 1) % cols) if cols > 1 else ((r + 1) % rows, c)
        w[r2, c2] = False
        if abs(r2 - r) + abs(c2 - c) > 1 or True:
            # isolate the agent: wall the neighbour again unless it is the only other cell
            w2 = w.copy()
            if rows * cols > 2:
                w2[r2, c2] = True
                far = [(a, b) for a in range(rows) for b in range(cols) if abs(a - r) + abs(b - c) > 1]
                if far:
                    w2[far[0]] = False
                    mk(w2, r, c, far[0][0], far[0][1], 0, "walled-in")
            mk(w, r, c, r2, c2, 0, "two-cells")
    return out


def analyze(kit):
    import jax
    import jax.numpy as jnp
    calls, metas = [], []
    seen_walls = {}
    split3 = jax.jit(jax.vmap(lambda k: jax.random.split(k, 3)))
    for cfg in kit.configs():
        env = kit.env(cfg)
        rows, cols, T = int(env.num_rows), int(env.num_cols), int(env.time_limit)
        topt = topt_of(cfg, env)
        lab = cfg["label"]
        hdr = [rows, cols, topt]
        is_toy = type(env.generator).__name__ == "ToyGenerator"
        # C11: the resolved limit (None / 0 => rows*cols) is compared through the model's `time_limit` output field
        kit.res["C11"].evaluations += 1
        kit.res["C11"].distinct.add((lab, "resolved-limit", T))
        if cfg["time_limit"] is not None and cfg["time_limit"] != T:
            kit.fail(["C11"], "configured time limit differs from env.time_limit", dict(cfg=lab, op="limit-config"), dict(expected=cfg["time_limit"], got=T))
        visited = {}   # hash -> state (numpy pytree) for the all-actions sweep
        step_all = jax.jit(jax.vmap(jax.vmap(env.step, in_axes=(None, 0)), in_axes=(0, None)))
        for p in (0.0, 0.35):
            roll = kit.roll(cfg, p)
            _, st, ts, ac, fl, k0 = roll
            B = ac.shape[0]
            # ---------------- reset: generator over recovered draws ----------------
            for b in range(B):
                s0 = envkit.R.slice_tree(st, b, 0)
                ts0 = envkit.R.slice_tree(ts, b, 0)
                i1 = int(s0.agent_position.row) * cols + int(s0.agent_position.col)
                i2 = int(s0.target_position.row) * cols + int(s0.target_position.col)
                m = dict(cfg=lab, p=p, b=b, t=0, key=np.asarray(k0[b]).tolist(), state=state_desc(s0))
                calls.append(("maze_init_io", [rows, cols] + [int(x) for x in np.asarray(s0.walls).reshape(-1)] + [i1, i2]))
                metas.append(("init", INIT_LAYOUT, enc_out(s0, ts0, 0)[:-1] + [1], m))
                conn_call(calls, metas, rows, cols, s0.walls, dict(m, toy=is_toy))
                seen_walls.setdefault(lab, set()).add((np.asarray(s0.walls).tobytes(), i1, i2))
                calls.append(("maze_check_io", [rows, cols] + enc_state(s0)))
                metas.append(("check", None, enc_obs(ts0.observation), dict(m, terminal=False)))
                if is_toy:
                    calls.append(("maze_toy_io", []))
                    metas.append(("toy", None, [int(x) for x in np.asarray(s0.walls).reshape(-1)] + enc_out(s0, ts0, 0)[:-1], m))
            if not is_toy:
                mkeys = split3(jnp.asarray(k0))[:, 1]
                gen_calls(kit, calls, metas, rows, cols, mkeys, lab, walls_expected=[np.asarray(st.walls[b, 0]) for b in range(B)])
            # ---------------- rollout transitions ----------------
            for (b, t, s, a, s2, ts2) in kit.transitions(roll):
                legal = bool(np.asarray(s.action_mask)[int(a)])
                m = dict(cfg=lab, p=p, b=b, t=t, action=int(a), legal=legal, state=state_desc(s), src="rollout")
                e = hdr + enc_state(s) + [int(a)]
                exp = enc_out(s2, ts2, T)
                calls.append(("maze_step_io", e))
                metas.append(("step", LAYOUT, exp, m))
                calls.append(("maze_rule_io", e))
                metas.append(("rule", LAYOUT, exp, m))
                terminal = int(ts2.step_type) == 2
                calls.append(("maze_check_io", [rows, cols] + enc_state(s2)))
                metas.append(("check", None, enc_obs(ts2.observation), dict(cfg=lab, p=p, b=b, t=t + 1, terminal=terminal, state=state_desc(s2))))
                kit.res["C11"].evaluations += 1
                if terminal != (int(s2.step_count) >= T or (int(s2.agent_position.row), int(s2.agent_position.col)) == (int(s2.target_position.row), int(s2.target_position.col))
                                or not np.asarray(s2.action_mask).any()):
                    kit.fail(["C11"], "LAST step without time limit / target / walled-in cause (or missing LAST)", dict(cfg=lab, op="last-cause"), dict(m, seed=kit.seed))
                if terminal and not (int(s2.step_count) >= T or (int(s2.agent_position.row), int(s2.agent_position.col)) == (int(s2.target_position.row), int(s2.target_position.col))):
                    kit.res["C11"].count("ended-walled-in")
                h = hash(tuple(enc_state(s)))
                if h not in visited:
                    visited[h] = ("rollout", s)
            # synthetic boundary states from a few reset states
            for b in range(min(B, 3 if kit.tier == "quick" else 8)):
                for tag, s in synthetic_states(kit, env, envkit.R.slice_tree(st, b, 0), T):
                    s = jax.tree_util.tree_map(np.asarray, s)
                    visited.setdefault(hash(tuple(enc_state(s))), (tag, s))
        # ---------------- EVERY action from every visited / constructed state ----------------
        items = list(visited.values())
        if kit.tier == "quick" and len(items) > 120:
            idx = kit.rng.permutation(len(items))[:120]
            items = [items[int(i)] for i in idx]
        if items:
            batch = jax.tree_util.tree_map(lambda *xs: jnp.stack([jnp.asarray(x) for x in xs]), *[s for _, s in items])
            S2, TS2 = step_all(batch, jnp.arange(4, dtype=jnp.int32))
            S2 = jax.tree_util.tree_map(np.asarray, S2)
            TS2 = jax.tree_util.tree_map(np.asarray, TS2.replace(extras={}))
            for i, (tag, s) in enumerate(items):
                pos = (int(s.agent_position.row), int(s.agent_position.col))
                for a in range(4):
                    s2 = envkit.R.slice_tree(S2, i, a)
                    ts2 = envkit.R.slice_tree(TS2, i, a)
                    legal = bool(np.asarray(s.action_mask)[a])
                    m = dict(cfg=lab, p="all-actions", b=i, t=a, action=a, legal=legal, state=state_desc(s), src=tag)
                    e = hdr + enc_state(s) + [a]
                    exp = enc_out(s2, ts2, T)
                    calls.append(("maze_step_io", e))
                    metas.append(("step", LAYOUT, exp, m))
                    calls.append(("maze_rule_io", e))
                    metas.append(("rule", LAYOUT, exp, m))
                    # the environment's own reaction: mask[a] <=> the agent moved (C04); unmasked => nothing changes (C05)
                    moved = (int(s2.agent_position.row), int(s2.agent_position.col)) != pos
                    kit.res["C04"].evaluations += 1
                    kit.res["C04"].distinct.add((lab, "react", i, a))
                    kit.res["C04"].count("mask:%d" % int(legal))
                    if moved != legal:
                        kit.fail(["C04"], "mask entry disagrees with the environment's own reaction (agent moved: %s, mask: %s)" % (moved, legal),
                                 dict(cfg=lab, op="mask-react"), dict(m, seed=kit.seed))
                    if not legal:
                        kit.res["C05"].evaluations += 1
                        kit.res["C05"].distinct.add((lab, i, a))
                        kit.res["C05"].count("illegal:%s" % tag.split("=")[0])
                        same = (not moved and np.array_equal(s2.walls, s.walls) and np.array_equal(s2.action_mask, s.action_mask)
                                and int(s2.target_position.row) == int(s.target_position.row) and int(s2.target_position.col) == int(s.target_position.col)
                                and int(s2.step_count) == int(s.step_count) + 1)
                        at_target = pos == (int(s.target_position.row), int(s.target_position.col))
                        cont = int(ts2.step_type) == (2 if (int(s.step_count) + 1 >= T or at_target or not np.asarray(s.action_mask).any()) else 1)
                        if not (same and cont and float(ts2.reward) == float(at_target)):
                            kit.fail(["C05"], "illegal move is not ignored (position/walls/target/mask change, or the episode ends without cause)",
                                     dict(cfg=lab, op="illegal-ignored"), dict(m, seed=kit.seed, got=enc_out(s2, ts2, T)))
                    calls.append(("maze_check_io", [rows, cols] + enc_state(s2)))
                    metas.append(("check", None, enc_obs(ts2.observation), dict(cfg=lab, p="all-actions", b=i, t=a, terminal=int(ts2.step_type) == 2, state=state_desc(s2))))
    # ---------------- generator sweep over sizes (C10) ----------------
    from jumanji.environments.routing.maze.generator import RandomGenerator
    sizes = [(2, 1), (2, 3), (3, 3), (4, 7), (8, 8), (9, 6)]   # the configurations above add 10x10, 5x9, 6x3, 4x4, 2x2, 1x2, 7x2
    if kit.tier != "quick":
        sizes += [(1, 2), (2, 2), (3, 2), (3, 7), (4, 4), (5, 9), (6, 3), (7, 2), (10, 10), (9, 14), (13, 11), (16, 16), (1, 9), (20, 5)]
    nk = 6 if kit.tier == "quick" else 24
    for (rows, cols) in sizes:
        gen = RandomGenerator(rows, cols)
        keys = jax.random.split(jax.random.PRNGKey(kit.seed * 131 + rows * 17 + cols), nk)
        S = jax.tree_util.tree_map(np.asarray, jax.jit(jax.vmap(gen))(keys))
        lab = "gen-r%dc%d" % (rows, cols)
        for b in range(nk):
            w = S.walls[b]
            i1 = int(S.agent_position.row[b]) * cols + int(S.agent_position.col[b])
            i2 = int(S.target_position.row[b]) * cols + int(S.target_position.col[b])
            m = dict(cfg=lab, p="gen", b=b, t=0, key=np.asarray(keys[b]).tolist(), toy=False,
                     state=dict(agent=[i1 // cols, i1 % cols], target=[i2 // cols, i2 % cols], walls=w.astype(int).tolist()))
            conn_call(calls, metas, rows, cols, w, m)
            calls.append(("maze_init_io", [rows, cols] + [int(x) for x in w.reshape(-1)] + [i1, i2]))
            metas.append(("init-draw", None, None, m))
            seen_walls.setdefault(lab, set()).add((w.tobytes(), i1, i2))
        mkeys = split3(keys)[:, 1]
        gen_calls(kit, calls, metas, rows, cols, mkeys, lab, walls_expected=[S.walls[b] for b in range(nk)])
    # the degenerate 1x1 grid (generator only: the Maze RandomGenerator cannot place two distinct cells on it)
    gen_calls(kit, calls, metas, 1, 1, jax.random.split(jax.random.PRNGKey(kit.seed * 131 + 18), 2), "gen-r1c1")
    # generators depend on the key
    for lab, ws in seen_walls.items():
        kit.res["C10"].evaluations += 1
        if "toy" not in lab and len(ws) < 2 and lab not in ("gen-r1c2", "gen-r2c1", "r1c2t2"):
            kit.fail(["C10"], "random generator returned the same instance for every key", dict(cfg=lab, op="key-dependence"), dict(seed=kit.seed))

    # ---------------- run the model ----------------
    outs = kit.model(calls)
    for (entry, args), (kind, layout, exp, m), got in zip(calls, metas, outs):
        if kind in ("step", "rule", "init"):
            bad = envkit.diff_fields(layout, got, exp)
            illegal = kind != "init" and not m["legal"]
            kit.res["C09"].evaluations += 1
            kit.res["C09"].distinct.add((m["cfg"], m["p"], m["b"], m["t"], kind))
            kit.res["C09"].count(kind + ":" + m.get("src", "reset").split("=")[0])
            if kind == "init":
                kit.res["C10"].evaluations += 1
            if illegal:
                kit.res["C05"].evaluations += 1
            if bad:
                pids = {"C09"}
                if "action_mask" in bad:
                    pids.add("C04")
                if illegal:
                    pids.add("C05")
                if "agent_position" in bad or "target_position" in bad:
                    pids.add("C07")
                if "time_limit" in bad or "step_type" in bad or "step_count" in bad:
                    pids.add("C11")
                if kind == "init":
                    pids.add("C10")
                kit.fail(sorted(pids), "%s and implementation disagree on %s (fields %s)" % ("rules" if kind == "rule" else "model", kind, ",".join(bad)),
                         dict(cfg=m["cfg"], op="corr-" + kind, fields=",".join(bad)), dict(m, model=got, impl=exp, seed=kit.seed))
        elif kind == "check":
            # got = [Physical_b, mask==legal, observe(state)...]
            kit.res["C04"].evaluations += 1
            kit.res["C04"].distinct.add((m["cfg"], m["p"], m["b"], m["t"]))
            if got[1] != 1:
                kit.fail(["C04"], "action mask is not the set of legal moves (verified checker on implementation state)",
                         dict(cfg=m["cfg"], op="mask-exact"), dict(m, seed=kit.seed))
            kit.res["C07"].evaluations += 1
            kit.res["C07"].distinct.add((m["cfg"], m["p"], m["b"], m["t"]))
            kit.res["C07"].count("terminal" if m["terminal"] else "non-terminal")
            if got[0] != 1:
                kit.fail(["C07"], "state is not physically consistent (agent/target off-grid or on a wall, or stale mask)",
                         dict(cfg=m["cfg"], op="physical"), dict(m, seed=kit.seed))
            kit.res["C12"].evaluations += 1
            kit.res["C12"].distinct.add((m["cfg"], m["p"], m["b"], m["t"]))
            if got[2:] != exp:
                kit.fail(["C12"], "observation differs from the state it views", dict(cfg=m["cfg"], op="obs-copy"), dict(m, model=got[2:], impl=exp, seed=kit.seed))
        elif kind == "conn":
            # got = [connected_b, origin free, #free, even cells free]
            kit.res["C10"].evaluations += 1
            kit.res["C10"].distinct.add((m["cfg"], m["p"], m["b"]))
            kit.res["C10"].count("free-cells:%d" % got[2])
            if got[0] != 1 or got[1] != 1:
                kit.fail(["C10"], "generated maze is not fully connected from a free origin (verified BFS checker)",
                         dict(cfg=m["cfg"], op="connected"), dict(m, checker=got, seed=kit.seed))
            if not m.get("toy") and got[3] != 1:
                kit.fail(["C10"], "recursive-division maze has a wall on an (even, even) cell", dict(cfg=m["cfg"], op="even-free"), dict(m, seed=kit.seed))
        elif kind == "init-draw":
            kit.res["C10"].evaluations += 1
            if got[-1] != 1:
                kit.fail(["C10"], "agent and target are not two distinct free cells", dict(cfg=m["cfg"], op="valid-draw"), dict(m, seed=kit.seed))
        elif kind == "gen":
            kit.res["C10"].evaluations += 1
            kit.res["C10"].distinct.add((m["cfg"], "gen", m["b"], tuple(m["draws"])))
            if got != exp:
                what = "generator model (explicit draws) disagrees with the real recursive-division loop"
                if got[:4] != exp[:4]:
                    what += " [finished/leftover/valid-draws/no-overflow flags %s]" % got[:4]
                kit.fail(["C10"], what, dict(cfg=m["cfg"], op="corr-gen"), dict(m, model=got, impl=exp, seed=kit.seed))
        elif kind == "toy":
            kit.res["C10"].evaluations += 1
            if got != exp:
                kit.fail(["C10"], "toy generator model disagrees", dict(cfg=m["cfg"], op="corr-toy"), dict(m, model=got, impl=exp))
    for pid in PROPS:
        kit.res[pid].traces += len(calls)
        if not kit.res[pid].samples:
            ex = [mm[3] for mm in metas if mm[0] in ("step", "check")][:1]
            kit.res[pid].samples.append(dict(env=NAME, example=ex[0] if ex else None))
