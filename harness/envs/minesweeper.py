"""Minesweeper: correspondence with coq/Model/Minesweeper.v + verified checkers on implementation states.

Every transition of the real environment (generic rollouts, a mine-avoiding "survivor" policy that plays whole
games to the solved board, directly constructed states, and EVERY action of the action space from visited
states) is replayed in the extracted model (`minesweeper_step_io`, the code's algorithm) and in the declarative
rules (`minesweeper_rules_io`); the verified boolean checkers (`Phys_b`, `Safe_b`, `valid_draw`, `spec_ok_b`,
mask = legal everywhere, `safe_revealed` ...) are evaluated on the implementation's own states.
Rewards are sent as float x 4 (exact for the dyadic constants used here)."""
import numpy as np

from harness import envkit

NAME = "minesweeper"
PROPS = ["C01", "C03", "C04", "C05", "C07", "C08", "C09", "C10", "C11", "C12"]
APPLIES = PROPS
SCALE = 4


def extra_configs(tier, add):
    import jumanji.environments as E
    from jumanji.environments.logic.minesweeper.generator import UniformSamplingGenerator as G
    from jumanji.environments.logic.minesweeper.reward import DefaultRewardFn as RF

    def mk(r, c, m, rf=None):
        f = lambda: E.Minesweeper(G(num_rows=r, num_cols=c, num_mines=m), reward_function=(RF(*rf) if rf else None))
        f.asked_rewards = rf            # what the configuration asked for (None = documented defaults 1, 0, 0)
        return f
    add("r2c2m0", mk(2, 2, 0), 6)                       # minimum board, no mine at all
    add("r2c2m3", mk(2, 2, 3), 4)                       # maximum number of mines: one safe square
    add("r2c5m4-rew", mk(2, 5, 4, (1.5, -0.5, -2.25)), 9)   # non-square, three DISTINCT dyadic reward constants
    add("r7c3m6", mk(7, 3, 6), 18)                      # tall board
    add("r3c3m2-rew0", mk(3, 3, 2, (1.0, -1.0, 0.0)), 8)     # an explicit ZERO invalid-action reward next to a non-zero mine reward
    add("r3c3m2-rew00", mk(3, 3, 2, (0.0, 0.5, -1.0)), 8)    # an explicit ZERO empty-square reward
    add("r3c4m11", mk(3, 4, 11), 4)                     # one safe square, every neighbour count up to 8 reachable
    if tier != "quick":
        add("r5c5m24-rew", mk(5, 5, 24, (2.0, -1.0, -3.0)), 4)
        add("r6c9m20", mk(6, 9, 20), 40)
        add("r12c4m8", mk(12, 4, 8), 44)


def _dims(env):
    return int(env.num_rows), int(env.num_cols), int(env.num_mines)


def _code(x):
    v = float(x) * SCALE
    assert v == round(v), "reward is not a multiple of 1/%d: %r" % (SCALE, x)
    return int(round(v))


def asked_rewards(env):
    """(empty, mine, invalid) reward constants the CONFIGURATION asked for, not what the reward function object stored: a
    constructor that mangles an argument (e.g. `x or default` on 0.0) must disagree with the model, not re-parameterise it"""
    a = getattr(env, "_verif_rewards", None)
    if a is not None:
        return a
    rf = env.reward_function
    return (rf.revealed_empty_square_reward, rf.revelead_mine_reward, rf.invalid_action_reward)


def enc_cfg(env):
    return list(_dims(env)) + [_code(x) for x in asked_rewards(env)]


def enc_state(s):
    return ([int(x) for x in np.asarray(s.board).reshape(-1)] + [int(s.step_count)]
            + [int(x) for x in np.asarray(s.flat_mine_locations).reshape(-1)])


def enc_ts(ts):
    d = float(ts.discount)
    return [int(ts.step_type), _code(ts.reward), int(d) if d in (0.0, 1.0) else 7]


def enc_obs(o):
    return ([int(x) for x in np.asarray(o.board).reshape(-1)] + [int(x) for x in np.asarray(o.action_mask).reshape(-1)]
            + [int(o.num_mines), int(o.step_count)])


def layout_of(env):
    r, c, m = _dims(env)
    n = r * c
    return [("board", n), ("step_count", 1), ("flat_mine_locations", m), ("step_type", 1), ("reward", 1), ("discount", 1),
            ("obs.board", n), ("obs.action_mask", n), ("obs.num_mines", 1), ("obs.step_count", 1)]


def np_counts(r, c, mines):
    """independent NumPy statement of the rule: number of mined squares among the 8 neighbours"""
    g = np.zeros((r, c), int)
    for m in mines:
        g[int(m) // c, int(m) % c] = 1
    out = np.zeros((r, c), int)
    for i in range(r):
        for j in range(c):
            out[i, j] = sum(g[i + di, j + dj] for di in (-1, 0, 1) for dj in (-1, 0, 1)
                            if (di or dj) and 0 <= i + di < r and 0 <= j + dj < c)
    return g, out


def survivor_rollout(env, keys, steps, q):
    """plays an unexplored SAFE square (looking at the mines) with probability 1-q, a uniform in-spec action otherwise:
    whole games up to the solved board (structural horizon, C11; maximal return, C08; spec boundary of step_count, C01)."""
    import jax
    import jax.numpy as jnp
    r, c, m = _dims(env)

    def one(key):
        k0, kp = jax.random.split(key)
        s0, ts0 = env.reset(k0)

        def body(carry, k):
            s = carry
            k1, k2, k3 = jax.random.split(k, 3)
            mined = jnp.zeros((r * c,), jnp.int32).at[s.flat_mine_locations].set(1)
            good = ((s.board.reshape(-1) == -1) & (mined == 0)).astype(jnp.float32)
            tot = good.sum()
            pr = jnp.where(tot > 0, good / jnp.maximum(tot, 1), jnp.ones_like(good) / (r * c))
            idx = jax.random.choice(k1, r * c, p=pr)
            idx = jnp.where(jax.random.uniform(k2) < q, jax.random.randint(k3, (), 0, r * c), idx)
            a = jnp.stack([idx // c, idx % c]).astype(jnp.int32)
            s2, ts2 = env.step(s, a)
            ts2 = ts2.replace(extras={})
            return s2, (s2, ts2, a)
        ts0 = ts0.replace(extras={})
        _, (ss, tss, acts) = jax.lax.scan(body, s0, jax.random.split(kp, steps))
        cat = lambda a, b: jnp.concatenate([jnp.asarray(a)[None], jnp.asarray(b)], 0)
        return jax.tree_util.tree_map(cat, s0, ss), jax.tree_util.tree_map(cat, ts0, tss), acts, k0
    st, ts, ac, k0 = jax.jit(jax.vmap(one))(keys)
    to_np = lambda t: jax.tree_util.tree_map(np.asarray, t)
    st, ts = to_np(st), to_np(ts)
    return (env, st, ts, np.asarray(ac), envkit.R.first_last(ts), np.asarray(k0))


def analyze(kit):
    import jax
    import jax.numpy as jnp
    from jumanji.environments.logic.minesweeper.types import State
    from jumanji.environments.logic.minesweeper import utils as U
    q = kit.tier == "quick"
    calls, metas = [], []

    def call(entry, args, kind, exp, m):
        calls.append((entry, args))
        metas.append((kind, exp, m))

    for cfg in kit.configs():
        env = kit.env(cfg)
        asked = getattr(cfg["make"], "asked_rewards", None)
        env._verif_rewards = tuple(float(x) for x in asked) if asked else (1.0, 0.0, 0.0)    # documented defaults
        rfo = env.reward_function
        stored = (float(rfo.revealed_empty_square_reward), float(rfo.revelead_mine_reward), float(rfo.invalid_action_reward))
        kit.res["C08"].evaluations += 1
        if stored != env._verif_rewards:
            kit.fail(["C08", "C05"], "Minesweeper reward function does not use the constants it was constructed with",
                     dict(cfg=cfg["label"], op="reward-wiring"), dict(asked=env._verif_rewards, stored=stored))
        r, c, nm = _dims(env)
        n = r * c
        S = n - nm
        ce = enc_cfg(env)
        re4, rm4, ri4 = ce[3:]
        layout = layout_of(env)
        lab = cfg["label"]
        step_j = jax.jit(env.step)
        all_actions = jnp.asarray([[i, j] for i in range(r) for j in range(c)], jnp.int32)
        step_all = jax.jit(jax.vmap(env.step, in_axes=(None, 0)))
        seen_states = {}

        def note_state(s, origin):
            k = (np.asarray(s.board).tobytes(), np.asarray(s.flat_mine_locations).tobytes(), int(s.step_count))
            if k not in seen_states:
                seen_states[k] = (s, origin)

        def add_step(s, a, s2, ts2, m):
            e = ce + enc_state(s)
            a0, a1 = int(a[0]), int(a[1])
            legal = int(np.asarray(s.board)[a0, a1]) == -1 if (0 <= a0 < r and 0 <= a1 < c) else None
            mm = dict(m, cfg=lab, action=[a0, a1], legal=legal,
                      state=dict(board=np.asarray(s.board).tolist(), step_count=int(s.step_count), mines=np.asarray(s.flat_mine_locations).tolist()))
            exp = enc_state(s2) + enc_ts(ts2) + enc_obs(ts2.observation)
            call("minesweeper_step_io", e + [a0, a1], "step", (layout, exp), mm)
            nst = n + 1 + nm + 3
            call("minesweeper_rules_io", e + [a0, a1], "rules", (layout[:6], exp[:nst]), mm)

        def add_check(s, m, terminal):
            mm = dict(m, cfg=lab, terminal=terminal,
                      state=dict(board=np.asarray(s.board).tolist(), step_count=int(s.step_count), mines=np.asarray(s.flat_mine_locations).tolist()))
            call("minesweeper_check_io", ce + enc_state(s), "check", None, mm)

        rolls = [("uniform-mask", p, kit.roll(cfg, p)) for p in (0.0, 0.35)]
        B = cfg["batch"]
        for j, qq in enumerate((0.0, 0.12)):
            keys = jax.random.split(jax.random.PRNGKey(kit.seed * 104729 + 17 + j), B)
            rolls.append(("survivor", qq, survivor_rollout(env, keys, S + 2, qq)))

        for (pol, p, roll) in rolls:
            _, st, ts, ac, fl, k0 = roll
            T = ac.shape[1]
            for b in range(ac.shape[0]):
                s0 = envkit.R.slice_tree(st, b, 0)
                ts0 = envkit.R.slice_tree(ts, b, 0)
                mines = [int(x) for x in np.asarray(s0.flat_mine_locations)]
                # ---- reset (C10 + C12 + C03): generator on the recovered draw
                exp0 = enc_state(s0) + enc_ts(ts0) + enc_obs(ts0.observation) + [1]
                call("minesweeper_init_io", ce + mines, "init", (layout + [("valid_draw", 1)], exp0),
                     dict(cfg=lab, pol=pol, p=p, b=b, t=0, mines=mines, key=np.asarray(k0[b]).tolist()))
                # ---- whole episode in the model (C08, C11)
                end = int(min(T, fl[b]))
                acts = [[int(ac[b, t, 0]), int(ac[b, t, 1])] for t in range(end)]
                ret4 = sum(_code(ts.reward[b, t + 1]) for t in range(end))
                sf = envkit.R.slice_tree(st, b, end)
                ended = fl[b] <= T
                call("minesweeper_episode_io", ce + mines + [len(acts)] + [x for a in acts for x in a], "episode",
                     dict(steps=end, ret4=ret4, last_type=int(ts.step_type[b, end]), final_step_count=int(sf.step_count), ended=bool(ended)),
                     dict(cfg=lab, pol=pol, p=p, b=b, mines=mines, actions=acts, S=S, rew=(re4, rm4, ri4),
                          final_board=np.asarray(sf.board).tolist()))
                add_check(sf, dict(pol=pol, p=p, b=b, t=end, role="final", ret4=ret4, ended=bool(ended), rew=(re4, rm4, ri4), S=S), terminal=bool(ended))
                kit.res["C11"].count("episode-length:%s" % ("=S" if fl[b] == S else "<S" if fl[b] < S else ">S"))
                kit.res["C11"].evaluations += 1
                kit.res["C11"].distinct.add((lab, pol, p, b))
                if fl[b] > S:
                    kit.fail(["C11"], "episode still running after rows*cols - num_mines steps", dict(cfg=lab, op="horizon-tight"),
                             dict(cfg=lab, S=S, first_last=int(fl[b]), mines=mines, actions=acts, seed=kit.seed))
            for (b, t, s, a, s2, ts2) in kit.transitions(roll):
                add_step(s, a, s2, ts2, dict(pol=pol, p=p, b=b, t=t))
                add_check(s, dict(pol=pol, p=p, b=b, t=t, role="pre"), terminal=False)
                note_state(s, dict(pol=pol, p=p, b=b, t=t))
                # C12: observation recomputed from the state by an independent NumPy observer
                kit.res["C12"].evaluations += 1
                kit.res["C12"].distinct.add((lab, pol, p, b, t))
                o = ts2.observation
                okobs = (np.array_equal(o.board, s2.board) and np.array_equal(np.asarray(o.action_mask), np.asarray(s2.board) == -1)
                         and int(o.num_mines) == nm and int(o.step_count) == int(s2.step_count) == int(s.step_count) + 1)
                if not np.array_equal(np.asarray(s.key), np.asarray(s2.key)):   # the only state field the model does not carry
                    kit.fail(["C07", "C09"], "step changed state.key", dict(cfg=lab, op="key-constant"), dict(cfg=lab, b=b, t=t, pol=pol, p=p, seed=kit.seed))
                if not okobs:
                    kit.fail(["C12"], "observation differs from the state it views", dict(cfg=lab, op="obs-view"),
                             dict(cfg=lab, b=b, t=t, pol=pol, p=p, seed=kit.seed))

        # ---- C10: the generator depends on the key (not a constant function)
        import math
        allm = set()
        for (_, _, roll) in rolls:
            for b in range(roll[3].shape[0]):
                allm.add(tuple(np.asarray(roll[1].flat_mine_locations[b, 0]).tolist()))
        kit.res["C10"].evaluations += 1
        kit.res["C10"].count("distinct-mine-sets", len(allm))
        if nm >= 1 and math.comb(n, nm) > 1 and len(allm) < 2:
            kit.fail(["C10"], "generator returned the same mines for every key", dict(cfg=lab, op="key-dependence"), dict(cfg=lab, mines=list(allm), seed=kit.seed))

        # ---- C09: neighbour counts, code (padded dynamic_slice) vs model of the code vs declarative count vs NumPy
        cnt_all = jax.jit(jax.vmap(lambda s, a: U.count_adjacent_mines(state=s, action=a), in_axes=(None, 0)))
        for mset in sorted(allm)[: (4 if q else 12)]:
            s = State(board=jnp.full((r, c), -1, jnp.int32), step_count=jnp.array(0, jnp.int32),
                      flat_mine_locations=jnp.asarray(mset, jnp.int32).reshape((nm,)), key=jax.random.PRNGKey(0))
            impl = [int(x) for x in np.asarray(cnt_all(s, all_actions))]
            ref = [int(x) for x in np_counts(r, c, mset)[1].reshape(-1)]
            call("minesweeper_counts_io", ce + list(mset), "counts", impl + ref, dict(cfg=lab, mines=list(mset)))

        # ---- directly constructed states (step is a function of the state): random mines, random revealed safe squares
        rng = kit.rng
        for k in range(3 if q else 10):
            mset = [int(x) for x in rng.choice(n, size=nm, replace=False)]
            g, cnts = np_counts(r, c, mset)
            safe = [i for i in range(n) if g.reshape(-1)[i] == 0]
            nrev = [0, max(S - 1, 0), int(rng.integers(0, S))][k % 3] if S > 0 else 0
            rev = rng.choice(safe, size=min(nrev, max(S - 1, 0)), replace=False) if S > 1 else []
            board = np.full(n, -1, int)
            for i in rev:
                board[int(i)] = cnts.reshape(-1)[int(i)]
            s = State(board=jnp.asarray(board.reshape(r, c), jnp.int32), step_count=jnp.array(len(rev), jnp.int32),
                      flat_mine_locations=jnp.asarray(mset, jnp.int32).reshape((nm,)), key=jax.random.PRNGKey(k))
            s = jax.tree_util.tree_map(np.asarray, s)
            add_check(s, dict(pol="constructed", p=0, b=k, t=len(rev), role="pre"), terminal=False)
            note_state(s, dict(pol="constructed", k=k))

        # ---- out-of-spec coordinates (NOT part of any property statement): the model must mirror JAX's silent index behaviour
        # (gather clamps, scatter drops / wraps negatives once, dynamic_slice clamps its start) that the in-spec proofs avoid
        oob = [(-1, 0), (0, -1), (-1, -1), (r, 0), (0, c), (r, c), (-r, -c), (-r - 1, 0), (0, -c - 1), (r + 2, c + 3), (r - 1, -1), (-2, c - 1)]
        for (s, origin) in list(seen_states.values())[:3]:
            for a in oob:
                s2, ts2 = step_j(jax.tree_util.tree_map(jnp.asarray, s), jnp.asarray(a, jnp.int32))
                s2, ts2 = jax.tree_util.tree_map(np.asarray, (s2, ts2.replace(extras={})))
                e = ce + enc_state(s)
                exp = enc_state(s2) + enc_ts(ts2) + enc_obs(ts2.observation)
                call("minesweeper_step_io", e + [int(a[0]), int(a[1])], "oob", (layout, exp),
                     dict(origin, cfg=lab, action=list(a), state=dict(board=np.asarray(s.board).tolist(), mines=np.asarray(s.flat_mine_locations).tolist())))

        # ---- EVERY action of the action space from visited states (C04 judged by the env's own reaction, C05 every illegal action)
        items = list(seen_states.values())
        cap = (10 if n > 36 else 40) if q else (60 if n > 36 else 400)
        if len(items) > cap:
            idx = sorted(kit.rng.choice(len(items), size=cap, replace=False).tolist())
            items = [items[i] for i in idx]
        for (s, origin) in items:
            s2s, tss = step_all(jax.tree_util.tree_map(jnp.asarray, s), all_actions)
            s2s, tss = jax.tree_util.tree_map(np.asarray, (s2s, tss.replace(extras={})))
            g = np.zeros(n, int)
            g[np.asarray(s.flat_mine_locations, int)] = 1
            for ai in range(n):
                a = (ai // c, ai % c)
                s2 = envkit.R.slice_tree(s2s, ai)
                ts2 = envkit.R.slice_tree(tss, ai)
                add_step(s, a, s2, ts2, dict(origin, allact=True))
                masked_in = bool(np.asarray(s.board)[a] == -1)
                r4 = _code(ts2.reward)
                kit.res["C04"].evaluations += 1
                kit.res["C04"].count("all-actions:%s" % ("masked-in" if masked_in else "masked-out"))
                same_board = np.array_equal(s2.board, s.board)
                if masked_in:
                    # a masked-in action is never treated as invalid: it reveals the square and pays the mine / empty reward
                    ok = (not same_board) and int(s2.board[a]) >= 0 and r4 == (rm4 if g[ai] else re4) \
                        and (int(ts2.step_type) == 2) == bool(g[ai] or (np.asarray(s2.board) >= 0).sum() == S)
                else:
                    ok = same_board and int(ts2.step_type) == 2 and r4 == ri4 and float(ts2.discount) == 0.0
                    kit.res["C05"].evaluations += 1
                    kit.res["C05"].distinct.add((lab, np.asarray(s.board).tobytes(), ai))
                if not ok:
                    kit.fail(["C04"] + ([] if masked_in else ["C05"]),
                             "the environment's reaction to an action contradicts its mask (masked-%s)" % ("in" if masked_in else "out"),
                             dict(cfg=lab, op="mask-reaction"),
                             dict(cfg=lab, action=list(a), board=np.asarray(s.board).tolist(), mines=np.asarray(s.flat_mine_locations).tolist(),
                                  step_type=int(ts2.step_type), reward=float(ts2.reward), next_board=np.asarray(s2.board).tolist(), seed=kit.seed))

    outs = kit.model(calls)
    for (entry, args), (kind, exp, m), got in zip(calls, metas, outs):
        lab = m["cfg"]
        if kind in ("step", "rules", "init"):
            layout, e = exp
            bad = envkit.diff_fields(layout, got, e)
            cid = (lab, m.get("pol"), m.get("p"), m.get("b"), m.get("t"), tuple(m.get("action", ())))
            illegal = kind != "init" and m.get("legal") is False
            for pid in ("C09", "C07", "C03"):
                kit.res[pid].evaluations += 1
            kit.res["C09"].distinct.add((kind,) + cid)
            kit.res["C09"].count("corr-%s" % kind)
            if kind == "step":
                kit.res["C12"].evaluations += 1
                kit.res["C04"].evaluations += 1
                kit.res["C08"].evaluations += 1
                kit.res["C09"].count("action:%s" % ("explored-square" if illegal else "unexplored"))
                if illegal:
                    kit.res["C05"].evaluations += 1
                    kit.res["C05"].distinct.add(cid)
                    kit.res["C05"].count("illegal-action-steps")
            if kind == "init":
                kit.res["C10"].evaluations += 1
                kit.res["C10"].distinct.add(cid)
            if bad:
                pids = {"C09"}
                if any(f in bad for f in ("board", "flat_mine_locations", "step_count")):
                    pids.add("C07")
                if "obs.action_mask" in bad:
                    pids.add("C04")
                if any(f.startswith("obs.") for f in bad):
                    pids.add("C12")
                if "reward" in bad:
                    pids.add("C08")
                if "step_type" in bad or "discount" in bad:
                    pids.add("C03")
                if illegal:
                    pids.add("C05")
                if kind == "init":
                    pids.add("C10")
                what = {"step": "model of the code and implementation disagree on a step",
                        "rules": "declarative rules and implementation disagree on a step",
                        "init": "model and implementation disagree on reset / the drawn mines are not a valid draw"}[kind]
                kit.fail(sorted(pids), "%s (fields %s)" % (what, ",".join(bad)), dict(cfg=lab, op="corr-" + kind, fields=",".join(bad)),
                         dict(m, model=got, impl=e, seed=kit.seed))
        elif kind == "oob":
            layout, e = exp
            kit.res["C09"].evaluations += 1
            kit.res["C09"].count("out-of-spec-actions(model fidelity)")
            bad = envkit.diff_fields(layout, got, e)
            if bad:
                kit.fail(["C09"], "model does not mirror the code's index semantics on out-of-spec coordinates (fields %s)" % ",".join(bad),
                         dict(cfg=lab, op="corr-oob", fields=",".join(bad)), dict(m, model=got, impl=e, seed=kit.seed))
        elif kind == "check":
            phys, safe, safe_rev, rev, mask_ok, mine_rev, mined_sq, spec_ok = got
            cid = (lab, m.get("pol"), m.get("p"), m.get("b"), m.get("t"))
            for pid in ("C07", "C04", "C01", "C10"):
                kit.res[pid].evaluations += 1
            kit.res["C07"].distinct.add(cid)
            kit.res["C04"].distinct.add(cid)
            kit.res["C01"].distinct.add(cid)
            kit.res["C07"].count("state:%s" % ("terminal" if m["terminal"] else "non-terminal"))
            if phys != 1:
                kit.fail(["C07"], "state is not physically consistent (shape / distinct mines / revealed value = true neighbour count)",
                         dict(cfg=lab, op="Phys_b"), dict(m, seed=kit.seed))
            if not m["terminal"] and m.get("role") == "pre" and safe != 1:
                kit.fail(["C07", "C11"], "non-terminal state shows a mine, or step_count != revealed squares, or is already solved",
                         dict(cfg=lab, op="Safe_b"), dict(m, seed=kit.seed))
            if mask_ok != 1:
                kit.fail(["C04", "C12"], "action mask is not the set of unexplored squares (verified checker on implementation state)",
                         dict(cfg=lab, op="mask-exact"), dict(m, seed=kit.seed))
            if spec_ok != 1:
                kit.fail(["C01"], "board / step_count outside the value ranges of observation_spec", dict(cfg=lab, op="spec_ok_b"), dict(m, seed=kit.seed))
            if mined_sq != len(m["state"]["mines"]):
                kit.fail(["C10", "C07"], "number of mined squares differs from num_mines", dict(cfg=lab, op="mined-squares"), dict(m, seed=kit.seed))
            if m.get("role") == "final" and m["ended"]:
                # C08: return recomputed from the FINAL implementation state by the verified counters
                re4, rm4, ri4 = m["rew"]
                kit.res["C08"].evaluations += 1
                kit.res["C08"].distinct.add(cid)
                invalid = 1 if (m["state"]["step_count"] != rev) else 0   # the last action hit an explored square
                want = re4 * safe_rev + rm4 * mine_rev + ri4 * invalid
                kit.res["C08"].count("end:%s" % ("mine" if mine_rev else "invalid" if invalid else "solved"))
                if mine_rev == 0 and not invalid and safe_rev != m["S"]:
                    kit.fail(["C08", "C11"], "episode ended without mine/invalid action but the board is not solved", dict(cfg=lab, op="solved"), dict(m, seed=kit.seed))
                if m["ret4"] != want:
                    kit.fail(["C08"], "episode return != documented objective recomputed from the final state",
                             dict(cfg=lab, op="objective"), dict(m, want_x4=want, safe_revealed=safe_rev, mine_revealed=mine_rev, seed=kit.seed))
        elif kind == "episode":
            steps, ret4, last_type, safe_rev, mine_rev, fsc, inspec = got
            kit.res["C08"].evaluations += 1
            kit.res["C11"].evaluations += 1
            kit.res["C08"].distinct.add((lab, "episode", m["pol"], m["p"], m["b"]))
            if (steps, ret4, last_type, fsc) != (exp["steps"], exp["ret4"], exp["last_type"], exp["final_step_count"]) or inspec != 1:
                kit.fail(["C08", "C11", "C09"], "model episode (length, return, last step type, step_count) differs from the implementation's",
                         dict(cfg=lab, op="corr-episode"), dict(m, model=got, impl=exp, seed=kit.seed))
        elif kind == "counts":
            kit.res["C09"].evaluations += 1
            kit.res["C09"].count("neighbour-count-boards")
            half = len(got) // 2
            if got[:half] != exp[:half] or got[half:] != exp[half:] or got[:half] != got[half:]:
                kit.fail(["C09", "C07"], "neighbour counts disagree (code / model of the code / declarative count / NumPy)",
                         dict(cfg=lab, op="counts"), dict(m, model_impl=got[:half], model_decl=got[half:], impl=exp[:half], numpy=exp[half:], seed=kit.seed))
    for pid in PROPS:
        kit.res[pid].traces += len(calls)
        if not kit.res[pid].samples and metas:
            kit.res[pid].samples.append(dict(env=NAME, example=metas[min(5, len(metas) - 1)][2]))
