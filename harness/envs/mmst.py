"""MMST: correspondence with coq/Model/Mmst.v (step with the recovered tie-break permutation, reset from the generated
instance, node_types observation, generator pieces random_walk / merge_graphs over recovered draws) and the verified
boolean checkers (shape, active edges = base graph minus foreign utility nodes, mask = legal moves, utility-node
exclusivity, route connectivity, observation = declarative view, instance well-formedness) on the implementation's states.
Every single-agent action (A*N per state, the other agents standing still) and the all-stay joint action are tried from
visited states through the real jitted env.step (C04 by the env's own reaction, C05 documented effect of illegal moves).

Rewards: code = 4 * reward (all shipped / configured reward values are multiples of 0.25: exact float32 arithmetic)."""
import numpy as np

from harness import envkit

NAME = "mmst"
PROPS = ["C01", "C04", "C05", "C06", "C09", "C10", "C11", "C12"]
APPLIES = PROPS + ["C03"]
RS = 4  # reward scale


def _mk(N, E_, D, A, K, M, T, rv=None):
    import jumanji.environments as E
    from jumanji.environments.routing.mmst import generator as G
    from jumanji.environments.routing.mmst.reward import DenseRewardFn
    g = G.SplitRandomGenerator(num_nodes=N, num_edges=E_, max_degree=D, num_agents=A, num_nodes_per_agent=K, max_step=M)
    return E.MMST(generator=g, reward_fn=DenseRewardFn(rv) if rv else None, time_limit=T)


# NB: no `extra_configs` are registered: the generic / mode / wrapper harnesses already need ~5 min for the three catalog
# configurations of this compile-heavy environment; the extra configurations below are private to this module, which
# validates their observations against the declared spec itself (C01).


def private_configs(tier):
    """configurations used only by this module: time_limit != max_step (both ways), minimum sizes, 1 agent, dense graphs"""
    q = tier == "quick"
    C = []

    def add(label, make, steps, batch=None, time_limit=None):
        C.append(dict(env=NAME, label=label, make=make, steps=steps, batch=batch or (6 if q else 16), time_limit=time_limit, tags={}))
    add("n13a3k2t9-rw", lambda: _mk(13, 20, 4, 3, 2, 9, 9, (4.0, -0.5, -2.0)), 12, time_limit=9)   # uneven split 5/4/4, other rewards
    add("n10a2k2-m4t9", lambda: _mk(10, 14, 3, 2, 2, 4, 9), 11, time_limit=9)      # route array shorter than the episode
    add("n5a1k2-m6t6", lambda: _mk(5, 6, 2, 1, 2, 6, 6), 8, time_limit=6)          # single agent
    add("n16a4k2-t8", lambda: _mk(16, 26, 4, 4, 2, 8, 8), 10, time_limit=8)       # 4 agents: 3-/4-way and double 2-way ties
    if not q:
        add("n10a2k2-m12t5", lambda: _mk(10, 14, 3, 2, 2, 12, 5), 7, time_limit=5)     # route array longer
        add("n8a2k3-dense", lambda: _mk(8, 20, 7, 2, 3, 10, 10, (1.0, 0.0, -0.25)), 12, time_limit=10)
        add("n24a4k3-t30", lambda: _mk(24, 44, 4, 4, 3, 30, 30), 33, time_limit=30)
        add("default-t70", lambda: _mk(36, 72, 5, 3, 4, 70, 70), 72, time_limit=70)
    return C


# ---------------------------------------------------------------- encoders
def ints(x):
    return [int(v) for v in np.asarray(x).reshape(-1)]


def rcode(r):
    v = float(r) * RS
    k = int(round(v))
    return k if abs(v - k) < 1e-6 else 10 ** 9


def dims(env):
    g = env._generator
    return int(env.num_agents), int(env.num_nodes), int(env.num_nodes_per_agent), int(g._max_step), int(env.time_limit)


def enc_cfg(env):
    rf = env._reward_fn
    return list(dims(env)) + [rcode(rf._reward_connected), rcode(rf._reward_time_step), rcode(rf._reward_noop)]


def enc_state(s):
    return (ints(s.node_types) + ints(s.adj_matrix) + ints(s.connected_nodes) + ints(s.connected_nodes_index)
            + ints(s.nodes_to_connect) + ints(s.node_edges) + ints(s.positions) + ints(s.position_index)
            + ints(s.action_mask) + ints(s.finished_agents) + [int(s.step_count)])


def enc_dyn(s):
    return (ints(s.connected_nodes) + ints(s.connected_nodes_index) + ints(s.node_edges) + ints(s.positions)
            + ints(s.position_index) + ints(s.action_mask) + ints(s.finished_agents) + [int(s.step_count)])


def enc_ts(ts):
    return [int(ts.step_type), rcode(ts.reward), int(round(float(ts.discount)))]


def layout_dyn(A, N, M):
    return [("connected_nodes", A * M), ("connected_nodes_index", A * N), ("node_edges", A * N * N), ("positions", A),
            ("position_index", A), ("action_mask", A * N), ("finished_agents", A), ("step_count", 1),
            ("step_type", 1), ("reward", 1), ("discount", 1), ("obs_node_types", N)]


def describe(s):
    return dict(node_types=ints(s.node_types), positions=ints(s.positions), position_index=ints(s.position_index),
                finished=ints(s.finished_agents), step_count=int(s.step_count),
                nodes_to_connect=np.asarray(s.nodes_to_connect).astype(int).tolist(),
                connected_nodes=np.asarray(s.connected_nodes).astype(int).tolist(),
                action_mask=np.asarray(s.action_mask).astype(int).tolist(), key=ints(s.key))


STATE_FIELDS = {"connected_nodes", "connected_nodes_index", "node_edges", "positions", "position_index", "finished_agents", "step_count"}


def blame(bad, illegal):
    pids = {"C09"}
    if "action_mask" in bad:
        pids.add("C04")
    if illegal and (STATE_FIELDS & set(bad) or "reward" in bad):
        pids.add("C05")
    if "node_edges" in bad or "connected_nodes_index" in bad:
        pids.add("C06")
    if "obs_node_types" in bad:
        pids.add("C12")
    if "step_type" in bad or "step_count" in bad:
        pids.add("C11")
    return sorted(pids)


# ---------------------------------------------------------------- generator draws (C10)
def split_sizes(N, A):
    return [N // A + (1 if i < N % A else 0) for i in range(A)]


def sub_edge_counts(N, E_, A):
    """the static arithmetic of utils.multi_random_walk (copied; the final graph is compared with the real one)"""
    sizes = split_sizes(N, A)
    tot = E_ // 2
    per = [tot // A + (1 if i < tot % A else 0) for i in range(A)]
    sub = [min(n * (n - 1) // 2, max(n - 1, per[i])) for i, n in enumerate(sizes)]
    tm = E_ - sum(sub)
    sum_ratio = np.arange(1, A).sum()
    frac = np.cumsum(tm * np.arange(1, A - 1) / sum_ratio).astype(np.int32) if A > 1 else np.zeros(0, np.int32)
    parts = np.split(np.arange(tm), frac) if A > 1 else []
    return sizes, sub, [len(p) for p in parts]


_JIT = {}


def walk_draws(n, L):
    """jitted: base_key -> (neighbour draws[L], base keys after each iteration [L]) following add_an_edge_with_a_new_node"""
    import jax
    import jax.numpy as jnp
    k = ("walk", n, L)
    if k not in _JIT:
        nodes = jnp.arange(n, dtype=jnp.int32)

        def f(base_key):
            def body(bk, _):
                ck, bk2 = jax.random.split(bk)
                nb = jax.random.choice(ck, nodes, [1])[0]
                return bk2, (nb, bk2)
            _, (d, ks) = jax.lax.scan(body, base_key, None, length=L)
            return d, ks
        _JIT[k] = jax.jit(f)
    return _JIT[k]


def pair_draws(n, L):
    """jitted: base_key -> pair draws [L,2] following add_random_edges / make_random_edge on nodes 0..n-1"""
    import jax
    import jax.numpy as jnp
    k = ("pair", n, L)
    if k not in _JIT:
        nodes = jnp.arange(n, dtype=jnp.int32)

        def f(base_key):
            def body(bk, _):
                ck, bk2 = jax.random.split(bk)
                e = jax.random.choice(ck, nodes, [2], replace=False)
                return bk2, e
            _, d = jax.lax.scan(body, base_key, None, length=L)
            return d
        _JIT[k] = jax.jit(f)
    return _JIT[k]


def enc_graph_in(n, edges, deg, ne):
    return [n, len(edges)] + [int(v) for e in edges for v in e] + ints(deg) + ints(ne)


def dec_graph_out(out, n):
    m = out[0]
    es = [(out[1 + 2 * i], out[2 + 2 * i]) for i in range(m)]
    p = 1 + 2 * m
    return es, out[p:p + n], out[p + n:p + n + n * n], out[p + n + n * n:]


def generator_draws(kit, env, nkeys, keys=None):
    """(keys: explicit list of the keys handed to _generate_graph, instead of nkeys keys derived from kit.seed)
    Replays utils.multi_random_walk piecewise: the model's random_walk / merge_graphs are fed the draws recovered from
    the real key stream (control flow = the MODEL's; a first model pass tells how many walk draws were consumed), every
    intermediate graph is compared with the real utils.random_walk / utils.merge_graphs and the final one with the
    real generator's _generate_graph."""
    import jax
    import jax.numpy as jnp
    from jumanji.environments.routing.mmst import utils as U
    g = env._generator
    N, E_, D, A = int(g._num_nodes), int(g._num_edges), int(g._max_degree), int(g._num_agents)
    sizes, sub, mer = sub_edge_counts(N, E_, A)
    offs = [sum(sizes[:i]) for i in range(A)]
    res = kit.res["C10"]
    LW, LP = 60 * max(sizes) + 200, 40 * E_ + 200
    rw = {}
    for i in range(A):
        kk = (sizes[i], sub[i], D)
        if kk not in rw:
            rw[kk] = jax.jit(lambda key, n=sizes[i], e=sub[i]: U.random_walk(jnp.arange(n, dtype=jnp.int32), e, D, key))
    gen_graph = jax.jit(g._generate_graph)
    rkeys = {}
    for kidx in range(nkeys if keys is None else len(keys)):
        key = jax.random.PRNGKey(kit.seed * 1009 + kidx) if keys is None else jnp.asarray(keys[kidx])
        adj_real, ne_real, _ = gen_graph(key)
        graph_key, base_key = jax.random.split(key)
        sub_keys = jax.random.split(graph_key, A)
        # phase 1: walks
        calls1, info = [], []
        for i in range(A):
            n = sizes[i]
            ck, bk = jax.random.split(sub_keys[i])
            start = int(jax.random.randint(ck, (1,), minval=0, maxval=n - 1, dtype=jnp.int32)[0])
            wd, wk = walk_draws(n, LW)(bk)
            wd, wk = np.asarray(wd), np.asarray(wk)
            calls1.append(("mmst_walk_io", [n, sub[i], D, start, LW] + ints(wd) + [0]))
            info.append((n, start, wd, wk, bk))
        outs1 = kit.model(calls1)
        calls2, subs = [], []
        for i in range(A):
            n, start, wd, wk, bk = info[i]
            used = LW - outs1[i][0]
            if all_in_tree_after(n, start, wd[:used]) is False or used >= LW:
                kit.fail(["C10"], "walk draws exhausted before the model's spanning tree was complete", dict(op="corr-gen-walk"), dict(n=n, key=ints(sub_keys[i])))
            kafter = bk if used == 0 else wk[used - 1]
            pd = np.asarray(pair_draws(n, LP)(jnp.asarray(kafter)))
            calls2.append(("mmst_walk_io", [n, sub[i], D, start, used] + ints(wd[:used]) + [LP] + ints(pd)))
            subs.append(rw[(n, sub[i], D)](sub_keys[i]))
        outs2 = kit.model(calls2)
        graphs = []
        for i in range(A):
            n = sizes[i]
            es, deg, ne, _ = dec_graph_out(outs2[i][1:], n)
            real = subs[i]
            res.evaluations += 1
            res.distinct.add(("walk", n, sub[i], kidx, i))
            exp = (np.asarray(real.edges).astype(int).tolist(), ints(real.node_degree), ints(real.node_edges))
            if ([list(e) for e in es], deg, ne) != exp:
                kit.fail(["C10"], "model random_walk (explicit draws) disagrees with utils.random_walk",
                         dict(op="corr-gen-walk"), dict(n=n, num_edges=sub[i], max_degree=D, key=ints(sub_keys[i]), model_edges=es, impl_edges=exp[0]))
            graphs.append((n, es, deg, ne))
        # merges
        mkeys = jax.random.split(base_key, A - 1) if A > 1 else None
        cur = graphs[0]
        cur_real = subs[0]
        total = sub[0]
        for i in range(1, A):
            total += sub[i] + mer[i - 1]
            mk = mkeys[i]          # NB: index A-1 is out of range for A-1 keys -> JAX clamps (the last key is reused)
            k1, k2 = jax.random.split(mk, 2)
            ka, kb = jax.random.split(k1)
            na = cur[0]
            nodes_a = jnp.arange(na, dtype=jnp.int32)
            nodes_b = jnp.arange(sizes[i], dtype=jnp.int32) + offs[i]
            c1, c2 = int(jax.random.choice(ka, nodes_a)), int(jax.random.choice(kb, nodes_b))
            pd = np.asarray(pair_draws(na + sizes[i], LP)(k2))
            gb = graphs[i]
            call = ("mmst_merge_io", [D, total, offs[i]] + enc_graph_in(*cur) + enc_graph_in(*gb) + [c1, c2, LP] + ints(pd))
            out = kit.model([call])[0]
            n2 = na + sizes[i]
            es, deg, ne, adjm = dec_graph_out(out, n2)
            mkey = ("merge", id(env), i)
            if mkey not in _JIT:
                _JIT[mkey] = jax.jit(lambda ga, gb, k, total=total, off=offs[i]: U.merge_graphs(ga, U.correct_graph_offset(gb, off), total, D, k))
            cur_real = _JIT[mkey](cur_real, subs[i], mk)
            exp = (np.asarray(cur_real.edges).astype(int).tolist(), ints(cur_real.node_degree), ints(cur_real.node_edges))
            res.evaluations += 1
            res.distinct.add(("merge", n2, total, kidx, i))
            if ([list(e) for e in es], deg, ne) != exp:
                kit.fail(["C10"], "model merge_graphs (explicit draws) disagrees with utils.merge_graphs",
                         dict(op="corr-gen-merge"), dict(stage=i, key=ints(key), model_edges=es, impl_edges=exp[0]))
            cur = (n2, es, deg, ne)
        res.evaluations += 1
        if A > 1 and (ne != ints(ne_real) or adjm != ints(adj_real)):
            kit.fail(["C10"], "piecewise model generator disagrees with SplitRandomGenerator._generate_graph",
                     dict(op="corr-gen-graph"), dict(key=ints(key)))
        if A == 1 and cur[3] != ints(ne_real):
            kit.fail(["C10"], "piecewise model generator disagrees with SplitRandomGenerator._generate_graph",
                     dict(op="corr-gen-graph"), dict(key=ints(key)))


def all_in_tree_after(n, start, wd):
    """sanity only: every node was drawn at least once in the consumed prefix"""
    return set([start] + [int(x) for x in wd]) >= set(range(n))


# ---------------------------------------------------------------- known finding: the walk moves after a refused edge
WALK_TAG = dict(op="gen-walk", cause="moves-after-refused-edge")
WALK_WHAT = ("utils.random_walk moves to the neighbour even when add_edge refused the edge (degree already > max_degree): "
             "the next unmarked node is linked to an unmarked node or to itself -> %s")


def walk_probe(kit, calls, metas):
    """Deterministic exhibits of the finding {op: gen-walk, cause: moves-after-refused-edge}: real instances whose adjacency
    matrix has a self loop / a block that is not connected inside itself.  Each probe (a) queues the verified instance
    certificate on the real reset state (reported with the tag by the 'instance' handler), (b) replays the draws recovered
    from the real key stream through the model's random_walk / merge_graphs: model = implementation must still hold."""
    import jax
    import jumanji
    probes = [("probe-n12e12d2", lambda: _mk(12, 12, 2, 2, 3, 24, 24), 161)]
    if kit.tier != "quick":
        probes += [("probe-MMST-v0", lambda: jumanji.make("MMST-v0"), 60800), ("probe-MMST-v0", lambda: jumanji.make("MMST-v0"), 396169)]
    envs = {}
    for label, make, seed in probes:
        if label not in envs:
            e = make()
            envs[label] = (e, jax.jit(e.reset))
        env, reset = envs[label]
        A, N, K, M, T = dims(env)
        g = env._generator
        key = jax.random.PRNGKey(seed)
        s0, _ = reset(key)
        base = np.asarray(s0.node_edges)[0]
        calls.append(("mmst_instance_io", [A, N, K] + ints(s0.adj_matrix) + ints(base) + ints(s0.nodes_to_connect)))
        metas.append(("instance", None, None, dict(cfg=label, p="probe", b=seed, maxdeg=int(g._max_degree), nedges=int(g._num_edges),
                                                   key=ints(key), need=ints(s0.nodes_to_connect), probe=True)))
        _, pk = jax.random.split(key)            # MMST.reset
        graph_key, _ = jax.random.split(pk)      # SplitRandomGenerator.__call__
        generator_draws(kit, env, 1, keys=[np.asarray(graph_key)])


# ---------------------------------------------------------------- contested joint actions (tie-break, C06)
def synth_contests(kit, s0, A, N, M, want):
    """States built directly from a reset state: k = min(A, deg(u)) agents are put on distinct neighbours of a utility node u
    (route index set / route array / active edges / mask made consistent), so that k agents can legally take u at once."""
    adj = np.asarray(s0.adj_matrix)
    types = np.asarray(s0.node_types)
    base = np.asarray(s0.node_edges)[0]
    out = []
    utils_ = [u for u in range(N) if types[u] == -1 and adj[u].sum() >= 2]
    utils_.sort(key=lambda u: -int(adj[u].sum()))
    for u in utils_[:want]:
        nb = [int(v) for v in np.where(adj[u] == 1)[0]]
        kit.rng.shuffle(nb)
        agents = [int(a) for a in kit.rng.permutation(A)]
        k = min(A, len(nb))
        pos = np.asarray(s0.positions).copy()
        cidx = np.asarray(s0.connected_nodes_index).copy()
        conn = np.asarray(s0.connected_nodes).copy()
        pidx = np.asarray(s0.position_index).copy()
        for i in range(k):
            a, v = agents[i], nb[i]
            if v == pos[a]:
                continue
            pos[a] = v
            cidx[a, v] = v
            pidx[a] = 1
            if M > 1:
                conn[a, 1] = v
        edges = np.repeat(base[None], A, 0).copy()
        for a in range(A):               # utility nodes in a route are closed for the other agents
            for v in np.where(cidx[a] != -1)[0]:
                if types[v] == -1:
                    for b in range(A):
                        if b != a:
                            edges[b][edges[b] == v] = -1
        mask = np.stack([edges[a, pos[a]] != -1 for a in range(A)])
        out.append((u, s0.replace(positions=pos, connected_nodes_index=cidx, connected_nodes=conn, position_index=pidx,
                                  node_edges=edges, action_mask=mask, step_count=np.asarray(1, np.asarray(s0.step_count).dtype))))
    return out


def contested_actions(mask, pos, types, A, N, rng, cap=12):
    """joint actions in which several agents aim at the same legal node: every agent that may take the most demanded utility
    node takes it; all pairs / triples of agents sharing a legal target; (4 agents) two simultaneous 2-way ties.
    The other agents play their own position (illegal: they stay).  -> [(action, [(node, [agents])...])]"""
    import itertools
    acts, seen = [], set()

    def add(groups):
        a = list(pos)
        for node, ags in groups:
            for g in ags:
                a[g] = node
        if tuple(a) not in seen:
            seen.add(tuple(a))
            acts.append((a, groups))
    demand = mask.sum(0)
    order = sorted(range(N), key=lambda j: (-(int(demand[j]) if types[j] == -1 else 0), -int(demand[j])))
    shared = [j for j in order if demand[j] >= 2]
    for j in shared[:3]:
        ags = [int(a) for a in np.where(mask[:, j])[0]]
        add([(j, ags)])
        for r in (2, 3):
            for sub in itertools.combinations(ags, r):
                if len(sub) < len(ags):
                    add([(j, list(sub))])
    for j1, j2 in itertools.combinations(shared[:4], 2):       # two simultaneous ties on different nodes
        a1 = [int(a) for a in np.where(mask[:, j1])[0]]
        a2 = [int(a) for a in np.where(mask[:, j2])[0] if a not in a1[:2]]
        if len(a1) >= 2 and len(a2) >= 2:
            add([(j1, a1[:2]), (j2, a2[:2])])
    return acts[:cap]


def contest(kit, cfg, env, ec, lay, states, calls, metas, nkeys=16):
    """real env.step under vmap over nkeys different state.key values (all tie-break permutations) x contested joint actions;
    each distinct (action, permutation) is replayed in the model, all successors go through the verified checkers, and for a
    utility node the winner must be the first contender of the recovered permutation and the only agent that enters it."""
    import jax
    import jax.numpy as jnp
    A, N, K, M, T = dims(env)
    fkey = ("contest", cfg["label"])
    if fkey not in _JIT:
        def f(s, key, action):
            s2, ts2 = env.step(s.replace(key=key), action)
            return s2, ts2.replace(extras={})
        _JIT[fkey] = (jax.jit(jax.vmap(f, in_axes=(None, 0, 0))),
                      jax.jit(jax.vmap(lambda k: jax.random.permutation(jax.random.split(k)[1], jnp.arange(A)))))
    vstep, perm_of = _JIT[fkey]
    res = kit.res["C06"]
    for si, (tag, s) in enumerate(states):
        mask, pos, types = np.asarray(s.action_mask), ints(s.positions), np.asarray(s.node_types)
        acts = contested_actions(mask, pos, types, A, N, kit.rng)
        if not acts:
            continue
        keys = jax.random.split(jax.random.PRNGKey(kit.seed * 31 + si * 7 + hash(cfg["label"]) % 1000), nkeys)
        perms = np.asarray(perm_of(keys))
        KK = jnp.concatenate([keys] * len(acts), 0)
        AA = jnp.asarray(np.repeat(np.asarray([a for a, _ in acts], np.int32), nkeys, 0))
        sj = jax.tree_util.tree_map(jnp.asarray, s)
        s3, ts3 = jax.tree_util.tree_map(np.asarray, vstep(sj, KK, AA))
        es = enc_state(s)
        for ai, (aq, groups) in enumerate(acts):
            size = max(len(g) for _, g in groups)
            res.count("%d-way-tie%s" % (size, "+double" if len(groups) > 1 else ""), nkeys)
            first = {}
            for ki in range(nkeys):
                q = ai * nkeys + ki
                perm = tuple(int(x) for x in perms[ki])
                if perm not in first:
                    s3q, ts3q = envkit.R.slice_tree(s3, q), envkit.R.slice_tree(ts3, q)
                where = dict(cfg=cfg["label"], p="contest", b="%s%d" % (tag, si), t=ai)
                res.evaluations += 1
                res.distinct.add((cfg["label"], tag, si, ai, perm))
                # independent rule: one winner per contested utility node = the first contender in the permutation
                for node, ags in groups:
                    if types[node] != -1:
                        continue
                    winner = [g for g in perm if g in ags][0]
                    inside = [g for g in range(A) if int(s3.positions[q, g]) == node]
                    if inside != [winner]:
                        kit.fail(["C06"], "tie on a utility node: agents %s entered it, expected only the first contender %d of the permutation" % (inside, winner),
                                 dict(cfg=cfg["label"], op="tie-break-exclusive"),
                                 dict(where, node=node, contenders=ags, perm=list(perm), action=aq, key=ints(keys[ki]), state=describe(s), seed=kit.seed))
                if perm in first:        # same permutation -> same successor (the key itself is not compared)
                    q0 = first[perm]
                    same = all(np.array_equal(getattr(s3, f)[q], getattr(s3, f)[q0]) for f in
                               ("connected_nodes", "connected_nodes_index", "node_edges", "positions", "position_index", "action_mask", "finished_agents", "step_count"))
                    same = same and float(ts3.reward[q]) == float(ts3.reward[q0]) and int(ts3.step_type[q]) == int(ts3.step_type[q0]) \
                        and np.array_equal(ts3.observation.node_types[q], ts3.observation.node_types[q0])
                    if not same:
                        kit.fail(["C09"], "two keys with the same tie-break permutation give different successors", dict(cfg=cfg["label"], op="perm-determines-step"),
                                 dict(where, perm=list(perm), action=aq, seed=kit.seed))
                    continue
                enc = enc_dyn(s3q) + enc_ts(ts3q) + ints(ts3q.observation.node_types)
                first[perm] = q
                calls.append(("mmst_step_io", ec + es + ints(aq) + list(perm)))
                metas.append(("step", lay, enc, dict(where, action=ints(aq), perm=list(perm), illegal=True, live=True, contest=True,
                                                    key=ints(keys[ki]), state=describe(s))))
                calls.append(("mmst_check_io", ec + enc_state(s3q) + ints(s3q.finished_agents)))
                metas.append(("check", None, None, dict(where, t="%d/%s" % (ai, "".join(map(str, perm))), live=True, action=ints(aq), perm=list(perm),
                                                        key=ints(keys[ki]), skip=(["route_connected"] if tag == "synth" else []), state=describe(s3q))))


# ---------------------------------------------------------------- main analysis
def analyze(kit):
    import jax
    import jax.numpy as jnp
    R = envkit.R
    calls, metas = [], []
    cfgs = list(kit.configs()) + private_configs(kit.tier)
    import time as _t
    for cfg in cfgs:
        _t0 = _t.time()
        env = kit.env(cfg)
        A, N, K, M, T = dims(env)
        ec = enc_cfg(env)
        lay = layout_dyn(A, N, M)
        lay_init = [("node_types", N)] + lay
        g = env._generator
        maxdeg, nedges = int(g._max_degree), int(g._num_edges)
        perm_of = jax.jit(jax.vmap(lambda k: jax.random.permutation(jax.random.split(k)[1], jnp.arange(A))))
        vstep = jax.jit(jax.vmap(env.step, in_axes=(None, 0)))
        sweep_budget = 10 if kit.tier == "quick" else 40
        for p in (0.0, 0.35):
            roll = kit.roll(cfg, p)
            _, st, ts, ac, fl, k0 = roll
            B, TT = ac.shape[0], ac.shape[1]
            perms = np.asarray(perm_of(jnp.asarray(st.key).reshape(-1, 2))).reshape(B, TT + 1, A)
            spec = env.observation_spec
            for b in range(B):
                s0, ts0 = R.slice_tree(st, b, 0), R.slice_tree(ts, b, 0)
                where = dict(cfg=cfg["label"], p=p, b=b)
                for t in range(min(TT, int(fl[b])) + 1):      # C01: reset, every step up to and including the terminal one
                    kit.res["C01"].evaluations += 1
                    kit.res["C01"].distinct.add((cfg["label"], p, b, t, "spec"))
                    try:
                        spec.validate(jax.tree_util.tree_map(jnp.asarray, R.slice_tree(ts.observation, b, t)))
                    except Exception as e:  # noqa
                        kit.fail(["C01"], "observation violates the declared spec: %s" % str(e)[:120], dict(cfg=cfg["label"], op="spec-validate"), dict(where, t=t, seed=kit.seed))
                # ---- reset: instance checks (C10), init correspondence, reset-state checkers
                base = np.asarray(s0.node_edges)[0]
                calls.append(("mmst_instance_io", [A, N, K] + ints(s0.adj_matrix) + ints(base) + ints(s0.nodes_to_connect)))
                metas.append(("instance", None, None, dict(where, maxdeg=maxdeg, nedges=nedges, key=ints(k0[b]))))
                calls.append(("mmst_init_io", ec + ints(base) + ints(s0.adj_matrix) + ints(s0.nodes_to_connect)))
                metas.append(("init", lay_init, ints(s0.node_types) + enc_dyn(s0) + enc_ts(ts0) + ints(ts0.observation.node_types),
                              dict(where, t=0, key=ints(k0[b]))))
                calls.append(("mmst_check_io", ec + enc_state(s0) + [0] * A))
                metas.append(("check", None, None, dict(where, t=0, live=True, state=describe(s0))))
                # ---- C11 per episode
                first = int(fl[b])
                kit.res["C11"].evaluations += 1
                kit.res["C11"].distinct.add((cfg["label"], p, b))
                if first <= TT:
                    allfin = bool(np.asarray(st.finished_agents[b, first]).all())
                    if not (first == T or (first < T and allfin)):
                        kit.fail(["C11"], "episode ended at step %d with time_limit %d (all finished: %s)" % (first, T, allfin),
                                 dict(cfg=cfg["label"], op="time-limit"), dict(where, seed=kit.seed))
                    kit.res["C11"].count("end:" + ("limit" if first == T and not allfin else "completed"))
                elif TT >= T:
                    kit.fail(["C11"], "episode still running after time_limit %d" % T, dict(cfg=cfg["label"], op="time-limit"), dict(where, seed=kit.seed))
            for (b, t, s, a, s2, ts2) in kit.transitions(roll, upto_last=False):
                live = t < fl[b]
                where = dict(cfg=cfg["label"], p=p, b=b, t=t)
                perm = perms[b, t]
                mask = np.asarray(s.action_mask)
                illegal = any((not mask[i, int(a[i])]) and not bool(s.finished_agents[i]) for i in range(A))
                calls.append(("mmst_step_io", ec + enc_state(s) + ints(a) + ints(perm)))
                metas.append(("step", lay, enc_dyn(s2) + enc_ts(ts2) + ints(ts2.observation.node_types),
                              dict(where, action=ints(a), perm=ints(perm), illegal=illegal, live=live, state=describe(s))))
                calls.append(("mmst_check_io", ec + enc_state(s2) + ints(s2.finished_agents)))     # mask judged with the state's OWN flags
                metas.append(("check", None, None, dict(where, t=t + 1, live=live, state=describe(s2))))
                if live:
                    # C12: copied observation fields
                    o = ts2.observation
                    kit.res["C12"].evaluations += 1
                    kit.res["C12"].distinct.add((cfg["label"], p, b, t))
                    if not (np.array_equal(o.adj_matrix, s2.adj_matrix) and np.array_equal(o.positions, s2.positions)
                            and int(o.step_count) == int(s2.step_count) and np.array_equal(o.action_mask, s2.action_mask)):
                        kit.fail(["C12"], "copied observation field differs from the state", dict(cfg=cfg["label"], op="obs-copy"), dict(where, seed=kit.seed))
                    # C04 (hard): a finished agent has no legal move -> its mask row must be empty in the SAME state
                    f2, m2 = np.asarray(s2.finished_agents), np.asarray(s2.action_mask)
                    kit.res["C04"].evaluations += 1
                    for i in range(A):
                        if f2[i]:
                            kit.res["C04"].count("finished-agent-row-checked")
                            if m2[i].any():
                                kit.fail(["C04"], "finished agent has a non-empty action mask row (mask not built with the state's own finished flags)",
                                         dict(cfg=cfg["label"], op="mask-exact", cause="stale-finished-flags"),
                                         dict(where, agent=i, state=describe(s), action=ints(a), perm=ints(perm), next_mask_row=m2[i].astype(int).tolist(), seed=kit.seed))
                # ---- every single-agent action from this state (others stand still = illegal self move)
                if live and sweep_budget > 0 and (kit.rng.random() < 0.25 or t == 0):
                    sweep_budget -= 1
                    sj = jax.tree_util.tree_map(jnp.asarray, s)
                    pos = ints(s.positions)
                    acts = [list(pos)]
                    for i in range(A):
                        for j in range(N):
                            aa = list(pos)
                            aa[i] = j
                            acts.append(aa)
                    # a few joint actions where two agents aim at the same node (tie-break)
                    for _ in range(6):
                        aa = [int(kit.rng.integers(0, N)) for _ in range(A)]
                        if A > 1:
                            i, k = kit.rng.choice(A, 2, replace=False)
                            common = np.where(mask[i] & mask[k])[0]
                            if len(common):
                                aa[i] = aa[k] = int(kit.rng.choice(common))
                        acts.append(aa)
                    acts = np.asarray(acts, np.int32)
                    s3, ts3 = vstep(sj, jnp.asarray(acts))
                    s3, ts3 = jax.tree_util.tree_map(np.asarray, (s3, ts3))
                    fin = np.asarray(s.finished_agents)
                    rf = env._reward_fn
                    pen = float(rf._reward_time_step) + float(rf._reward_noop)
                    for q in range(acts.shape[0]):
                        s3q, ts3q = R.slice_tree(s3, q), R.slice_tree(ts3, q)
                        aq = acts[q]
                        ill = any((not mask[i, int(aq[i])]) and not fin[i] for i in range(A))
                        calls.append(("mmst_step_io", ec + enc_state(s) + ints(aq) + ints(perm)))
                        metas.append(("step", lay, enc_dyn(s3q) + enc_ts(ts3q) + ints(ts3q.observation.node_types),
                                      dict(where, action=ints(aq), perm=ints(perm), illegal=ill, live=True, sweep=True, state=describe(s))))
                        if q == 0:
                            # all agents play an illegal move: documented reward = (#unfinished) * (time step + noop penalty)
                            kit.res["C05"].evaluations += 1
                            kit.res["C05"].distinct.add((cfg["label"], p, b, t, "all-stay"))
                            exp = pen * int((~fin).sum())
                            if any(int(s.connected_nodes_index[i, N - 1]) != -1 and not fin[i] for i in range(A)):
                                kit.res["C05"].count("all-stay-with-an-agent-that-visited-node-N-1")
                            if abs(float(ts3q.reward) - exp) > 1e-6:
                                visited_last = [int(i) for i in range(A) if not fin[i] and int(s.connected_nodes_index[i, N - 1]) != -1]
                                kit.fail(["C05"], "illegal move not charged the documented time-step + invalid-action penalty",
                                         dict(cfg=cfg["label"], op="invalid-penalty", cause="last-node-wrap"),
                                         dict(where, action=ints(aq), reward=float(ts3q.reward), documented=exp, agents_having_visited_last_node=visited_last,
                                              state=describe(s), seed=kit.seed))
                            if not np.array_equal(s3q.positions, s.positions) or not np.array_equal(s3q.connected_nodes, s.connected_nodes) \
                                    or not np.array_equal(s3q.connected_nodes_index, s.connected_nodes_index) or not np.array_equal(s3q.node_edges, s.node_edges):
                                kit.fail(["C05"], "illegal moves changed the routes", dict(cfg=cfg["label"], op="invalid-noop"), dict(where, action=ints(aq), state=describe(s), seed=kit.seed))
                        elif q <= A * N:
                            i, j = (q - 1) // N, (q - 1) % N
                            kit.res["C04"].evaluations += 1
                            kit.res["C04"].distinct.add((cfg["label"], p, b, t, i, j))
                            moved = int(s3q.positions[i]) == j and int(s3q.position_index[i]) == int(s.position_index[i]) + 1
                            stayed = int(s3q.positions[i]) == pos[i] and int(s3q.position_index[i]) == int(s.position_index[i])
                            if fin[i]:
                                ok = stayed
                            elif mask[i, j]:
                                ok = moved
                                kit.res["C04"].count("legal-move-accepted")
                            else:
                                ok = stayed
                                kit.res["C05"].evaluations += 1
                                kit.res["C05"].distinct.add((cfg["label"], p, b, t, i, j))
                                kit.res["C05"].count("illegal-single-move")
                            if not ok:
                                kit.fail(["C04", "C05"] if not mask[i, j] else ["C04"], "env's reaction contradicts the mask (masked-in move refused or masked-out move executed)",
                                         dict(cfg=cfg["label"], op="mask-reaction"), dict(where, agent=i, node=j, mask=bool(mask[i, j]), state=describe(s), seed=kit.seed))
        # ---- contested joint actions over many keys (>= 2 agents; 3-/4-way ties need >= 3 agents)
        if A >= 2:
            cands = []
            for p in (0.0, 0.35):
                _, st, ts, ac, fl, k0 = kit.roll(cfg, p)
                for b in range(ac.shape[0]):
                    for t in range(min(ac.shape[1], int(fl[b]))):
                        m_ = np.asarray(st.action_mask[b, t])
                        d_ = int(m_.sum(0).max())
                        if d_ >= 2:
                            cands.append((d_ + kit.rng.random(), p, b, t))
            cands.sort(reverse=True)
            nv = (4 if A >= 3 else 2) if kit.tier == "quick" else 20
            states = [("visited", R.slice_tree(kit.roll(cfg, p)[1], b, t)) for _, p, b, t in cands[:nv]]
            if A >= 3:
                _, st, ts, ac, fl, k0 = kit.roll(cfg, 0.0)
                for b in range(min(ac.shape[0], 2 if kit.tier == "quick" else 8)):
                    states += [("synth", x) for _, x in synth_contests(kit, R.slice_tree(st, b, 0), A, N, M, 2)]
            contest(kit, cfg, env, ec, lay, states, calls, metas)
        _t1 = _t.time()
        # ---- generator over explicit draws
        if cfg["label"] in ("n12a2t7", "n13a3k2t9-rw") or (kit.tier != "quick" and cfg["label"] in ("default-t12", "n5a1k2-m6t6", "n8a2k3-dense", "n24a4k3-t30")):
            generator_draws(kit, env, 3 if kit.tier == "quick" else 12)

        if __import__("os").environ.get("MMST_TIMING"):
            print("timing", cfg["label"], "rolls+sweeps %.1f" % (_t1 - _t0), "gen %.1f" % (_t.time() - _t1), flush=True)
    walk_probe(kit, calls, metas)
    _t2 = _t.time()
    outs = kit.model(calls)
    if __import__("os").environ.get("MMST_TIMING"):
        print("timing model %.1f calls %d" % (_t.time() - _t2, len(calls)), flush=True)
    names = ["shape", "edges_ok", "mask_ok", "excl", "route_ok", "route_connected", "obs_view"]
    pid_of = dict(shape=["C01"], edges_ok=["C04", "C06"], mask_ok=["C04"], excl=["C06"], route_ok=["C06"], route_connected=["C06"], obs_view=["C12"])
    for (entry, args), (kind, layout, exp, m), got in zip(calls, metas, outs):
        if kind in ("step", "init"):
            got = got[:len(exp)]
            bad = envkit.diff_fields(layout, got, exp)
            for pid in ("C09", "C04", "C12"):
                kit.res[pid].evaluations += 1
            kit.res["C09"].distinct.add((m["cfg"], m["p"], m["b"], m["t"], tuple(m.get("action", ()))))
            if kind == "step" and m["illegal"]:
                kit.res["C05"].evaluations += 1
                kit.res["C05"].distinct.add((m["cfg"], m["p"], m["b"], m["t"], tuple(m["action"])))
            if kind == "init":
                kit.res["C10"].evaluations += 1
            if bad:
                kit.fail(blame(bad, m.get("illegal", False)) + (["C10"] if kind == "init" else []),
                         "model and implementation disagree on %s (fields %s)" % (kind, ",".join(bad)),
                         dict(cfg=m["cfg"], op="corr-" + kind, fields=",".join(bad)), dict(m, seed=kit.seed))
        elif kind == "check":
            for nm, v in zip(names, got):
                if nm in m.get("skip", ()):
                    continue
                for pid in pid_of[nm]:
                    kit.res[pid].evaluations += 1
                    kit.res[pid].distinct.add((m["cfg"], m["p"], m["b"], m["t"], nm))
                if v != 1:
                    kit.fail(pid_of[nm], "verified checker %s is false on an implementation state" % nm,
                             dict(cfg=m["cfg"], op="check-" + nm), dict(m, seed=kit.seed))
        elif kind == "instance":
            kit.res["C10"].evaluations += 1
            kit.res["C10"].distinct.add((m["cfg"], m["p"], m["b"]))
            N_ = args[1]
            adjm = np.asarray(args[3:3 + N_ * N_]).reshape(N_, N_)
            loops = [i for i in range(N_) if adjm[i, i]]
            symmetric = bool((adjm == adjm.T).all()) and bool(((adjm == 0) | (adjm == 1)).all())
            walk_symptoms = []
            for nm, v in zip(["symmetric-loopless", "node_edges-consistent", "blocks-connected", "required-nodes-in-own-block"], got[:4]):
                if v == 1:
                    continue
                if nm == "symmetric-loopless" and loops and symmetric:
                    walk_symptoms.append("self loop at node(s) %s" % loops)
                elif nm == "blocks-connected":
                    walk_symptoms.append("a block of the split is not connected inside itself")
                else:
                    kit.fail(["C10"], "generated instance: %s fails" % nm, dict(cfg=m["cfg"], op="gen-" + nm), dict(m, seed=kit.seed))
            if walk_symptoms:
                kit.fail(["C10"], WALK_WHAT % "; ".join(walk_symptoms), dict(WALK_TAG, cfg=m["cfg"]), dict(m, selfloops=loops, seed=kit.seed))
            if m.get("probe"):
                kit.res["C10"].count("walk-probe:" + ("exhibited" if walk_symptoms else "not-exhibited"))
            kit.res["C10"].count("max-degree=%d (max_degree=%d)" % (got[4], m["maxdeg"]))
            kit.res["C10"].count("distinct-edges-minus-num_edges=%d" % (got[5] - m["nedges"]))
            if got[4] > m["maxdeg"]:
                kit.fail(["C10"], "generated graph has a node of degree max_degree+1 (add_edge tests degree > max_degree before adding)",
                         dict(cfg=m["cfg"], op="gen-degree", cause="max-degree-off-by-one"), dict(m, degree=got[4], seed=kit.seed))
            if got[5] != m["nedges"]:
                kit.fail(["C10"], "generated graph has fewer distinct edges than num_edges (add_random_edges accepts (a,b) after (b,a): the Cantor code is order dependent)",
                         dict(cfg=m["cfg"], op="gen-num-edges", cause="duplicate-reversed-edge"), dict(m, distinct_edges=got[5], seed=kit.seed))
    for pid in PROPS:
        kit.res[pid].traces += len(calls)
        if not kit.res[pid].samples and metas:
            kit.res[pid].samples.append(dict(env=NAME, example={k: v for k, v in metas[min(5, len(metas) - 1)][3].items() if k != "state"}))
