"""MultiCVRP: correspondence with coq/Model/MultiCvrp.v + verified checkers on implementation states.

Numbers.  demands, capacities, positions, order, step_count and the action mask are int16/bool: compared EXACTLY.
Floats are sent as exact integers (never rounded; integrality is asserted): times / distances / window bounds x 2^46,
penalty coefficients x 2^50, penalties and rewards x 2^96 (two 50-bit limbs on the wire).  The Euclidean distance is an
ORACLE TABLE: the (n+1)^2 pairwise float32 distances computed with the implementation's own `compute_distance`.
 - successor state (int fields), mask, step type, discount: exact, for every transition
 - float32 state fields (local_times, distances, time_penalties) and the ordinary dense / sparse reward: the model rounds
   every float operation like binary32 (rne24): compared exactly; a few-ulp tolerance is allowed for a differently ordered
   sum / fused operation and the number of non-bit-exact comparisons is reported
 - the reward paid at the step limit (utils.worst_case_remaining_reward: mean + sums in unspecified order) is modelled in
   exact arithmetic and compared with a relative tolerance of 2e-5
 - the table itself is validated against a float64 recomputation from the coordinates.
"""
import numpy as np

from harness import envkit

NAME = "multi_cvrp"
PROPS = ["C01", "C03", "C04", "C05", "C06", "C08", "C09", "C10", "C11", "C12"]
APPLIES = PROPS
KT, KC = 46, 50
KP = KT + KC
LIMB = 1 << 50
OOS = lambda n: [n + 2, n + 5, -1, -2, -(n + 1), -(n + 2), 32767]


def qx(x, k):
    """exact integer codes x * 2^k of float(s); raises when a value is off the grid (never rounds)"""
    out = []
    for v in np.asarray(x, np.float64).reshape(-1):
        num, den = float(v).as_integer_ratio()
        w = num << k
        if w % den:
            raise ValueError("value %r is not a multiple of 2^-%d" % (v, k))
        out.append(w // den)
    return out


def limbs(vals):
    out = []
    for v in vals:
        out += [v >> 50, v & (LIMB - 1)]
    return out


def il(x):
    return [int(v) for v in np.asarray(x).reshape(-1)]


class Gen:
    """UniformRandomGenerator with hand-set sizes (the shipped constructor only knows 6/20/50/100/150 customers)"""

    @staticmethod
    def make(n, V, map_max=10, mc=20, maxd=10, msw=10.0, early=(0.0, 0.2), late=(0.0, 1.0), wl=20):
        from jumanji.environments.routing.multi_cvrp import generator as G
        g = G.UniformRandomGenerator.__new__(G.UniformRandomGenerator)
        g._num_customers, g._num_vehicles = n, V
        g._time_window_length = wl
        g._map_max, g._max_capacity, g._max_start_window = map_max, mc, msw
        g._early_coef_rand, g._late_coef_rand, g._customer_demand_max = early, late, maxd
        g._max_end_window = msw + wl
        return g


def private_configs(tier):
    from jumanji.environments import MultiCVRP
    from jumanji.environments.routing.multi_cvrp import generator as G, reward as RW
    q = tier == "quick"
    C = []

    def add(label, make, steps, batch=None):
        C.append(dict(env=NAME, label=label, make=make, steps=steps, batch=batch or (6 if q else 16), time_limit=None, tags={}))
    add("v2c6-sparse", lambda: MultiCVRP(generator=G.UniformRandomGenerator(num_vehicles=2, num_customers=6), reward_fn=RW.SparseReward(2, 6, 10)), 14)
    add("tiny-n1v1", lambda: MultiCVRP(generator=Gen.make(1, 1, mc=3, maxd=3)), 4)
    add("tiny-n2v3", lambda: MultiCVRP(generator=Gen.make(2, 3, mc=4, maxd=4), reward_fn=RW.SparseReward(3, 2, 10)), 6)
    if not q:
        add("tight-n4v2", lambda: MultiCVRP(generator=Gen.make(4, 2, mc=5, maxd=5, map_max=3)), 10)
        add("v5c50", lambda: MultiCVRP(generator=G.UniformRandomGenerator(num_vehicles=5, num_customers=50)), 104, batch=4)
        add("v3c20-sparse", lambda: MultiCVRP(generator=G.UniformRandomGenerator(num_vehicles=3, num_customers=20), reward_fn=RW.SparseReward(3, 20, 10)), 44)
    return C


class St:
    """a MultiCVRP state as numpy values"""
    __slots__ = ("coords", "dem", "ws", "we", "ce", "cl", "pos", "cap", "lt", "vd", "vp", "order", "sc", "mask", "n", "V", "meta", "d0", "_enc")

    def __init__(self, s, meta, d0=None):
        self.coords = np.asarray(s.nodes.coordinates, np.float32)
        self.dem = np.asarray(s.nodes.demands, np.int16)
        self.ws, self.we = np.asarray(s.windows.start, np.float32), np.asarray(s.windows.end, np.float32)
        self.ce, self.cl = np.asarray(s.coeffs.early, np.float32), np.asarray(s.coeffs.late, np.float32)
        self.pos = np.asarray(s.vehicles.positions, np.int16)
        self.cap = np.asarray(s.vehicles.capacities, np.int16)
        self.lt = np.asarray(s.vehicles.local_times, np.float32)
        self.vd = np.asarray(s.vehicles.distances, np.float32)
        self.vp = np.asarray(s.vehicles.time_penalties, np.float32)
        self.order = np.asarray(s.order, np.int16)
        self.sc = int(s.step_count)
        self.mask = np.asarray(s.action_mask, bool)
        self.n, self.V = len(self.dem) - 1, len(self.pos)
        self.meta = meta
        self.d0 = d0
        self._enc = None

    def enc(self):
        if self._enc is None:
            self._enc = (il(self.dem) + qx(self.ws, KT) + qx(self.we, KT) + qx(self.ce, KC) + qx(self.cl, KC) + il(self.pos) + il(self.cap)
                         + qx(self.lt, KT) + qx(self.vd, KT) + limbs(qx(self.vp, KP)) + il(self.order) + [self.sc] + il(self.mask))
        return self._enc

    def legal(self, v, a):  # the rules, stated independently in Python
        return a == 0 or (1 <= a <= self.n and int(self.dem[a]) > 0 and int(self.dem[a]) <= int(self.cap[v]))

    def key(self):
        m = self.meta
        return (m.get("src"), m.get("p"), m.get("b"), m.get("ep"), m.get("t"), m.get("v"))

    def brief(self):
        return dict(demands=il(self.dem), positions=il(self.pos), capacities=il(self.cap), step_count=self.sc,
                    coordinates=self.coords.tolist(), local_times=self.lt.tolist(), distances=self.vd.tolist(),
                    time_penalties=self.vp.tolist(), windows_start=self.ws.tolist(), windows_end=self.we.tolist(),
                    coeffs_early=self.ce.tolist(), coeffs_late=self.cl.tolist(), order=self.order.tolist())


def layout(n, V):
    N = n + 1
    return [("demands", N), ("windows.start", N), ("windows.end", N), ("coeffs.early", N), ("coeffs.late", N), ("positions", V),
            ("capacities", V), ("local_times", V), ("distances", V), ("time_penalties", 2 * V), ("order", V * 2 * n), ("step_count", 1),
            ("action_mask", V * N), ("obs.vehicle_coordinates", V), ("step_type", 1), ("reward", 2), ("discount", 1)]


FLOAT_FIELDS = {"local_times": KT, "distances": KT, "time_penalties": KP, "reward": KP, "windows.end": KT}


def obs_ok(s2, o):
    """copied observation fields (C12) - everything except the gathered vehicle coordinates"""
    return (np.array_equal(o.nodes.coordinates, s2.nodes.coordinates) and np.array_equal(o.nodes.demands, s2.nodes.demands)
            and np.array_equal(o.windows.start, s2.windows.start) and np.array_equal(o.windows.end, s2.windows.end)
            and np.array_equal(o.coeffs.early, s2.coeffs.early) and np.array_equal(o.coeffs.late, s2.coeffs.late)
            and np.array_equal(o.vehicles.local_times, s2.vehicles.local_times) and np.array_equal(o.vehicles.capacities, s2.vehicles.capacities)
            and np.array_equal(o.action_mask, s2.action_mask))


def enc_out(s2, ts):
    c = St(s2, {})
    o = ts.observation
    N = c.n + 1
    idx = []
    for v in range(c.V):                       # coordinates[positions]: negative wraps once, then clamps
        p = int(c.pos[v])
        j = min(max(p + N if p < 0 else p, 0), N - 1)
        idx.append(j if np.array_equal(np.asarray(o.vehicles.coordinates)[v], c.coords[j]) else -999)
    return c.enc() + idx + [int(ts.step_type)] + limbs(qx(ts.reward, KP)) + [int(round(float(ts.discount)))]


_JIT = {}


def _fns(env):
    import jax
    if id(env) not in _JIT:
        _JIT[id(env)] = (jax.jit(jax.vmap(env.step)), jax.jit(env.step), jax.jit(jax.vmap(env.reset)), env)
    return _JIT[id(env)]


def _stack(states):
    import jax
    import jax.numpy as jnp
    return jax.tree_util.tree_map(lambda *xs: jnp.asarray(np.stack([np.asarray(x) for x in xs])), *states)


def step_many(env, pairs):
    """the REAL env.step (jit+vmap) on given states: pairs [(jumanji State (numpy), action array)] -> [(state', timestep)]"""
    import jax
    import jax.numpy as jnp
    out = []
    CH = 512
    for i in range(0, len(pairs), CH):
        ch = pairs[i:i + CH]
        pad = ch + [ch[-1]] * (CH - len(ch))          # one batch size -> one compilation per env
        S = _stack([s for s, _ in pad])
        A = jnp.asarray(np.asarray([a for _, a in pad], np.int32).astype(np.int16))
        s2, ts = _fns(env)[0](S, A)
        s2, ts = jax.tree_util.tree_map(np.asarray, (s2, ts.replace(extras={})))
        for j in range(len(ch)):
            out.append((envkit.R.slice_tree(s2, j), envkit.R.slice_tree(ts, j)))
    return out


_PW = {}


def table_of(coords):
    """the implementation's own float32 distances (utils.compute_distance under jit) between all node pairs"""
    import jax
    import jax.numpy as jnp
    from jumanji.environments.routing.multi_cvrp import utils as U
    N = len(coords)
    if N not in _PW:
        _PW[N] = jax.jit(jax.vmap(lambda c, cs: U.compute_distance(jnp.broadcast_to(c, cs.shape), cs), (0, None)))
    c = jnp.asarray(np.asarray(coords, np.float32))
    D = np.asarray(_PW[N](c, c))
    return qx(D, KT), D


def join(hi, lo):
    return hi * LIMB + lo


def analyze(kit):
    import jax
    import jax.numpy as jnp
    from jumanji.environments import MultiCVRP
    from jumanji.environments.routing.multi_cvrp import reward as RW
    quick = kit.tier == "quick"
    res = kit.res
    calls, metas = [], []
    tabs = {}
    notes = set()

    def tab_for(coords):
        k = np.asarray(coords, np.float32).tobytes()
        if k not in tabs:
            t, D = table_of(coords)
            c64 = np.asarray(coords, np.float64)
            D64 = np.sqrt(((c64[:, None, :] - c64[None, :, :]) ** 2).sum(-1))
            res["C08"].count("distance-table-validated-against-float64")
            if np.abs(D64 - D).max() > 1e-5:
                kit.fail(["C08"], "implementation's pairwise float32 distances differ from the float64 Euclidean distance", dict(op="table-f64"),
                         dict(coords=np.asarray(coords).tolist(), err=float(np.abs(D64 - D).max())))
            tabs[k] = t
        return tabs[k]

    for cfg in [dict(c, private=False) for c in kit.configs()] + [dict(c, private=True) for c in private_configs(kit.tier)]:
        label = cfg["label"]
        private = cfg["private"]
        env = cfg["make"]() if private else kit.env(cfg)
        g = env._generator
        n, V, mc, maxd = int(g._num_customers), int(g._num_vehicles), int(g._max_capacity), int(g._customer_demand_max)
        N = n + 1
        wl, msw, mew, mapmax = float(g._time_window_length), float(g._max_start_window), float(g._max_end_window), float(g._map_max)
        sparse_cfg = int(isinstance(env._reward_fn, RW.SparseReward))
        envs = {0: env if not sparse_cfg else MultiCVRP(generator=g, reward_fn=RW.DenseReward(V, n, g._map_max)),
                1: env if sparse_cfg else MultiCVRP(generator=g, reward_fn=RW.SparseReward(V, n, g._map_max))}
        spec = env.action_spec
        amin, amax = int(np.asarray(spec.minimum)), int(np.asarray(spec.maximum))
        base = [n, V]
        # C01: the real action spec against the model's (maximum = num_customers: every in-spec value is a node / mask column)
        gv = il(spec.generate_value())
        calls.append(("multi_cvrp_spec_io", base + gv))
        metas.append(("spec", dict(cfg=label, n=n, V=V, spec_min=amin, spec_max=amax, shape=list(spec.shape), dtype=str(np.dtype(spec.dtype)),
                                   generate_value=gv, mask_columns=int(env.observation_spec["action_mask"].shape[1])), None, None))

        def submit(items, tag):
            """items: [(St, raw state, [joint actions])]; every (state, action) through the real dense and sparse env and the model"""
            for sp in (0, 1):
                pairs = [(raw, a) for (c, raw, acts) in items for a in acts]
                if not pairs:
                    continue
                outs = step_many(envs[sp], pairs)
                i = 0
                for (c, raw, acts) in items:
                    o = outs[i:i + len(acts)]
                    i += len(acts)
                    tab = tab_for(c.coords)
                    calls.append(("multi_cvrp_step_io", base + [1, sp, mc] + tab + c.enc() + [len(acts)] + [int(x) for a in acts for x in a]))
                    metas.append(("step", dict(c.meta, cfg=label, sparse=sp, n=n, V=V, mc=mc, tag=tag), None, (c, acts, o)))
                    if sp == 0:
                        calls.append(("multi_cvrp_rules_io", base + c.enc() + [len(acts)] + [int(x) for a in acts for x in a]))
                        metas.append(("rules", dict(c.meta, cfg=label, n=n, V=V, tag=tag), None, (c, acts, o)))
            return None

        def submit_check(c, d0, **extra):
            tol = 1 << (KT - 23 + max(0, int(np.ceil(np.log2(max(mew, 1.0))))))
            calls.append(("multi_cvrp_check_io", base + [mc, maxd, qx(wl, KT)[0], qx(np.float32(mew), KT)[0], tol] + il(d0) + c.enc() + tab_for(c.coords)))
            metas.append(("check", dict(c.meta, cfg=label, n=n, V=V, mc=mc, maxd=maxd, **extra), None, c))

        # ------------------------------------------------------------ episodes: rollouts + scripted ones
        episodes = []   # dict(meta, steps=[(St, raw, a, s2, ts2)], s0, ts0, key)
        if not private:
            for p in (0.0, 0.35):
                _, st, ts, ac, fl, k0 = kit.roll(cfg, p)
                B, T = ac.shape[:2]
                for b in range(B):
                    end = min(T, fl[b])
                    s0, ts0 = envkit.R.slice_tree(st, b, 0), envkit.R.slice_tree(ts, b, 0)
                    steps = []
                    for t in range(end):
                        raw = envkit.R.slice_tree(st, b, t)
                        steps.append((St(raw, dict(src="rollout", p=p, b=b, t=t)), raw, il(ac[b, t]), envkit.R.slice_tree(st, b, t + 1),
                                      envkit.R.slice_tree(ts, b, t + 1)))
                    episodes.append(dict(meta=dict(src="rollout", p=p, b=b), steps=steps, s0=s0, ts0=ts0, key=np.asarray(k0[b]), ended=bool(fl[b] <= T)))
        # scripted episodes on the real (dense) env, single jitted steps
        stp, rst = _fns(envs[0])[1], _fns(envs[0])[2]
        kinds = ["greedy", "collide", "idle-then-greedy", "served-not-home", "zigzag"]
        if private:    # no compiled scan rollout for the private configurations: random policies through the single jitted step
            kinds += ["random-masked", "random-35"] * (4 if quick else 10)
        nscript = len(kinds) * (1 if quick else 3)
        skeys = jax.random.split(jax.random.PRNGKey(kit.seed + 77), nscript)
        s0s, ts0s = jax.tree_util.tree_map(np.asarray, rst(skeys))

        def play(s0, ts0, policy, meta):
            cur, curts, steps = s0, ts0, []
            for t in range(2 * n + 2):
                c = St(cur, dict(meta, t=t))
                a = policy(c, t)
                s2, ts2 = jax.tree_util.tree_map(np.asarray, stp(jax.tree_util.tree_map(jnp.asarray, cur), jnp.asarray(np.asarray(a, np.int16))))
                ts2 = ts2.replace(extras={})
                steps.append((c, cur, list(a), s2, ts2))
                cur, curts = s2, ts2
                if int(ts2.step_type) == 2:
                    break
            return steps

        def greedy(c, t, spread=True):
            a, taken = [], set()
            for v in range(c.V):
                cand = [i for i in range(1, c.n + 1) if c.mask[v][i] and (not spread or i not in taken)]
                a.append(cand[0] if cand else 0)
                taken.add(a[-1])
            return a

        for e in range(nscript):
            kind = kinds[e % len(kinds)]
            s0, ts0 = envkit.R.slice_tree(s0s, e), envkit.R.slice_tree(ts0s, e)
            meta = dict(src="script-" + kind, ep=e)
            if kind == "greedy":
                steps = play(s0, ts0, greedy, meta)
            elif kind == "collide":      # every vehicle asks for the same customer: only one may serve it
                steps = play(s0, ts0, lambda c, t: greedy(c, t, spread=False), meta)
            elif kind in ("random-masked", "random-35"):
                def rnd_policy(c, t, uni=(kind == "random-35")):
                    a = []
                    for v in range(c.V):
                        if uni and kit.rng.random() < 0.35:
                            a.append(int(kit.rng.integers(amin, amax + 1)))
                        else:
                            a.append(int(kit.rng.choice(np.where(c.mask[v])[0])))
                    return a
                steps = play(s0, ts0, rnd_policy, meta)
            elif kind == "zigzag":       # vehicle 0 alone: customer, depot, customer, depot ... (the longest legal schedule)
                steps = play(s0, ts0, lambda c, t: [(greedy(c, t)[0] if int(c.pos[0]) == 0 else 0)] + [0] * (c.V - 1), meta)
            else:
                # vehicle 0 serves everything after idling so that the last customer (served-not-home) / the return to the
                # depot (idle-then-greedy) happens exactly on step 2n, the last one the environment allows
                solo = lambda c, t: [greedy(c, t)[0]] + [0] * (c.V - 1)
                L = len(play(s0, ts0, solo, meta))
                idle = 2 * n - L + (1 if kind == "served-not-home" else 0)
                if idle < 0:
                    steps = play(s0, ts0, solo, meta)
                else:
                    steps = play(s0, ts0, lambda c, t: [0] * c.V if t < idle else solo(c, t - idle), meta)
            episodes.append(dict(meta=meta, steps=steps, s0=s0, ts0=ts0, key=np.asarray(skeys[e]), ended=int(steps[-1][4].step_type) == 2))

        # ------------------------------------------------------------ per episode
        items, sweep_pool = [], []
        for ep in episodes:
            s0 = ep["s0"]
            d0 = np.asarray(s0.nodes.demands)
            inspec_all, range_all = True, True
            ep["d0"] = d0
            for (c, raw, a, s2, ts2) in ep["steps"]:
                c.d0 = d0
                items.append((c, raw, [a]))
                sweep_pool.append((c, raw))
                in_range = all(0 <= x <= n for x in a)
                if range_all:
                    submit_check(c, d0, final=False)
                range_all = range_all and in_range
                inspec_all = inspec_all and all(amin <= x <= amax for x in a)
                o = ts2.observation
                res["C12"].evaluations += 1
                res["C12"].distinct.add((label,) + c.key())
                if not obs_ok(s2, o):
                    kit.fail(["C12"], "observation field is not a copy of the state field", dict(cfg=label, op="obs-copy"), dict(c.meta, seed=kit.seed))
                if not (np.array_equal(s2.nodes.coordinates, c.coords) and np.array_equal(s2.windows.start, c.ws) and np.array_equal(s2.windows.end, c.we)
                        and np.array_equal(s2.coeffs.early, c.ce) and np.array_equal(s2.coeffs.late, c.cl)):
                    kit.fail(["C09", "C05"], "step changed the problem instance (coordinates/windows/coefficients)", dict(cfg=label, op="instance-const"),
                             dict(c.meta, seed=kit.seed))
            ep["range_all"] = range_all
            if ep["ended"] and ep["steps"]:
                c, raw, a, s2, ts2 = ep["steps"][-1]
                fin = St(s2, dict(ep["meta"], src="final", t=len(ep["steps"])), d0)
                ep["final"] = fin
                L = len(ep["steps"])
                res["C11"].evaluations += 1
                res["C11"].distinct.add((label,) + tuple(sorted((k, str(v)) for k, v in ep["meta"].items())))
                done_complete = int(np.asarray(s2.nodes.demands).sum()) == 0 and bool((np.asarray(s2.vehicles.positions) == 0).all())
                res["C11"].count("episode-length:%s/%s" % ("=2n" if L == 2 * n else "<2n" if L < 2 * n else ">2n", "complete" if done_complete else "limit"))
                if L > 2 * n:
                    kit.fail(["C11"], "episode longer than 2*num_customers steps", dict(cfg=label, op="horizon"), dict(ep["meta"], steps=L, seed=kit.seed))
                if L < 2 * n and not done_complete:
                    kit.fail(["C11", "C06"], "episode ended before the step limit although not (all demand served and all vehicles at the depot)",
                             dict(cfg=label, op="early-end"), dict(ep["meta"], steps=L, seed=kit.seed, state=fin.brief()))
                ep["complete"], ep["L"] = done_complete, L
                if range_all:
                    submit_check(fin, d0, final=True, complete=done_complete, L=L)
            elif ep["steps"] and len(ep["steps"]) >= 2 * n:
                kit.fail(["C11"], "episode still running after 2*num_customers steps", dict(cfg=label, op="horizon"), dict(ep["meta"], seed=kit.seed))
        # the executed transitions replayed on the dense AND sparse twin + model
        submit(items, "episode")

        # ------------------------------------------------------------ returns (C08), from the replays done by `submit`
        ep_index = {}
        k = 0
        for ep in episodes:
            ep_index[id(ep)] = (k, k + len(ep["steps"]))
            k += len(ep["steps"])
        cfg_eps = (label, episodes, ep_index, len(items))
        metas.append(("episodes", dict(cfg=label, n=n, V=V), None, cfg_eps))
        calls.append(("multi_cvrp_rne_io", [0]))

        # ------------------------------------------------------------ per-vehicle sweep: EVERY node index (in-spec and not) for one
        # vehicle while the others go to the depot: the mask judged by the environment's own reaction
        npick = 12 if quick else 80
        if n > 10:
            npick = npick // 2
        pick = sweep_pool if len(sweep_pool) <= npick else [sweep_pool[i] for i in kit.rng.choice(len(sweep_pool), npick, replace=False)]
        sw = []
        for (c, raw) in pick:
            acts = []
            for v in range(V):
                for a in list(range(0, n + 2)) + OOS(n):
                    ja = [0] * V
                    ja[v] = a
                    acts.append(ja)
            c2 = St(raw, dict(c.meta, v="solo-sweep"), c.d0)
            sw.append((c2, raw, acts))
        submit(sw, "solo-sweep")
        # ------------------------------------------------------------ EVERY joint action of the (n+2)^V action space on small configs,
        # random joint actions (incl. out-of-spec indices) on the others
        jw = []
        njoint = (6 if quick else 30) if (n + 2) ** V <= 600 else (10 if quick else 40)
        pick2 = pick if len(pick) <= njoint else [pick[i] for i in kit.rng.choice(len(pick), njoint, replace=False)]
        for (c, raw) in pick2:
            if (n + 2) ** V <= 600:
                acts = [list(x) for x in np.ndindex(*([n + 2] * V))]
            else:
                acts = [[int(x) for x in kit.rng.integers(0, n + 2, V)] for _ in range(30)]
                acts += [[int(kit.rng.choice(list(range(n + 2)) + OOS(n))) for _ in range(V)] for _ in range(10)]
            jw.append((St(raw, dict(c.meta, v="joint-sweep"), c.d0), raw, acts))
        submit(jw, "joint-sweep")
        # ------------------------------------------------------------ boundary states built from visited ones
        bnd = []

        def np_mask(dem, cap):
            mk = (cap[:, None] >= dem[None, :]) & (dem[None, :] > 0)
            mk[:, 0] = True
            return mk
        for i in kit.rng.choice(len(sweep_pool), min(len(sweep_pool), 6 if quick else 30), replace=False):
            c, raw = sweep_pool[int(i)]
            live = [j for j in range(1, N) if int(c.dem[j]) > 0]
            variants = [("step_count==2n", dict(sc=2 * n)), ("step_count==2n-1", dict(sc=2 * n - 1))]
            if live:
                j = int(kit.rng.choice(live))
                variants += [("cap==demand", dict(cap=int(c.dem[j]))), ("cap==demand-1", dict(cap=int(c.dem[j]) - 1)), ("cap==0", dict(cap=0))]
            for name, ch in variants:
                cap = np.asarray(raw.vehicles.capacities).copy()
                if "cap" in ch:
                    cap[int(kit.rng.integers(V))] = ch["cap"]
                veh = raw.vehicles.replace(capacities=cap)
                r2 = raw.replace(vehicles=veh, step_count=np.asarray(ch.get("sc", c.sc), np.int16),
                                 action_mask=np_mask(c.dem, cap))
                c2 = St(r2, dict(c.meta, v=name), c.d0)
                res["C04"].count("boundary:" + name)
                acts = [[int(x) for x in kit.rng.integers(0, n + 1, V)] for _ in range(4)] + [[0] * V]
                if live:
                    acts.append([live[0]] * V)
                bnd.append((c2, r2, acts))
        submit(bnd, "boundary")

        # ------------------------------------------------------------ C10: reset keys -> draws recovered by mirroring the key splits
        nk = 16 if quick else 96
        keys = jax.random.split(jax.random.PRNGKey(kit.seed + 4242), nk)
        rs0, rts0 = jax.tree_util.tree_map(np.asarray, _fns(envs[0])[2](keys))
        gen_list = [(np.asarray(keys[i]), envkit.R.slice_tree(rs0, i), envkit.R.slice_tree(rts0, i), dict(src="reset-keys", key=i)) for i in range(nk)]
        gen_list += [(ep["key"], ep["s0"], ep["ts0"], dict(ep["meta"])) for ep in episodes]
        seen = set()
        for (key, s0, ts0, m) in gen_list:
            pk, rest = jax.random.split(jnp.asarray(key))
            ck, dk, wk, ek, lk = jax.random.split(pk, 5)
            r = il(jax.random.randint(dk, (N,), minval=0, maxval=maxd))
            ws = np.asarray(jax.random.uniform(wk, (N,), minval=0, maxval=msw))
            ce = np.asarray(jax.random.uniform(ek, (N,), minval=g._early_coef_rand[0], maxval=g._early_coef_rand[1]))
            cl = np.asarray(jax.random.uniform(lk, (N,), minval=g._late_coef_rand[0], maxval=g._late_coef_rand[1]))
            co = np.asarray(jax.random.uniform(ck, (N, 2), minval=0, maxval=g._map_max))
            ok_mirror = np.array_equal(co, s0.nodes.coordinates) and np.array_equal(ws, s0.windows.start) and np.array_equal(np.asarray(rest), np.asarray(s0.key))
            calls.append(("multi_cvrp_init_io", base + [1, mc, maxd, qx(np.float32(wl), KT)[0], qx(np.float32(msw), KT)[0],
                                                      qx(np.float32(g._early_coef_rand[1]), KC)[0], qx(np.float32(g._late_coef_rand[1]), KC)[0]]
                          + r + qx(ws, KT) + qx(ce, KC) + qx(cl, KC)))
            metas.append(("init", dict(m, cfg=label, n=n, V=V, mirror=bool(ok_mirror), raw=r, mc=mc, maxd=maxd, mapmax=mapmax), enc_out(s0, ts0) + [1],
                          St(s0, dict(m))))
            seen.add((tuple(il(s0.nodes.demands)), np.asarray(s0.nodes.coordinates).tobytes()))
            dd = np.asarray(s0.nodes.demands)[1:]
            res["C10"].count("customer-demands-generated", int(dd.size))
            res["C10"].count("customer-demand==0", int((dd == 0).sum()))
            res["C10"].count("customer-demand==customer_demand_max", int((dd == maxd).sum()))
        res["C10"].count("distinct-instances/%d-resets" % len(gen_list), len(seen))
        if len(seen) < nk:
            kit.fail(["C10"], "generator does not depend on the key (repeated instance)", dict(cfg=label, op="key-dependence"),
                     dict(keys=nk, distinct=len(seen), seed=kit.seed))

    # ------------------------------------------------------------ the rounding function itself, against numpy float32
    xs = [int(x) for x in kit.rng.integers(0, 1 << 50, 300)] + [int(x) for x in kit.rng.integers(0, 1 << 26, 300)]
    xs += [(1 << 24) + d for d in range(-2, 9)] + [(1 << 25) + d for d in range(-4, 13)] + [0, 1, -5, -(1 << 25) - 2, -(1 << 25) - 6]
    calls.append(("multi_cvrp_rne_io", xs))
    metas.append(("rne", dict(), [int(np.float32(float(x))) for x in xs], None))

    # ------------------------------------------------------------------ compare
    outs = kit.model(calls)
    replay_rewards = {}     # (cfg, sparse) -> list of reward codes in `items` order (episode transitions)
    for (entry, args), (kind, m, exp, extra), got in zip(calls, metas, outs):
        if kind == "step":
            c, acts, raw = extra
            n, V = m["n"], m["V"]
            N = n + 1
            lay = layout(n, V)
            W = sum(w for _, w in lay)
            offs, o = {}, 0
            for name, w in lay:
                offs[name] = (o, w)
                o += w
            if len(got) != W * len(acts):
                kit.fail(["C09"], "model output has the wrong length", dict(cfg=m["cfg"], op="corr-step-length"), dict(m, got=len(got), want=W * len(acts)))
                continue
            for k, a in enumerate(acts):
                s2, ts2 = raw[k]
                try:
                    e = enc_out(s2, ts2)
                except ValueError as ex:
                    kit.fail(["C09"], "float field off the exact grid: %s" % ex, dict(cfg=m["cfg"], op="grid"), dict(m, action=a, state=c.brief()))
                    continue
                gk = got[k * W:(k + 1) * W]
                if m["tag"] == "episode":
                    replay_rewards.setdefault((m["cfg"], m["sparse"]), []).append(join(*e[offs["reward"][0]:offs["reward"][0] + 2]))
                inrange = all(0 <= x <= n for x in a)        # = in-spec (action_spec maximum = num_customers)
                inspec = inrange
                legal = [c.legal(v, a[v]) for v in range(V)]
                key = (m["cfg"],) + c.key() + (tuple(a), m["sparse"])
                at_limit = int(s2.step_count) > 2 * n
                # float fields: exact first, then a tolerance (counted)
                for name, K in FLOAT_FIELDS.items():
                    o0, w = offs[name]
                    if gk[o0:o0 + w] == e[o0:o0 + w]:
                        res["C08" if name == "reward" else "C09"].count("float-field-bit-exact:" + name)
                        continue
                    if K == KP:
                        gv = [join(gk[o0 + 2 * i], gk[o0 + 2 * i + 1]) for i in range(w // 2)]
                        ev = [join(e[o0 + 2 * i], e[o0 + 2 * i + 1]) for i in range(w // 2)]
                    else:
                        gv, ev = gk[o0:o0 + w], e[o0:o0 + w]
                    worst = name == "reward" and at_limit
                    okk = True
                    mag = 0
                    if name == "reward":   # a difference of float32 sums: the rounding error is relative to the sums, not to the difference
                        mag = (sum(abs(v) for v in qx(s2.vehicles.distances, KT)) << KC) + sum(abs(v) for v in qx(s2.vehicles.time_penalties, KP))
                    for x, y in zip(gv, ev):
                        scale = max(abs(y), abs(x), 1 << (K - 10), mag)
                        tol = scale * 2e-5 if worst else 8 * scale / (1 << 23)
                        okk = okk and abs(x - y) <= tol
                    res["C08" if name == "reward" else "C09"].count("float-field-within-tolerance:%s%s" % (name, ":worst-case-reward" if worst else ""))
                    if okk:
                        gk[o0:o0 + w] = e[o0:o0 + w]
                bad = envkit.diff_fields(lay, gk, e)
                for pid in ("C09", "C04", "C12", "C03"):
                    res[pid].evaluations += 1
                res["C09"].distinct.add(key)
                res["C03"].distinct.add(key)
                res["C03"].count("step_type:%d/discount:%d" % (int(ts2.step_type), int(round(float(ts2.discount)))))
                if int(ts2.step_type) not in (1, 2) or float(ts2.discount) != (1.0 if int(ts2.step_type) == 1 else 0.0):
                    kit.fail(["C03"], "step returned neither MID/discount 1 nor LAST/discount 0", dict(cfg=m["cfg"], op="protocol"),
                             dict(m, action=a, step_type=int(ts2.step_type), discount=float(ts2.discount), seed=kit.seed))
                res["C09"].count("steps:%s" % ("in-spec" if inrange else "out-of-spec-probe:n+1" if all(0 <= x <= n + 1 for x in a) else "out-of-spec-probe:other"))
                if inrange and not all(legal):
                    res["C05"].evaluations += 1
                    res["C05"].distinct.add(key)
                    for v in range(V):
                        if not legal[v]:
                            res["C05"].count("illegal:%s" % ("no-demand-left" if int(c.dem[a[v]]) == 0 else "demand>capacity"))
                            # documented reaction (env.py comment): the vehicle is sent back to the depot, nothing is served for it
                            if int(s2.vehicles.positions[v]) != 0 or int(s2.vehicles.capacities[v]) != m["mc"] or int(s2.nodes.demands[a[v]]) != int(c.dem[a[v]]) * (0 if a[v] in [a[u] for u in range(V) if legal[u]] else 1):
                                kit.fail(["C05"], "illegal node: the vehicle is not simply sent to the depot (refilled, nothing served for it)",
                                         dict(cfg=m["cfg"], op="illegal-effect"), dict(m, action=a, vehicle=v, state=c.brief(), seed=kit.seed))
                    if int(ts2.step_type) == 2 and not (at_limit or (int(np.asarray(s2.nodes.demands).sum()) == 0 and (np.asarray(s2.vehicles.positions) == 0).all())):
                        kit.fail(["C05"], "illegal node ended the episode", dict(cfg=m["cfg"], op="illegal-ends"), dict(m, action=a, state=c.brief(), seed=kit.seed))
                if m["tag"] == "solo-sweep" and m["sparse"] == 0:
                    v = [i for i in range(V) if a[i] != 0]
                    v = v[0] if v else 0
                    av = a[v]
                    if 0 <= av <= n:
                        # C04 judged by the environment's own reaction: mask[v][a] <=> vehicle v really goes to a and serves it
                        went = int(s2.vehicles.positions[v]) == av and (av == 0 or (int(s2.nodes.demands[av]) == 0 and int(s2.vehicles.capacities[v]) == int(c.cap[v]) - int(c.dem[av])))
                        res["C04"].distinct.add(key[:-1])
                        res["C04"].count("mask:%d/env-accepts:%d" % (int(c.mask[v][av]), int(went)))
                        if bool(c.mask[v][av]) != went or bool(c.mask[v][av]) != c.legal(v, av):
                            kit.fail(["C04"], "mask entry disagrees with the environment's reaction / the rules", dict(cfg=m["cfg"], op="mask-vs-reaction"),
                                     dict(m, action=a, vehicle=v, state=c.brief(), mask=il(c.mask[v]), accepted=went, legal=c.legal(v, av), seed=kit.seed))
                    elif av == n + 1:
                        # OUT-of-spec probe (the spec maximum is num_customers): model vs implementation only, no property judged
                        res["C09"].count("out-of-spec-probe:n+1:%s" % ("phantom-node-visit" if int(s2.vehicles.positions[v]) == n + 1 else "sent-to-depot"))
                if bad:
                    pids = {"C09"}
                    if "action_mask" in bad:
                        pids |= {"C04", "C12"}
                    if any(b.startswith("obs.") for b in bad):
                        pids.add("C12")
                    if inrange and not all(legal):
                        pids.add("C05")
                    if "reward" in bad:
                        pids.add("C08")
                    if "capacities" in bad or "demands" in bad or "positions" in bad:
                        pids.add("C06")
                    if "step_type" in bad or "discount" in bad or "step_count" in bad:
                        pids |= {"C03", "C11"}
                    kit.fail(sorted(pids), "model and implementation disagree on step (fields %s)" % ",".join(bad),
                             dict(cfg=m["cfg"], op="corr-step", fields=",".join(bad)),
                             dict(m, action=a, state=c.brief(), model_out=gk[:60], impl=e[:60], seed=kit.seed))
        elif kind == "spec":
            res["C01"].evaluations += 1
            res["C01"].distinct.add((m["cfg"], "action-spec"))
            res["C01"].count("action-spec-compared-with-model")
            if (m["spec_max"] != got[0] or m["spec_max"] != m["n"] or m["spec_min"] != 0 or m["shape"] != [m["V"]] or m["dtype"] != "int16"
                    or m["mask_columns"] != got[0] + 1):
                kit.fail(["C01", "C04"], "action_spec is not BoundedArray(shape (num_vehicles,), int16, 0, num_customers): an in-spec value would not be a node "
                         "0..num_customers / a mask column (num_customers+1 is executed as a visit to a node that does not exist: clamped gathers, dropped scatter)",
                         dict(op="action-spec-max"), dict(m, model_max=got[0], seed=kit.seed))
            if got[1] != 1:
                kit.fail(["C01"], "action_spec.generate_value() is not an in-spec joint action (verified in_spec_b)", dict(cfg=m["cfg"], op="generate-value"),
                         dict(m, seed=kit.seed))
        elif kind == "rules":
            c, acts, raw = extra
            n, V = m["n"], m["V"]
            for k, a in enumerate(acts):
                if not all(0 <= x <= n for x in a):
                    continue
                res["C09"].evaluations += 1
                res["C09"].count("rules-compared")
                nxt = got[k * V:(k + 1) * V]
                if nxt != il(raw[k][0].vehicles.positions):
                    kit.fail(["C09", "C06"], "published rules (illegal -> depot; first vehicle wins a contested customer) disagree with the implementation",
                             dict(cfg=m["cfg"], op="rules"), dict(m, action=a, state=c.brief(), rules=nxt, impl=il(raw[k][0].vehicles.positions), seed=kit.seed))
                dup = [x for x in a if x != 0 and a.count(x) > 1 and c.legal(a.index(x), x)]
                if dup:
                    res["C06"].count("contested-customer-steps")
                    x = dup[0]
                    servers = [v for v in range(V) if int(raw[k][0].vehicles.positions[v]) == x]
                    if len(servers) != 1:
                        kit.fail(["C06"], "a customer chosen by several vehicles in one step is not served by exactly one of them", dict(cfg=m["cfg"], op="contest"),
                                 dict(m, action=a, state=c.brief(), servers=servers, seed=kit.seed))
        elif kind == "init":
            c = extra
            n, V = m["n"], m["V"]
            lay = layout(n, V) + [("valid_draw", 1)]
            offs, o = {}, 0
            for name, w in lay:
                offs[name] = (o, w)
                o += w
            gk = list(got)
            o0, w = offs["demands"]
            S = sum(m["raw"][1:])
            for i in range(w):     # int16(float32 product): an exact integer quotient may land one below
                if gk[o0 + i] != exp[o0 + i] and S and (m["raw"][i] * m["mc"] * V) % S == 0 and abs(gk[o0 + i] - exp[o0 + i]) == 1 and i > 0:
                    res["C10"].count("demand-quotient-integral:float32-product-one-below")
                    gk[o0 + i] = exp[o0 + i]
                    mo, mw = offs["action_mask"]
                    gk[mo:mo + mw] = exp[mo:mo + mw]
            bad = envkit.diff_fields(lay, gk, exp)
            res["C10"].evaluations += 1
            res["C10"].distinct.add((m["cfg"], m.get("src"), m.get("p"), m.get("b"), m.get("ep"), m.get("key")))
            if not m["mirror"]:
                kit.fail(["C10"], "could not mirror the generator's key splits (coordinates / window draws differ)", dict(cfg=m["cfg"], op="mirror"), dict(m, seed=kit.seed))
            if bad:
                kit.fail(["C10"], "reset state is not init(draws) (fields %s)" % ",".join(bad),
                         dict(cfg=m["cfg"], op="corr-init", fields=",".join(bad)), dict(m, model=gk[:40], impl=exp[:40], seed=kit.seed))
            co = c.coords
            if not ((co >= 0).all() and (co <= m["mapmax"]).all()):
                kit.fail(["C10"], "node coordinates outside the declared box [0, map_max]", dict(cfg=m["cfg"], op="coords-box"), dict(m, coords=co.tolist()))
        elif kind == "check":
            c = extra
            n, V = m["n"], m["V"]
            mask_ok, feas, order_ok, inst, win, rng_ok, complete, ncust, maxload = got[:9]
            loads, rl = got[9:9 + V], got[9 + V:9 + 2 * V]
            res["C04"].evaluations += 1
            if mask_ok != 1:
                kit.fail(["C04", "C12"], "action mask is not {depot} + {customers with 0 < demand <= the vehicle's capacity} (verified checker on implementation state)",
                         dict(cfg=m["cfg"], op="mask-exact"), dict(m, state=c.brief(), mask=il(c.mask), seed=kit.seed))
            res["C01"].evaluations += 1
            res["C01"].distinct.add((m["cfg"],) + c.key())
            if rng_ok != 1:
                kit.fail(["C01"], "state outside the declared observation ranges / shapes", dict(cfg=m["cfg"], op="ranges"), dict(m, state=c.brief(), seed=kit.seed))
            res["C10"].evaluations += 1
            if inst != 1 or win != 1:
                kit.fail(["C10"], "instance not well-formed (depot demand 0, 0 <= demand <= customer_demand_max <= max_capacity, total demand <= fleet capacity; "
                         "0 <= start <= end <= max_end_window, end = start + length; no depot penalties)", dict(cfg=m["cfg"], op="instance"),
                         dict(m, state=c.brief(), instance_ok=inst, windows_ok=win, seed=kit.seed))
            res["C06"].evaluations += 1
            res["C06"].distinct.add((m["cfg"],) + c.key())
            res["C06"].count("max-load:%s" % ("==capacity" if maxload == m["mc"] else "==0" if maxload == 0 else "between"))
            if feas != 1 or maxload > m["mc"] or order_ok != 1 or any(loads[v] != m["mc"] - int(c.cap[v]) for v in range(V)):
                kit.fail(["C06"], "state violates the hard constraints (load <= capacity, capacity = max - load, no customer served twice, demand zeroed iff served)",
                         dict(cfg=m["cfg"], op="feasible"), dict(m, state=c.brief(), loads=loads, feasible=feas, order_ok=order_ok, seed=kit.seed))
            # distances driven = route length of the history (oracle sums), compared with the state's float32 accumulators
            for v in range(V):
                dv = qx(c.vd[v], KT)[0]
                if abs(dv - rl[v]) > (2 * n + 2) * max(dv, 1 << KT) / (1 << 23):
                    kit.fail(["C08"], "vehicle distance accumulator != length of the route it drove", dict(cfg=m["cfg"], op="route-length"),
                             dict(m, vehicle=v, accumulator=float(c.vd[v]), route=rl[v] / 2 ** KT, state=c.brief(), seed=kit.seed))
            res["C08"].count("route-length-vs-accumulator", V)
            if m["final"]:
                if m["complete"]:
                    res["C06"].count("completed-episodes")
                    want = sum(1 for i in range(1, n + 1) if int(c.d0[i]) > 0)
                    if complete != 1 or ncust != want:
                        kit.fail(["C06"], "episode ended by completion although some customer with demand was not served exactly once / a vehicle is away",
                                 dict(cfg=m["cfg"], op="complete"), dict(m, state=c.brief(), served=ncust, customers_with_demand=want, seed=kit.seed))
        elif kind == "episodes":
            label, episodes, ep_index, nitems = extra
            n = m["n"]
            rd, rs = replay_rewards.get((label, 0), []), replay_rewards.get((label, 1), [])
            if len(rd) != nitems or len(rs) != nitems:
                continue
            for ep in episodes:
                if not ep.get("ended") or not ep["steps"] or not ep["range_all"]:
                    continue
                i0, i1 = ep_index[id(ep)]
                dense, sparse = sum(rd[i0:i1]), sum(rs[i0:i1])
                fin = ep["final"]
                obj = -(sum(qx(fin.vd, KT)) * (1 << KC) + sum(qx(fin.vp, KP)))
                # float64 recomputation of the objective from the raw arrays along the moves actually made
                c64 = np.asarray(fin.coords, np.float64)
                f64 = 0.0
                tcur = np.zeros(fin.V)
                pcur = [0] * fin.V
                for (c, raw, a, s2, ts2) in ep["steps"]:
                    nxt = il(s2.vehicles.positions)
                    for v in range(fin.V):
                        d = float(np.sqrt(((c64[pcur[v]] - c64[nxt[v]]) ** 2).sum()))
                        tcur[v] += d
                        f64 += d
                        x = nxt[v]
                        if tcur[v] < float(fin.ws[x]):
                            f64 += (float(fin.ws[x]) - tcur[v]) * float(fin.ce[x])
                        if tcur[v] > float(fin.we[x]):
                            f64 += (tcur[v] - float(fin.we[x])) * float(fin.cl[x])
                        pcur[v] = x
                scale = float(1 << KP)
                res["C08"].evaluations += 1
                res["C08"].distinct.add((label,) + tuple(sorted((k, str(v)) for k, v in ep["meta"].items())))
                tolf = 1e-4 * max(1.0, f64)
                if abs(-obj / scale - f64) > tolf:
                    kit.fail(["C08"], "final-state accumulators (distances + time penalties) disagree with the float64 recomputation along the route",
                             dict(cfg=label, op="objective-f64"), dict(ep["meta"], f64=f64, state_objective=-obj / scale, seed=kit.seed))
                kindk = "complete-before-limit" if (ep["complete"] and ep["L"] < 2 * n) else "complete-at-limit" if ep["complete"] else \
                    "limit:all-served-not-home" if int(fin.dem.sum()) == 0 else "limit:demand-left"
                res["C08"].count("episode:" + kindk)
                tol = (2 * n + 4) * max(abs(obj), 1 << KP) / (1 << 23)
                if kindk == "complete-before-limit":
                    if abs(dense - obj) > tol or abs(sparse - obj) > tol:
                        kit.fail(["C08"], "completed episode: return != -(distance travelled + time penalties)", dict(cfg=label, op="objective"),
                                 dict(ep["meta"], dense=dense / scale, sparse_ret=sparse / scale, objective=obj / scale, seed=kit.seed))
                    res["C08"].count("dense==sparse==objective (completed before the limit)")
                else:
                    travelled = -obj / scale
                    if abs(dense - sparse) > tol and travelled > 0:
                        kit.fail(["C08"], "episode ending on the step limit (step 2*num_customers): dense and sparse returns differ on the same legal trajectory; "
                                 "the limit reward is worst_case_REMAINING_reward only, so the sparse return forgets everything already driven "
                                 "(it is 0 - the best possible return - when all customers are served by then, e.g. a tour completed exactly on the last step) "
                                 "and the dense return drops the last leg", dict(op="limit-reward"),
                                 dict(ep["meta"], cfg=label, kind=kindk, dense=dense / scale, sparse_ret=sparse / scale, objective=obj / scale, steps=ep["L"],
                                      actions=[a for (_, _, a, _, _) in ep["steps"]], reset_key=il(ep["key"]), seed=kit.seed))
        elif kind == "rne":
            res["C09"].evaluations += 1
            if got != exp:
                badx = [(x, g, e) for x, g, e in zip(args, got, exp) if g != e][:3]
                kit.fail(["C09"], "model rounding rne24 differs from numpy float32 rounding", dict(op="rne24"), dict(examples=badx))
    tot = res["C10"].dist.get("customer-demands-generated", 0)
    z = res["C10"].dist.get("customer-demand==0", 0)
    if tot and z:
        res["C10"].notes.append("note (not a failure): docs/environments/multi_cvrp.md says every customer demand is sampled between 1 and the maximum demand; "
                                "utils.generate_uniform_random_problem draws randint(0, customer_demand_max) and rescales with truncation: %d of %d generated "
                                "customers have demand 0 (they are masked out from the start and never need a visit). 'demands <= capacity' holds." % (z, tot))
    res["C10"].notes.append("note: Generator.__init__(manual_settings=True) never sets _time_window_length and raises AttributeError on its last line; "
                            "only the paper's sizes 6/20/50/100/150 can be built through the shipped constructor.")
    for pid in PROPS:
        res[pid].traces += len(calls)
        if not res[pid].samples:
            res[pid].samples.append(dict(env=NAME, example={k: v for k, v in metas[min(5, len(metas) - 1)][1].items() if k not in ("state", "raw")}))
