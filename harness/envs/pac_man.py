"""PacMan: correspondence with coq/Model/PacMan.v + verified checkers on implementation states.

- every rollout transition and EVERY action (0..4) from visited states and from directly constructed boundary states
  (tunnel mouths, rows 28/29, next to power-ups, ghosts adjacent with / without frightened time, last pellet, clock at
  the limit, ghosts in the tunnel) is replayed in the extracted model (`pacman_step_io`; the four ghost actions are
  draws recovered from the successor's ghost_actions and must satisfy the model's `ghost_draw_ok`) and compared field
  by field with the real `env.step`; `pacman_rule_io` is the declarative statement of the player / pellet / power-up /
  score rules;
- `pacman_check_io` (Inv_rest_b, pellets_ok_b, mask == legal_b) + `pacman_maze_io` (maze_ok_b) run on the
  implementation's own states; the mask is also judged by the environment's own reaction (mask[a] <=> the player moves);
- the reset state is compared with the model's parse of the ASCII maze (`pacman_reset_io`), the constants the proofs
  speak about (sizes, wrap moduli, default limit) with `pacman_consts_io`;
- observation spec validation on the boundary states (rows 28/29, tunnel columns 0/27).
- C08 (Proofs/PacMan_Book.v): on every implementation transition whose source satisfies the bookkeeping invariant
  (counter = live pellets, live pellets / power-ups distinct) the potential  score + 10 pellets + 50 power-ups left +
  200 ghosts still edible  is conserved and the reward is the score difference; per rollout episode the sum of the
  emitted rewards up to LAST equals the score of the final state and the objective recomputed from it.
- ghosts, exactly (Model/PacManGhost.v, `pacman_ghost_io`): forward -- the four ghost actions of EVERY implementation
  transition lie in the model's exact choice set (tunnel / waiting / distance-argmin among the non-backtracking free
  neighbours); converse -- in constructed situations (all four ghosts on an intersection, on the player, in a corner of
  walls, frightened, with init steps left...) and for every action, the step is re-run under K sampled PRNG keys and the
  set of ghost actions observed must EQUAL the model's set (each candidate has probability >= 1/4 per key).
Rewards are integral (10 / 50 / 200 multiples) and compared exactly.
"""
import numpy as np

from harness import envkit

NAME = "pac_man"
PROPS = ["C01", "C03", "C04", "C05", "C07", "C08", "C09", "C10", "C11", "C12"]
APPLIES = PROPS

MINI_MAZE = [
    "XXXXXXXXXXX",
    "XS O   O SX",
    "X XXX XXX X",
    "X  GT TG  X",
    "     P     ",
    "X  GT TG  X",
    "X XXX XXX X",
    "XS O   O SX",
    "XXXXXXXXXXX",
]


def extra_configs(tier, add):
    import jumanji.environments as E
    from jumanji.environments.routing.pac_man.generator import AsciiGenerator
    add("t40", lambda: E.PacMan(time_limit=40), 44, time_limit=40, mk=lambda t: E.PacMan(time_limit=t))
    if tier != "quick":
        add("mini-t25", lambda: E.PacMan(generator=AsciiGenerator(MINI_MAZE), time_limit=25), 28, time_limit=25,
            mk=lambda t: E.PacMan(generator=AsciiGenerator(MINI_MAZE), time_limit=t))


def topt_of(cfg, env):
    return 0 if cfg["label"] == "default" else int(env.time_limit)


def _flat(x):
    return [int(v) for v in np.asarray(x).reshape(-1)]


def _targets(t):
    out = []
    for p in t:
        out += [int(np.asarray(p[0])), int(np.asarray(p[1]))]
    return out


def body_fields(s):
    """the model's enc_state order"""
    return ([int(s.pellets), int(s.frightened_state_time)] + _flat(s.pellet_locations) + _flat(s.power_up_locations)
            + [int(s.player_locations.x), int(s.player_locations.y)] + _flat(s.ghost_locations) + _flat(s.initial_ghost_positions)
            + _targets(s.ghost_init_targets) + _flat(s.old_ghost_locations) + _flat(s.ghost_init_steps) + _flat(s.ghost_actions)
            + [int(s.last_direction), int(np.asarray(s.dead))] + _flat(s.ghost_starts) + _flat(s.scatter_targets)
            + [int(s.step_count)] + _flat(s.ghost_eaten) + [int(s.score)])


def enc_state(s):
    g = np.asarray(s.grid)
    npel = int(np.asarray(s.pellet_locations).shape[0])
    return ([int(g.shape[0]), int(g.shape[1])] + _flat(g) + [int(s.pellets), int(s.frightened_state_time), npel]
            + body_fields(s)[2:])


def layout(npel):
    return [("pellets", 1), ("frightened_state_time", 1), ("pellet_locations", 2 * npel), ("power_up_locations", 8),
            ("player_locations", 2), ("ghost_locations", 8), ("initial_ghost_positions", 8), ("ghost_init_targets", 8),
            ("old_ghost_locations", 8), ("ghost_init_steps", 4), ("ghost_actions", 4), ("last_direction", 1), ("dead", 1),
            ("ghost_starts", 4), ("scatter_targets", 8), ("step_count", 1), ("ghost_eaten", 4), ("score", 1),
            ("step_type", 1), ("reward", 1), ("discount", 1), ("time_limit", 1), ("action_mask", 5), ("valid_draw", 4)]


def _num(v):
    v = float(v)
    return int(v) if v == int(v) else 777777


def enc_out(s2, ts2, T):
    return (body_fields(s2) + [int(ts2.step_type), _num(ts2.reward), _num(ts2.discount), T]
            + _flat(ts2.observation.action_mask) + [1, 1, 1, 1])


def enc_obs(o):
    return (_flat(o.grid) + [int(o.player_locations.x), int(o.player_locations.y)] + _flat(o.ghost_locations)
            + _flat(o.power_up_locations) + [int(o.frightened_state_time)] + _flat(o.pellet_locations)
            + _flat(o.action_mask) + [int(o.score)])


def state_desc(s):
    return dict(player=[int(s.player_locations.x), int(s.player_locations.y)], ghosts=np.asarray(s.ghost_locations).tolist(),
                old_ghosts=np.asarray(s.old_ghost_locations).tolist(), ghost_actions=_flat(s.ghost_actions),
                ghost_starts=_flat(s.ghost_starts), frightened=int(s.frightened_state_time), pellets=int(s.pellets),
                step_count=int(s.step_count), score=int(s.score), ghost_eaten=_flat(s.ghost_eaten), key=_flat(s.key),
                last_direction=int(s.last_direction))


def _live(a):
    a = np.asarray(a).reshape(-1, 2)
    return [tuple(int(v) for v in r) for r in a if (r != 0).any()]


def book_ok(s):
    """the counters part of the proofs' invariant Book on an implementation state"""
    lp, lu = _live(s.pellet_locations), _live(s.power_up_locations)
    return int(s.pellets) == len(lp) and len(set(lp)) == len(lp) and len(set(lu)) == len(lu)


def potential(s):
    return (int(s.score) + 10 * int(s.pellets) + 50 * len(_live(s.power_up_locations))
            + 200 * int(np.asarray(s.ghost_eaten).astype(bool).sum()))


def check_c08_step(kit, s, s2, ts2, m):
    """potential conserved, reward = score difference, counter tracks the map (theorems step_Book / ret_score)"""
    if not book_ok(s):
        kit.res["C08"].count("source-without-book")
        return
    r = kit.res["C08"]
    r.evaluations += 1
    r.distinct.add((m["cfg"], m["p"], m["b"], m["t"]))
    rew = _num(ts2.reward)
    r.count("reward:%d" % rew)
    if not (potential(s2) == potential(s) and rew == int(s2.score) - int(s.score) and book_ok(s2)):
        kit.fail(["C08"], "score bookkeeping broken: reward / score / pellet counter / power-ups / ghost_eaten do not add up "
                 "(potential %d -> %d, reward %d, score %d -> %d)" % (potential(s), potential(s2), rew, int(s.score), int(s2.score)),
                 dict(cfg=m["cfg"], op="potential"), dict(m, seed=kit.seed))


def check_c08_episode(kit, lab, p, st, ts, ac, fl):
    """return of each rollout episode (rewards up to and including LAST, or up to the end of the rollout) against the
    final state: score, and 10 * pellets gone + 50 * power-ups gone + 200 * ghosts eaten (return_is_objective)"""
    rew = np.asarray(ts.reward)
    r = kit.res["C08"]
    for b in range(ac.shape[0]):
        end = min(ac.shape[1], int(fl[b]))
        s0, sf = envkit.R.slice_tree(st, b, 0), envkit.R.slice_tree(st, b, end)
        ret = float(rew[b, 1:end + 1].sum())
        obj = (10 * (len(_live(s0.pellet_locations)) - len(_live(sf.pellet_locations)))
               + 50 * (len(_live(s0.power_up_locations)) - len(_live(sf.power_up_locations)))
               + 200 * (int(np.asarray(s0.ghost_eaten).astype(bool).sum()) - int(np.asarray(sf.ghost_eaten).astype(bool).sum())))
        r.evaluations += 1
        r.distinct.add((lab, p, b, "episode"))
        r.count("episode-return:%d" % (int(ret) // 100 * 100))
        r.count("episode-ended" if fl[b] <= ac.shape[1] else "episode-running")
        if not (ret == obj == int(sf.score) - int(s0.score) and int(sf.pellets) == len(_live(sf.pellet_locations))):
            kit.fail(["C08"], "episode return (%s) differs from the objective recomputed from the final state (%d) or from the score (%d)"
                     % (ret, obj, int(sf.score) - int(s0.score)), dict(cfg=lab, op="episode-return"),
                     dict(cfg=lab, p=p, b=b, steps=end, seed=kit.seed, final=state_desc(sf)))


def state_key(s):
    return hash(tuple(body_fields(s)) + tuple(_flat(s.key)))


# ----------------------------------------------------------------------------------------------------------------
def synthetic_states(kit, s0, T):
    """directly constructed boundary states derived from the reset state s0 (numpy pytree)"""
    import jax.numpy as jnp
    from jumanji.environments.routing.pac_man.types import Position
    g = np.asarray(s0.grid)
    xs, ys = g.shape
    free = [(r, c) for r in range(xs) for c in range(ys) if g[r, c] == 1]
    out = []

    def mk(tag, player=None, **kw):
        d = {}
        if player is not None:
            d["player_locations"] = Position(x=np.int32(player[0]), y=np.int32(player[1]))
        for k, v in kw.items():
            ref = np.asarray(getattr(s0, k))
            d[k] = np.asarray(v, dtype=ref.dtype).reshape(ref.shape)
        out.append((tag, s0.replace(**d)))

    active = [-3, -3, -3, -3]
    # tunnel mouths: free cells on the first / last column, and their inner neighbours
    for (r, c) in free:
        if c in (0, ys - 1) or r in (0, xs - 1):
            mk("tunnel", (r, c))
            mk("tunnel-active", (r, c), ghost_starts=active)
    # the last free rows (rows 28 / 29 of the default maze) and the first ones
    rows = sorted({r for r, _ in free})
    for r in rows[-2:] + rows[:1]:
        cs = [c for (rr, c) in free if rr == r]
        for c in (cs[0], cs[len(cs) // 2], cs[-1]):
            mk("row%d" % r, (r, c))
    # next to / on every power-up
    for (c, r) in np.asarray(s0.power_up_locations).tolist():
        for (dr, dc) in ((0, 1), (0, -1), (1, 0), (-1, 0), (0, 0)):
            if (r + dr, c + dc) in free:
                mk("near-powerup", (r + dr, c + dc))
    # ghosts around the player, frightened or not, edible or not; ghost on the player's cell
    pr, pc = int(s0.player_locations.x), int(s0.player_locations.y)
    nb = [(pr + dr, pc + dc) for (dr, dc) in ((0, 1), (0, -1), (1, 0), (-1, 0)) if (pr + dr, pc + dc) in free]
    far = np.asarray(s0.ghost_locations).tolist()
    for fr in (0, 1, 7):
        for (r, c) in nb:
            gl = [[c, r]] + far[1:]
            mk("ghost-adjacent-f%d" % fr, None, ghost_locations=gl, old_ghost_locations=gl, frightened_state_time=fr, ghost_starts=active,
               ghost_actions=[0 if r == pr else 1, 1, 1, 1])
            mk("ghost-adjacent-waiting-f%d" % fr, None, ghost_locations=gl, old_ghost_locations=gl, frightened_state_time=fr)
            if fr:
                mk("ghost-adjacent-eaten-before-f%d" % fr, None, ghost_locations=gl, old_ghost_locations=gl, frightened_state_time=fr,
                   ghost_starts=active, ghost_eaten=[0, 1, 1, 1], ghost_actions=[4, 1, 1, 1])
        gl = [[pc, pr]] * 2 + far[2:]
        mk("ghosts-on-player-f%d" % fr, None, ghost_locations=gl, old_ghost_locations=gl, frightened_state_time=fr, ghost_starts=active,
           ghost_actions=[0, 2, 1, 1])
    # ghosts in the tunnel mouths and in corridors, moving in every direction
    mouths = [(r, c) for (r, c) in free if c in (0, ys - 1)]
    for (r, c) in mouths:
        for act in (0, 2, 1):
            gl = [[c, r]] * 4
            inner = [[1 if c == 0 else ys - 2, r]] * 4
            mk("ghost-tunnel-a%d" % act, None, ghost_locations=gl, old_ghost_locations=inner, ghost_actions=[act] * 4, ghost_starts=active)
            mk("ghost-tunnel-out-a%d" % act, None, ghost_locations=gl, old_ghost_locations=gl, ghost_actions=[act] * 4, ghost_starts=active)
    for i in kit.rng.permutation(len(free))[:8 if kit.tier == "quick" else 40]:
        r, c = free[int(i)]
        j = int(kit.rng.integers(0, len(free)))
        mk("ghosts-anywhere", free[j], ghost_locations=[[c, r]] * 4, old_ghost_locations=[[c, r], [c - 1, r], [c + 1, r], [c, r - 1]],
           ghost_actions=[int(kit.rng.integers(0, 4)) for _ in range(4)], ghost_starts=[-1, 0, -2, 1], frightened_state_time=int(kit.rng.integers(0, 3)))
    # the clock
    for sc in sorted({max(T - 2, 0), T - 1, T, T + 3}):
        mk("clock=%d" % sc, None, step_count=sc)
    # the last pellet next to the player / a single pellet far away / none left
    pel = np.asarray(s0.pellet_locations)
    if nb:
        r, c = nb[0]
        last = np.zeros_like(pel)
        last[0] = [c, r]
        mk("last-pellet-adjacent", None, pellet_locations=last, pellets=1)
        last2 = np.zeros_like(pel)
        last2[5] = pel[0]
        mk("last-pellet-far", None, pellet_locations=last2, pellets=1)
        mk("two-pellets", None, pellet_locations=last + last2, pellets=2)
    # player everywhere (sample) with all ghosts active
    for i in kit.rng.permutation(len(free))[:10 if kit.tier == "quick" else 60]:
        mk("player-anywhere", free[int(i)], ghost_starts=active)
    # out-of-spec bookkeeping values the step must cope with
    mk("frightened=30", None, frightened_state_time=30, ghost_starts=active)
    mk("score-high", None, score=123450)
    return out


def ghost_situations(kit, s0):
    """small constructed situations for the ghosts' choice set"""
    from jumanji.environments.routing.pac_man.types import Position
    g = np.asarray(s0.grid)
    xs, ys = g.shape
    free = [(r, c) for r in range(xs) for c in range(ys) if g[r, c] == 1]
    fs = set(free)
    out = []

    def nbs(r, c):
        return [(r + dr, c + dc) for (dr, dc) in ((0, -1), (-1, 0), (0, 1), (1, 0)) if (r + dr, c + dc) in fs]

    def mk(tag, player, gcell, old, fr=0, init=(0, 0, 0, 0), starts=(-3, -3, -3, -3), acts=(0, 1, 2, 3)):
        d = dict(player_locations=Position(x=np.int32(player[0]), y=np.int32(player[1])))
        kw = dict(ghost_locations=[[gcell[1], gcell[0]]] * 4, old_ghost_locations=[[old[1], old[0]]] * 4, frightened_state_time=fr,
                  ghost_init_steps=list(init), ghost_starts=list(starts), ghost_actions=list(acts))
        for k, v in kw.items():
            ref = np.asarray(getattr(s0, k))
            d[k] = np.asarray(v, dtype=ref.dtype).reshape(ref.shape)
        out.append((tag, s0.replace(**d)))

    inter = [(r, c) for (r, c) in free if len(nbs(r, c)) >= 3]
    n = 10 if kit.tier == "quick" else 60
    for i in kit.rng.permutation(len(inter))[:n]:
        r, c = inter[int(i)]
        nb = nbs(r, c)
        old = nb[int(kit.rng.integers(0, len(nb)))]
        pl = free[int(kit.rng.integers(0, len(free)))]
        mk("g-intersection", pl, (r, c), old)
        mk("g-intersection-on-player", (r, c), (r, c), old)              # distance ties
        mk("g-intersection-frightened", pl, (r, c), old, fr=4)
        mk("g-intersection-no-old", pl, (r, c), (r, c))                  # nothing masked as backtracking
    for i in kit.rng.permutation(len(inter))[:max(3, n // 4)]:
        r, c = inter[int(i)]
        nb = nbs(r, c)
        pl = free[int(kit.rng.integers(0, len(free)))]
        mk("g-init-steps", pl, (r, c), nb[0], init=(2, 0, 3, 1))
        mk("g-mixed-starts", pl, (r, c), nb[-1], starts=(-1, 0, 1, -2))
        near = nbs(r, c)[0]
        mk("g-orange-near", near, (r, c), nb[-1])                        # ghost 3 within 8 of the player: scatter target
    # corners of free cells (2 free neighbours, not a straight corridor) and straight corridors
    corner = [(r, c) for (r, c) in free if len(nbs(r, c)) == 2 and not ({(r, c - 1), (r, c + 1)} <= fs or {(r - 1, c), (r + 1, c)} <= fs)]
    for i in kit.rng.permutation(len(corner))[:4 if kit.tier == "quick" else 20]:
        r, c = corner[int(i)]
        nb = nbs(r, c)
        mk("g-corner", free[int(kit.rng.integers(0, len(free)))], (r, c), nb[0])
        mk("g-corner-no-old", free[int(kit.rng.integers(0, len(free)))], (r, c), (r, c))
    # a ghost on a wall cell surrounded by walls: no valid neighbour, min = inf, all four actions are candidates
    mk("g-walled-in", free[0], (0, 0), (0, 0))
    return out


def ghost_converse(kit, env, lab, sits, calls, metas):
    """re-run env.step under K keys for every situation and action; record the set of actions each ghost produced"""
    import jax
    import jax.numpy as jnp
    K = 64 if kit.tier == "quick" else 256
    if not hasattr(env, "_verif_ghost_keys"):
        env._verif_ghost_keys = jax.jit(jax.vmap(jax.vmap(jax.vmap(
            lambda s, a, k: env.step(s.replace(key=k), a)[0].ghost_actions, in_axes=(None, None, 0)), in_axes=(None, 0, None)), in_axes=(0, None, None)))
    keys = jax.random.split(jax.random.PRNGKey(kit.seed * 131 + 7), K)
    batch = jax.tree_util.tree_map(lambda *xs_: jnp.stack([jnp.asarray(x) for x in xs_]), *[s for _, s in sits])
    out = np.asarray(env._verif_ghost_keys(batch, jnp.arange(5, dtype=jnp.int32), keys))     # [N, 5, K, 4]
    for i, (tag, s) in enumerate(sits):
        s = jax.tree_util.tree_map(np.asarray, s)
        for a in range(5):
            seen = [sorted({int(v) for v in out[i, a, :, gi]}) for gi in range(4)]
            calls.append(("pacman_ghost_io", enc_state(s) + [a, 0, 0, 0, 0]))
            metas.append(("ghost-set", None, seen, dict(cfg=lab, tag=tag, i=i, action=a, keys=K, state=state_desc(s))))


def analyze(kit):
    import jax
    import jax.numpy as jnp
    calls, metas = [], []
    res = kit.res
    mazes = {}
    notes = res["C09"]

    # ---------------- constants the proofs speak about ----------------
    from jumanji.environments.routing.pac_man.constants import DEFAULT_MAZE
    calls.append(("pacman_consts_io", []))
    metas.append(("consts", None, [len(DEFAULT_MAZE), len(DEFAULT_MAZE[0]), len(DEFAULT_MAZE), len(DEFAULT_MAZE[0]), 1000, 1]
                  + [ord(ch) for row in DEFAULT_MAZE for ch in row], dict(cfg="constants")))

    sweep_budget = 70 if kit.tier == "quick" else 600
    for cfg in kit.configs():
        env = kit.env(cfg)
        lab = cfg["label"]
        T = int(env.time_limit)
        topt = topt_of(cfg, env)
        xs, ys = int(env.x_size), int(env.y_size)
        res["C11"].evaluations += 1
        res["C11"].distinct.add((lab, "resolved-limit", T))
        if cfg["time_limit"] is not None and cfg["time_limit"] != T:
            kit.fail(["C11"], "configured time limit differs from env.time_limit (constructor argument not honoured)",
                     dict(cfg=lab, op="limit-config"), dict(expected=cfg["time_limit"], got=T))
        if lab == "default" and T != 1000:
            kit.fail(["C11"], "default time limit is not the documented 1000", dict(cfg=lab, op="limit-config"), dict(got=T))
        ascii_maze = env.generator.maze
        visited = {}
        spec = env.observation_spec
        for p in (0.0, 0.35):
            roll = kit.roll(cfg, p)
            _, st, ts, ac, fl, k0 = roll
            B = ac.shape[0]
            # ---------------- reset ----------------
            for b in range(B):
                s0 = envkit.R.slice_tree(st, b, 0)
                ts0 = envkit.R.slice_tree(ts, b, 0)
                m = dict(cfg=lab, p=p, b=b, t=0, key=np.asarray(k0[b]).tolist(), state=state_desc(s0), src="reset")
                if b == 0:
                    exp = [xs, ys] + _flat(s0.grid) + body_fields(s0) + [int(ts0.step_type), _num(ts0.reward), _num(ts0.discount)]
                    calls.append(("pacman_reset_io", [len(ascii_maze), len(ascii_maze[0])] + [ord(ch) for row in ascii_maze for ch in row]))
                    metas.append(("reset", None, exp, m))
                    same = (int(s0.initial_player_locations.x), int(s0.initial_player_locations.y), int(s0.visited_index.x), int(s0.visited_index.y)) == \
                        (int(s0.player_locations.x), int(s0.player_locations.y)) * 2
                    res["C10"].evaluations += 1
                    if not same:
                        kit.fail(["C10"], "initial_player_locations / visited_index differ from the player's start", dict(cfg=lab, op="reset-copy"), dict(m, seed=kit.seed))
                    calls.append(("pacman_check_io", enc_state(s0)))
                    metas.append(("check", None, enc_obs(ts0.observation), dict(m, terminal=False)))
                    mazes.setdefault(np.asarray(s0.grid).tobytes(), (xs, ys, _flat(s0.grid), lab))
                else:
                    res["C10"].evaluations += 1
                    s00 = envkit.R.slice_tree(st, 0, 0)
                    if body_fields(s0) != body_fields(s00) or not np.array_equal(s0.grid, s00.grid):
                        kit.fail(["C10"], "reset state depends on the key (the ASCII generator is documented as deterministic)",
                                 dict(cfg=lab, op="reset-constant"), dict(m, seed=kit.seed))
            check_c08_episode(kit, lab, p, st, ts, ac, fl)
            # ---------------- rollout transitions ----------------
            for (b, t, s, a, s2, ts2) in kit.transitions(roll):
                mask = np.asarray(envkit.R.slice_tree(ts, b, t).observation.action_mask)
                legal = bool(mask[int(a)])
                m = dict(cfg=lab, p=p, b=b, t=t, action=int(a), legal=legal, state=state_desc(s), src="rollout")
                add_step(calls, metas, topt, T, s, int(a), s2, ts2, m)
                check_c08_step(kit, s, s2, ts2, m)
                h = state_key(s)
                if h not in visited:
                    visited[h] = ("rollout", s, mask)
                same = (int(s2.initial_player_locations.x), int(s2.initial_player_locations.y), int(s2.visited_index.x), int(s2.visited_index.y)) == \
                    (int(s.initial_player_locations.x), int(s.initial_player_locations.y), int(s.visited_index.x), int(s.visited_index.y)) \
                    and np.array_equal(s2.grid, s.grid)
                if not same:
                    kit.fail(["C09"], "step changed grid / initial_player_locations / visited_index", dict(cfg=lab, op="carried"), dict(m, seed=kit.seed))
                mazes.setdefault(np.asarray(s2.grid).tobytes(), (xs, ys, _flat(s2.grid), lab))
        # ---------------- synthetic boundary states ----------------
        s00 = envkit.R.slice_tree(kit.roll(cfg, 0.0)[1], 0, 0)
        syn = synthetic_states(kit, s00, T)
        items = [(tag, s, None) for tag, s in syn]
        rest = list(visited.values())
        if kit.tier == "quick" and lab != "default":
            # the constructed boundary states are swept in full on the default configuration; a sample elsewhere
            keep = kit.rng.permutation(len(items))[:25]
            items = [items[int(i)] for i in sorted(keep)]
        nroll = max(sweep_budget - len(items), 20)
        if len(rest) > nroll:
            idx = kit.rng.permutation(len(rest))[:nroll]
            rest = [rest[int(i)] for i in idx]
        items += rest
        # ---------------- EVERY action from every visited / constructed state ----------------
        if not hasattr(env, "_verif_step_all"):
            env._verif_step_all = jax.jit(jax.vmap(jax.vmap(lambda s, a: _strip(env.step(s, a)), in_axes=(None, 0)), in_axes=(0, None)))
            env._verif_mask = jax.jit(jax.vmap(env._compute_action_mask))
        batch = jax.tree_util.tree_map(lambda *xs_: jnp.stack([jnp.asarray(x) for x in xs_]), *[s for _, s, _ in items])
        S2, TS2 = env._verif_step_all(batch, jnp.arange(5, dtype=jnp.int32))
        S2 = jax.tree_util.tree_map(np.asarray, S2)
        TS2 = jax.tree_util.tree_map(np.asarray, TS2)
        M0 = np.asarray(env._verif_mask(batch)).astype(bool)
        for i, (tag, s, mask) in enumerate(items):
            s = jax.tree_util.tree_map(np.asarray, s)
            mask = M0[i]
            if tag != "rollout":
                # constructed states need not be reachable: C07 is judged only on successors of states satisfying Inv
                calls.append(("pacman_check_io", enc_state(s)))
                metas.append(("src-check", None, None, dict(cfg=lab, tag=tag, i=i)))
            pos = (int(s.player_locations.x), int(s.player_locations.y))
            under = any((int(c), int(r)) == (pos[1], pos[0]) for c, r in np.asarray(s.pellet_locations).tolist())
            under_pu = any((int(c), int(r)) == (pos[1], pos[0]) for c, r in np.asarray(s.power_up_locations).tolist())
            for a in range(5):
                s2 = envkit.R.slice_tree(S2, i, a)
                ts2 = envkit.R.slice_tree(TS2, i, a)
                legal = bool(mask[a])
                m = dict(cfg=lab, p="all-actions", b=i, t=a, action=a, legal=legal, state=state_desc(s), src=tag, src_i=i)
                add_step(calls, metas, topt, T, s, a, s2, ts2, m)
                check_c08_step(kit, s, s2, ts2, m)
                npos = (int(s2.player_locations.x), int(s2.player_locations.y))
                moved = npos != pos
                # the environment's own reaction: mask[a] <=> the player moved (C04)
                res["C04"].evaluations += 1
                res["C04"].distinct.add((lab, "react", i, a))
                res["C04"].count("mask:%d" % int(legal))
                if moved != legal:
                    kit.fail(["C04"], "mask entry disagrees with the environment's own reaction (player moved: %s, mask: %s)" % (moved, legal),
                             dict(cfg=lab, op="mask-react"), dict(m, seed=kit.seed, new_position=list(npos)))
                if tag.startswith("tunnel") or tag.startswith("row"):
                    res["C09"].count("boundary:" + tag.split("-")[0])
                    # wrap-around at the tunnel: column ys-1 -> 0 and 0 -> ys-1; rows never wrap into walls
                    if legal and a in (1, 3) and pos[1] in (0, ys - 1) and abs(npos[1] - pos[1]) > 1:
                        res["C09"].count("tunnel-wrap:%d->%d" % (pos[1], npos[1]))
                        if not ((pos[1], npos[1]) in ((0, ys - 1), (ys - 1, 0)) and npos[0] == pos[0]):
                            kit.fail(["C07", "C09"], "tunnel wrap-around lands on the wrong cell", dict(cfg=lab, op="tunnel-wrap"),
                                     dict(m, seed=kit.seed, new_position=list(npos)))
                    # C01: the observation at the boundary conforms to the spec
                    res["C01"].evaluations += 1
                    res["C01"].distinct.add((lab, "boundary-validate", i, a))
                    try:
                        spec.validate(jax.tree_util.tree_map(np.asarray, ts2.observation))
                    except Exception as e:  # noqa
                        kit.fail(["C01"], "observation at a boundary position violates observation_spec: %s" % str(e)[:200],
                                 dict(cfg=lab, op="boundary-validate"), dict(m, seed=kit.seed, new_position=list(npos)))
                if not legal and a < 4:
                    res["C05"].evaluations += 1
                    res["C05"].distinct.add((lab, i, a))
                    res["C05"].count("illegal:%s" % tag.split("=")[0].split("-f")[0])
                    exp_pel = np.asarray(s.pellet_locations).copy()
                    exp_pel[(exp_pel[:, 0] == pos[1]) & (exp_pel[:, 1] == pos[0])] = 0
                    dead2 = bool(np.asarray(s2.dead))
                    cont = int(ts2.step_type) == (2 if (int(s.step_count) + 1 >= T or dead2 or int(s2.pellets) == 0) else 1)
                    same = (not moved and np.array_equal(s2.pellet_locations, exp_pel) and int(s2.pellets) == int(s.pellets) - int(under)
                            and np.array_equal(s2.grid, s.grid) and int(s2.step_count) == int(s.step_count) + 1)
                    if not under and not under_pu:
                        same = same and np.array_equal(s2.pellet_locations, s.pellet_locations) and np.array_equal(s2.power_up_locations, s.power_up_locations) \
                            and int(s2.pellets) == int(s.pellets) and float(ts2.reward) % 200 == 0
                    # an ignored move behaves like the documented no-op (same player / pellet / power-up outcome)
                    sn = envkit.R.slice_tree(S2, i, 4)
                    same = same and np.array_equal(sn.pellet_locations, s2.pellet_locations) and np.array_equal(sn.power_up_locations, s2.power_up_locations) \
                        and (int(sn.player_locations.x), int(sn.player_locations.y)) == npos and int(sn.pellets) == int(s2.pellets)
                    if not (same and cont):
                        kit.fail(["C05"], "a move into a wall is not ignored (player moved, something was eaten on its behalf, or the episode ended without cause)",
                                 dict(cfg=lab, op="illegal-ignored"), dict(m, seed=kit.seed, new_position=list(npos), step_type=int(ts2.step_type)))

        # the model compares squared integer distances where the code compares float32 norms: float32 sqrt must be
        # strictly increasing on every squared distance that can occur on this maze (and sqrt(64) == 8 exactly)
        bound = 2 * (2 * (xs + ys) + 8) ** 2
        rt = np.sqrt(np.arange(bound + 1, dtype=np.float32))
        rj = np.asarray(jax.vmap(jnp.linalg.norm)(jnp.stack([jnp.arange(0, 2 * (xs + ys) + 8, dtype=jnp.int32)] * 2, axis=1)))
        res["C09"].evaluations += 1
        res["C09"].distinct.add((lab, "sqrt-monotone", bound))
        if not ((np.diff(rt) > 0).all() and rt[64] == 8.0 and rt[65] > 8.0 and (np.diff(rj) > 0).all()):
            kit.fail(["C09"], "float32 sqrt is not strictly increasing on the squared distances of this maze: the integer argmin of the "
                     "ghost model is not the code's argmin", dict(cfg=lab, op="sqrt-monotone"), dict(bound=bound))
        # ---------------- ghosts: converse check of the exact choice set ----------------
        if kit.tier != "quick" or lab == "default":
            sits = ghost_situations(kit, s00)
            sits += [(tag, s) for tag, s, _ in items if tag != "rollout" and (np.asarray(s.ghost_starts) < 0).any()][:20 if kit.tier == "quick" else 100]
            rolled = [(tag, s) for tag, s, _ in items if tag == "rollout" and (np.asarray(s.ghost_starts) < 0).any()]
            sits += rolled[:15 if kit.tier == "quick" else 100]
            ghost_converse(kit, env, lab, sits, calls, metas)

    for (xs, ys, g, lab) in mazes.values():
        calls.append(("pacman_maze_io", [xs, ys] + g))
        metas.append(("maze", None, [1], dict(cfg=lab)))

    # ---------------- run the model ----------------
    outs = kit.model(calls)
    src_inv = {}
    for (entry, args), (kind, lay, exp, m), got in zip(calls, metas, outs):
        if kind == "src-check":
            src_inv[(m["cfg"], m["i"])] = got[0] == 1
            res["C07"].count("constructed-source-inv:%d" % int(got[0] == 1))
    for (entry, args), (kind, lay, exp, m), got in zip(calls, metas, outs):
        if kind == "step":
            bad = envkit.diff_fields(lay, got, exp)
            illegal = (not m["legal"]) and m["action"] < 4
            res["C09"].evaluations += 1
            res["C09"].distinct.add((m["cfg"], m["p"], m["b"], m["t"]))
            res["C09"].count("step:" + m["src"].split("=")[0].split("-f")[0])
            res["C03"].evaluations += 1
            for gi, dv in enumerate(m["draws"]):
                res["C07"].count("ghost-draw:%d" % dv)
            if illegal:
                res["C05"].evaluations += 1
            if bad:
                pids = {"C09"}
                if "action_mask" in bad:
                    pids.add("C04")
                if illegal:
                    pids.add("C05")
                if {"player_locations", "ghost_locations", "valid_draw"} & set(bad):
                    pids.add("C07")
                if {"time_limit", "step_type", "step_count"} & set(bad):
                    pids.add("C11")
                if {"step_type", "discount"} & set(bad):
                    pids.add("C03")
                what = "model and implementation disagree on step (fields %s)" % ",".join(bad)
                if bad == ["valid_draw"]:
                    what = "a ghost action chosen by the implementation is outside the set the model permits (ghost_draw_ok)"
                kit.fail(sorted(pids), what, dict(cfg=m["cfg"], op="corr-step", fields=",".join(bad)),
                         dict(m, model=_short(lay, got, bad), impl=_short(lay, exp, bad), seed=kit.seed))
        elif kind == "ghost":
            for pid in ("C07", "C09"):
                res[pid].evaluations += 1
            sets = [got[4 + 5 * gi:9 + 5 * gi] for gi in range(4)]
            for gi in range(4):
                res["C09"].count("ghost-set-size:%d" % sum(sets[gi]))
            if got[:4] != [1, 1, 1, 1]:
                kit.fail(["C07", "C09"], "a ghost action chosen by the implementation is outside the EXACT choice set of the model "
                         "(tunnel / waiting / distance-argmin among non-backtracking free neighbours)",
                         dict(cfg=m["cfg"], op="ghost-exact"), dict(m, exact_flags=got[:4], model_sets=sets, seed=kit.seed))
        elif kind == "ghost-set":
            res["C09"].evaluations += 1
            res["C09"].distinct.add((m["cfg"], "ghost-set", m["i"], m["action"]))
            sets = [[d for d in range(5) if got[4 + 5 * gi + d] == 1] for gi in range(4)]
            for gi in range(4):
                res["C09"].count("converse:%s:size%d" % (m["tag"].split("=")[0].split("-f")[0], len(sets[gi])))
            if sets != exp:
                extra = [[d for d in exp[gi] if d not in sets[gi]] for gi in range(4)]
                missing = [[d for d in sets[gi] if d not in exp[gi]] for gi in range(4)]
                what = ("ghost choice set: the implementation produced actions the model's exact set excludes" if any(extra) else
                        "ghost choice set: actions the model allows were never produced under %d sampled keys (model set too large)" % m["keys"])
                kit.fail(["C09"] + (["C07"] if any(extra) else []), what, dict(cfg=m["cfg"], op="ghost-converse"),
                         dict(m, model_sets=sets, observed_sets=exp, not_in_model=extra, never_observed=missing, seed=kit.seed))
        elif kind == "rule":
            res["C09"].evaluations += 1
            if got != exp:
                names = ["player", "pellet_locations", "power_up_locations", "pellets", "frightened", "reward", "score", "done"]
                kit.fail(["C09"], "declarative rules (player / pellets / power-ups / score) and implementation disagree",
                         dict(cfg=m["cfg"], op="corr-rule"), dict(m, model_tail=got[-5:], impl_tail=exp[-5:], model_player=got[:2], impl_player=exp[:2], seed=kit.seed, fields=names))
        elif kind == "check":
            res["C04"].evaluations += 1
            res["C04"].distinct.add((m["cfg"], m["p"], m["b"], m["t"], m.get("action")))
            if got[2] != 1:
                kit.fail(["C04"], "action mask is not the set of legal moves (verified checker on implementation state)",
                         dict(cfg=m["cfg"], op="mask-exact"), dict(m, seed=kit.seed))
            res["C07"].evaluations += 1
            res["C07"].distinct.add((m["cfg"], m["p"], m["b"], m["t"], m.get("action")))
            res["C07"].count("terminal" if m["terminal"] else "non-terminal")
            if got[0] != 1 and not src_inv.get((m["cfg"], m.get("src_i")), True):
                res["C07"].count("successor-of-non-inv-constructed-state")
            elif got[0] != 1 and not m["terminal"]:
                kit.fail(["C07"], "state is not physically consistent (player / ghost off the free cells of the maze, or a ghost about to walk into a wall)",
                         dict(cfg=m["cfg"], op="physical"), dict(m, seed=kit.seed))
            elif got[0] != 1:
                res["C07"].count("terminal-inconsistent")
            if m.get("pellets_tracked", True):
                res["C07"].evaluations += 1
                if got[1] != 1:
                    kit.fail(["C07", "C09"], "pellet counter differs from the number of pellets left on the map",
                             dict(cfg=m["cfg"], op="pellet-count"), dict(m, seed=kit.seed))
            res["C12"].evaluations += 1
            res["C12"].distinct.add((m["cfg"], m["p"], m["b"], m["t"], m.get("action")))
            if got[3:] != exp:
                kit.fail(["C12"], "observation differs from the state it views", dict(cfg=m["cfg"], op="obs-copy"),
                         dict(m, seed=kit.seed, first_diff=_first_diff(got[3:], exp)))
        elif kind == "reset":
            res["C10"].evaluations += 1
            res["C10"].distinct.add((m["cfg"], "reset"))
            if got != exp:
                kit.fail(["C10"], "model of generate_maze_from_ascii / AsciiGenerator disagrees with the real reset state",
                         dict(cfg=m["cfg"], op="corr-reset"), dict(m, seed=kit.seed, first_diff=_first_diff(got, exp)))
        elif kind == "maze":
            res["C10"].evaluations += 1
            res["C07"].evaluations += 1
            if got != [1]:
                kit.fail(["C07", "C10"], "maze_ok_b fails on the implementation's grid (dead end / inconsistent border: the ghost invariant is not guaranteed)",
                         dict(cfg=m["cfg"], op="maze-ok"), dict(m, seed=kit.seed))
        elif kind == "consts":
            res["C10"].evaluations += 1
            res["C11"].evaluations += 1
            if got != exp:
                kit.fail(["C10", "C11", "C09"], "constants the proofs speak about (sizes, wrap moduli, default limit, maze_ok, ASCII maze) differ from the code",
                         dict(cfg="constants", op="consts"), dict(model=got[:6], impl=exp[:6]))
    res["C09"].notes.append("pac_man docs vs code (code modelled as is, not counted as failures): a power pellet pays 50 (+10 for the pellet "
                            "under it) while docs/env docstring say 20; the default map has 318 pellets (one per free cell, incl. ghost house, "
                            "tunnel row, start cell) while the docs say 316; the no-op keeps the player in place (docs: 'takes the last action'); "
                            "action 1 moves to column-1 and 3 to column+1 (docs name them right / left)")
    for pid in PROPS:
        res[pid].traces += len(calls)
        if not res[pid].samples:
            ex = [mm[3] for mm in metas if mm[0] in ("step", "check")][:1]
            res[pid].samples.append(dict(env=NAME, example=ex[0] if ex else None))


def _strip(out):
    s, ts = out
    return s, ts.replace(extras={})


def _first_diff(a, b):
    for i, (x, y) in enumerate(zip(a, b)):
        if x != y:
            return dict(index=i, model=a[max(0, i - 2):i + 3], impl=b[max(0, i - 2):i + 3], lens=[len(a), len(b)])
    return dict(lens=[len(a), len(b)])


def _short(lay, vals, bad):
    out, i = {}, 0
    for name, n in lay:
        if name in bad:
            out[name] = vals[i:i + n] if n <= 16 else _first_few(vals[i:i + n])
        i += n
    return out


def _first_few(v):
    nz = [(i, x) for i, x in enumerate(v) if x != 0]
    return dict(n=len(v), nonzero=len(nz), head=nz[:6])


def add_step(calls, metas, topt, T, s, a, s2, ts2, m):
    """model step + rules + checkers for one implementation transition s --a--> s2"""
    draws = _flat(s2.ghost_actions)
    npel = int(np.asarray(s.pellet_locations).shape[0])
    e = [topt] + enc_state(s) + [a] + draws
    m = dict(m, draws=draws)
    calls.append(("pacman_step_io", e))
    metas.append(("step", layout(npel), enc_out(s2, ts2, T), m))
    calls.append(("pacman_ghost_io", enc_state(s) + [a] + draws))
    metas.append(("ghost", None, None, m))
    # declarative rules: ghost outcome taken from the implementation (reward not explained by pellet / power-up, death)
    pos2 = (int(s2.player_locations.x), int(s2.player_locations.y))
    on_pel = any((int(c), int(r)) == (pos2[1], pos2[0]) for c, r in np.asarray(s.pellet_locations).tolist())
    on_pu = any((int(c), int(r)) == (pos2[1], pos2[0]) for c, r in np.asarray(s.power_up_locations).tolist())
    ghost_rew = _num(ts2.reward) - 10 * int(on_pel) - 50 * int(on_pu)
    died = int(np.asarray(s2.dead))
    calls.append(("pacman_rule_io", [topt] + enc_state(s) + [a, ghost_rew, died]))
    metas.append(("rule", None, [pos2[0], pos2[1]] + _flat(s2.pellet_locations) + _flat(s2.power_up_locations)
                  + [int(s2.pellets), int(s2.frightened_state_time), _num(ts2.reward), int(s2.score), int(int(ts2.step_type) == 2)], m))
    tracked = int(s.pellets) == int((np.asarray(s.pellet_locations) != 0).any(axis=1).sum())
    calls.append(("pacman_check_io", enc_state(s2)))
    metas.append(("check", None, enc_obs(ts2.observation), dict(m, terminal=int(ts2.step_type) == 2, pellets_tracked=tracked)))
