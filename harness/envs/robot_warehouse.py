"""RobotWarehouse: correspondence with coq/Model/RobotWarehouse.v (Impl step = get_valid_actions + sequential agent
scan + collision test + goal scan with the re-request draw, the sensor observation writer, RandomGenerator over recovered
draws, the warehouse layout constants) and the verified boolean checkers (Inv: layers = tables, one agent / shelf per cell,
carried shelf under its agent, queue of distinct shelves = requested flags, stored mask = recomputed mask; mask = table of
legal moves stated on the shelf TABLE; observation = documented view stated on the TABLES; spec bounds; shelf count)
evaluated on the implementation's own states.

Transitions come from the shared mask-respecting / 35%-uniform rollouts and from directly constructed consistent states
(step is a function of the state): carriers of requested shelves next to the goals (single, double and chained deliveries),
crowded agents (collisions, masked FORWARD into a shelf), agents at the border facing out, last steps before the limit.
From those states EVERY joint action of the 5^A action space is tried on the real env (vmap): this exercises every masked
FORWARD (C05: same successor as with NOOP, position and holdings kept), judges the mask by the env's own reaction (C04) and
checks the invariant after ANY joint action that does not end in a collision (C07).

The draw of the re-requested shelf is recovered from the successor queue (chained delivery: from the reward as well).
Rewards are integral floats (number of deliveries) and compared exactly."""
import itertools

import numpy as np

from harness import envkit

NAME = "robot_warehouse"
PROPS = ["C01", "C03", "C04", "C05", "C07", "C10", "C11", "C12"]
APPLIES = PROPS


def _G():
    from jumanji.environments.routing.robot_warehouse.generator import RandomGenerator
    return RandomGenerator


def _private(tier):
    """(label, time_limit, steps, batch, generator kwargs): analysed here only (not through generic/modes/wrappers)."""
    q = tier == "quick"
    C = [
        ("r2c1h1a1s0q1-t3", 3, 5, 4, dict(shelf_rows=2, shelf_columns=1, column_height=1, num_agents=1, sensor_range=0, request_queue_size=1)),  # minimum
        ("r2c1h1a2s1q1-t9", 9, 11, 4, dict(shelf_rows=2, shelf_columns=1, column_height=1, num_agents=2, sensor_range=1, request_queue_size=1)),  # chained deliveries
        ("r1c3h2a3s3q4-t12", 12, 14, 4, dict(shelf_rows=1, shelf_columns=3, column_height=2, num_agents=3, sensor_range=3, request_queue_size=4)),
    ]
    if not q:
        C += [
            ("r3c1h2a2s3q2-t2", 2, 4, 4, dict(shelf_rows=3, shelf_columns=1, column_height=2, num_agents=2, sensor_range=3, request_queue_size=2)),
            ("r2c5h3a4s2q6-t40", 40, 44, 8, dict(shelf_rows=2, shelf_columns=5, column_height=3, num_agents=4, sensor_range=2, request_queue_size=6)),
            ("r1c3h1a5s1q3-t20", 20, 23, 8, dict(shelf_rows=1, shelf_columns=3, column_height=1, num_agents=5, sensor_range=1, request_queue_size=3)),
        ]
    return C


def private_configs(tier):
    import jumanji.environments as E
    G = _G()
    out = []
    for (label, tl, steps, batch, gkw) in _private(tier):
        mk = (lambda gkw=gkw: (lambda t: E.RobotWarehouse(generator=G(**gkw), time_limit=t)))()
        out.append(dict(env=NAME, label=label, make=(lambda mk=mk, tl=tl: mk(tl)), steps=steps, batch=batch, time_limit=tl,
                        tags=dict(mk=mk), private=True))
    return out


# ---------------------------------------------------------------- encoders
def ints(x):
    return [int(v) for v in np.asarray(x).reshape(-1)]


def enc_cfg(env):
    g = env._generator
    return [int(g.shelf_rows), int(g.shelf_columns), int(g.column_height), int(env.num_agents), int(env.sensor_range),
            int(env.request_queue_size), int(env.time_limit)]


def enc_state(s, with_m=True):
    a, sh = s.agents, s.shelves
    A = np.column_stack([np.asarray(a.position.x), np.asarray(a.position.y), np.asarray(a.direction), np.asarray(a.is_carrying)]).astype(np.int64)
    S = np.column_stack([np.asarray(sh.position.x), np.asarray(sh.position.y), np.asarray(sh.is_requested).astype(np.int64)]).astype(np.int64)
    g = np.asarray(s.grid)
    out = ints(g[0]) + ints(g[1]) + A.reshape(-1).tolist() + S.reshape(-1).tolist() + ints(s.request_queue) + [int(s.step_count)] + ints(s.action_mask)
    return ([S.shape[0]] + out) if with_m else out


def lay_state(env, m):
    H, W = env.grid_size
    return [("grid_shelves", H * W), ("grid_agents", H * W), ("agents", 4 * env.num_agents), ("shelves", 3 * m),
            ("request_queue", env.request_queue_size), ("step_count", 1), ("action_mask", 5 * env.num_agents)]


def describe(s):
    a, sh = s.agents, s.shelves
    return dict(agents=[[int(x), int(y), int(d), int(c)] for x, y, d, c in zip(np.asarray(a.position.x), np.asarray(a.position.y), np.asarray(a.direction), np.asarray(a.is_carrying))],
                shelves=[[int(x), int(y), int(r)] for x, y, r in zip(np.asarray(sh.position.x), np.asarray(sh.position.y), np.asarray(sh.is_requested))],
                queue=ints(s.request_queue), step_count=int(s.step_count), mask=ints(s.action_mask))


def has_collision(s):
    g = np.asarray(s.grid)[1]
    x, y = np.asarray(s.agents.position.x), np.asarray(s.agents.position.y)
    return any(int(g[x[i], y[i]]) != i + 1 for i in range(len(x)))


def recover_draws(env, s, s2, reward):
    """The shelf ids drawn for the two goals, read off the successor state (see the module docstring)."""
    q = ints(s.request_queue)
    q2 = ints(s2.request_queue)
    gs = np.asarray(s2.grid)[0]
    goals = np.asarray(env.goals)
    sid = [int(gs[int(g[1]), int(g[0])]) for g in goals]
    draws = [0, 0]
    d1 = sid[0] != 0 and (sid[0] - 1) in q
    if d1:
        p1 = q.index(sid[0] - 1)
        chained = sid[1] != 0 and (sid[1] - 1) not in q and int(round(float(reward))) == 2
        draws[0] = sid[1] - 1 if chained else q2[p1]
        q = list(q)
        q[p1] = draws[0]
    if sid[1] != 0 and (sid[1] - 1) in q:
        draws[1] = q2[q.index(sid[1] - 1)]
    return draws


# ---------------------------------------------------------------- directly constructed states
_JIT = {}


def mk_states(env, rows):
    """rows: list of (apos[A,2], adir[A], acar[A], spos[M,2], sreq[M], queue[Q], cnt) -> batched consistent State (mask computed by the env's code)"""
    import jax
    import jax.numpy as jnp
    from jumanji.environments.routing.robot_warehouse import utils
    from jumanji.environments.routing.robot_warehouse.types import Agent, Position, Shelf, State
    H, W = env.grid_size
    N = len(rows)
    col = lambda k, dt: np.stack([np.asarray(r[k]) for r in rows]).astype(dt)
    ap, sp = col(0, np.int32), col(3, np.int32)
    grid = np.zeros((N, 2, H, W), np.int32)
    for k in range(N):
        for j in range(sp.shape[1]):
            grid[k, 0, sp[k, j, 0], sp[k, j, 1]] = j + 1
        for i in range(ap.shape[1]):
            grid[k, 1, ap[k, i, 0], ap[k, i, 1]] = i + 1
    agents = Agent(position=Position(x=jnp.asarray(ap[:, :, 0]), y=jnp.asarray(ap[:, :, 1])), direction=jnp.asarray(col(1, np.int32)), is_carrying=jnp.asarray(col(2, np.int32)))
    shelves = Shelf(position=Position(x=jnp.asarray(sp[:, :, 0]), y=jnp.asarray(sp[:, :, 1])), is_requested=jnp.asarray(col(4, np.float32)))
    ck = ("prep", id(env))
    if ck not in _JIT:
        _JIT[ck] = (jax.jit(jax.vmap(lambda g, a, sh: (utils.compute_action_mask(g, a), env._make_observations(g, a, sh)))), env)
    mask, obs = _JIT[ck][0](jnp.asarray(grid), agents, shelves)
    return State(grid=jnp.asarray(grid), agents=agents, shelves=shelves, request_queue=jnp.asarray(col(5, np.int32)),
                 step_count=jnp.asarray(col(6, np.int32)), action_mask=mask, key=jnp.asarray(np.tile(np.asarray([7, 11], np.uint32), (N, 1)))), np.asarray(obs)


def state_row(s):
    a, sh = s.agents, s.shelves
    return (np.stack([np.asarray(a.position.x), np.asarray(a.position.y)], -1), np.asarray(a.direction), np.asarray(a.is_carrying),
            np.stack([np.asarray(sh.position.x), np.asarray(sh.position.y)], -1), np.asarray(sh.is_requested), np.asarray(s.request_queue), np.asarray(s.step_count))


def synthetic_rows(kit, env, n):
    rng = kit.rng
    H, W = env.grid_size
    A, Q, T = env.num_agents, env.request_queue_size, env.time_limit
    home = np.asarray(env._generator._shelf_positions)
    M = home.shape[0]
    goals = [(int(g[1]), int(g[0])) for g in np.asarray(env.goals)]          # (x, y)
    cells = [(x, y) for x in range(H) for y in range(W)]
    dirs = {0: (-1, 0), 1: (0, 1), 2: (1, 0), 3: (0, -1)}
    out = []
    for k in range(n):
        mode = k % 5
        spos = [tuple(int(v) for v in p) for p in home]
        queue = [int(v) for v in rng.choice(M, Q, replace=False)]
        apos, adir, acar = [], [], []
        used_s = set(spos)

        def move_shelf(j, cell):
            used_s.discard(spos[j])
            spos[j] = cell
            used_s.add(cell)

        def free_agent_cell(pool):
            pool = [c for c in pool if c not in apos]
            return pool[int(rng.integers(len(pool)))] if pool else None

        if mode in (0, 1):        # carriers of (mostly requested) shelves one step above / on / beside the goals, facing them
            order = list(rng.permutation(len(goals)))
            for gi in order[:max(1, min(A, 1 if mode == 0 else 2))]:
                gx, gy = goals[gi]
                spot = [(gx - 1, gy, 2), (gx, gy - 1, 1) if gi == 0 else (gx, gy + 1, 3)][int(rng.integers(2))]
                cell = (spot[0], spot[1])
                if cell in apos or cell in used_s or not (0 <= cell[1] < W):
                    continue
                j = queue[int(rng.integers(Q))] if rng.random() < 0.8 else int(rng.integers(M))
                if spos[j] in apos:
                    continue
                move_shelf(j, cell)
                apos.append(cell)
                adir.append(spot[2])
                acar.append(1)
            if mode == 1 and M > Q and rng.random() < 0.5:   # an unrequested shelf already sitting on the other goal (chained delivery)
                for g in goals:
                    if g not in used_s:
                        cand = [j for j in range(M) if j not in queue and spos[j] not in apos]
                        if cand:
                            move_shelf(cand[int(rng.integers(len(cand)))], g)
                        break
        elif mode == 2:           # crowd: agents side by side, carriers facing shelves
            c0 = cells[int(rng.integers(len(cells)))]
            near = [c for c in cells if abs(c[0] - c0[0]) + abs(c[1] - c0[1]) <= 2]
            while len(apos) < A and near:
                c = free_agent_cell(near)
                if c is None:
                    break
                apos.append(c)
                adir.append(int(rng.integers(4)))
                acar.append(1 if c in used_s and rng.random() < 0.7 else 0)
        elif mode == 3:           # border: agents on the rim facing out, some carrying
            rim = [(x, y, d) for (x, y) in cells for d in range(4)
                   if not (0 <= x + dirs[d][0] < H and 0 <= y + dirs[d][1] < W)]
            while len(apos) < A:
                x, y, d = rim[int(rng.integers(len(rim)))]
                if (x, y) in apos:
                    continue
                if rng.random() < 0.5 and (x, y) not in used_s:
                    cand = [j for j in range(M) if spos[j] not in apos]
                    if cand:
                        move_shelf(cand[int(rng.integers(len(cand)))], (x, y))
                apos.append((x, y))
                adir.append(d)
                acar.append(1 if (x, y) in used_s else 0)
        elif mode == 4:           # carriers standing on a shelf and facing a neighbouring shelf (masked FORWARD), others facing them (collisions)
            for _ in range(A):
                js = [j for j in range(M) if spos[j] not in apos]
                rng.shuffle(js)
                for j in js:
                    x, y = spos[j]
                    ds = [d for d in range(4) if (x + dirs[d][0], y + dirs[d][1]) in used_s]
                    if ds:
                        apos.append((x, y))
                        adir.append(ds[int(rng.integers(len(ds)))] if rng.random() < 0.85 else int(rng.integers(4)))
                        acar.append(1 if rng.random() < 0.85 else 0)
                        break
                if len(apos) >= A or rng.random() < 0.3:
                    break
            if apos and len(apos) < A:   # an agent right in front of / behind the first carrier, facing it
                x, y = apos[0]
                for d in rng.permutation(4):
                    c = (x + dirs[int(d)][0], y + dirs[int(d)][1])
                    if 0 <= c[0] < H and 0 <= c[1] < W and c not in apos:
                        apos.append(c)
                        adir.append((int(d) + 2) % 4)
                        acar.append(1 if c in used_s and rng.random() < 0.5 else 0)
                        break
        # fill up with random agents; a carrier stands on a shelf
        while len(apos) < A:
            if rng.random() < 0.5:
                js = [j for j in range(M) if spos[j] not in apos]
                c = spos[js[int(rng.integers(len(js)))]] if js else free_agent_cell(cells)
            else:
                c = free_agent_cell(cells)
            apos.append(c)
            adir.append(int(rng.integers(4)))
            acar.append(1 if c in used_s and rng.random() < 0.6 else 0)
        sreq = [1.0 if j in queue else 0.0 for j in range(M)]
        cnt = [0, max(T - 2, 0), max(T - 1, 0), int(rng.integers(0, max(T, 1)))][int(rng.integers(4))]
        out.append((np.asarray(apos, np.int32), np.asarray(adir, np.int32), np.asarray(acar, np.int32), np.asarray(spos, np.int32),
                    np.asarray(sreq, np.float32), np.asarray(queue, np.int32), np.int32(cnt)))
    return out


# ---------------------------------------------------------------- analysis
def analyze(kit):
    import jax
    import jax.numpy as jnp

    q = kit.tier == "quick"
    res = kit.res
    calls, metas = [], []

    def call(entry, args, kind, exp, m, layout=None):
        calls.append((entry, args))
        metas.append((kind, layout, exp, m))

    for cfg in list(kit.configs()) + private_configs(kit.tier):
        env = kit.env(cfg)
        H, W = env.grid_size
        A, Q, T, F = env.num_agents, env.request_queue_size, env.time_limit, int(env.num_obs_features)
        M = int(env._generator._shelf_positions.shape[0])
        label = cfg["label"]
        ec = enc_cfg(env)
        L_state = lay_state(env, M)
        L_step = [("valid_draws", 1)] + L_state + [("step_type", 1), ("reward", 1), ("discount", 1), ("agents_view", A * F)]
        L_obs = [("agents_view", A * F), ("action_mask", 5 * A)]
        L_gen = [("valid_draws", 1)] + L_state + [("step_type", 1), ("reward", 1), ("discount", 1), ("gen_wf", 1)]

        # ---- the layout constants of the generator against the model's formulas (highways, goals, shelf cells, feature count)
        g = env._generator
        exp = [H, W, M, F] + ints(np.asarray(g.highways).astype(int)) + ints(np.asarray(g.goals)) + ints(np.asarray(g._shelf_positions))
        call("rw_layout_io", ec, "layout", exp, dict(cfg=label))
        if int(g.not_in_queue_size) != M - Q or tuple(np.asarray(env.observation_spec.agents_view.shape)) != (A, F):
            kit.fail(["C10", "C01"], "not_in_queue_size / declared agents_view shape inconsistent with the layout", dict(cfg=label, op="layout"), dict(M=M, Q=Q, F=F))

        def expect_step(s, s2, ts2):
            rew = float(np.asarray(ts2.reward))
            return [1] + enc_state(s2, False) + [int(ts2.step_type), int(round(rew)), int(round(float(np.asarray(ts2.discount))))] + ints(ts2.observation.agents_view), rew

        def add_step(s, a, s2, ts2, m):
            exp, rew = expect_step(s, s2, ts2)
            if rew != round(rew) or float(np.asarray(ts2.discount)) not in (0.0, 1.0):
                kit.fail(["C03"], "reward is not an integral number of deliveries / discount not 0 or 1", dict(cfg=label, op="reward"), dict(m, reward=rew, seed=kit.seed))
            dr = recover_draws(env, s, s2, rew)
            call("rw_step_io", ec + enc_state(s) + ints(a) + dr, "step", exp, dict(m, draws=dr), L_step)
            o = ts2.observation
            if int(o.step_count) != int(s2.step_count) or not np.array_equal(np.asarray(o.action_mask), np.asarray(s2.action_mask)):
                kit.fail(["C12"], "observation step_count / action_mask differ from the state", dict(cfg=label, op="obs-copy"), dict(m, seed=kit.seed))
            coll = has_collision(s2)
            last = int(ts2.step_type) == 2
            for pid in ("C03", "C11"):
                res[pid].evaluations += 1
                res[pid].distinct.add((label,) + tuple(sorted((k, str(v)) for k, v in m.items() if k in ("pol", "b", "t", "origin", "k", "action", "level"))))
            res["C11"].count("last:collision" if (last and coll) else "last:limit" if last else "mid")
            res["C07"].count("collision-steps" if coll else "collision-free-steps")
            if last != (coll or int(s2.step_count) >= T):
                kit.fail(["C11", "C03"], "LAST is not exactly (agent collision or step_count >= time_limit)", dict(cfg=label, op="last-cause"), dict(m, seed=kit.seed, collision=coll))
            if not coll:
                call("rw_check_io", ec + enc_state(s2), "check-succ", [1, 1, 1, 1, 1], dict(m, next=describe(s2)))
            return coll

        visited = []
        rolls = [] if cfg.get("private") else [("mask", kit.roll(cfg, 0.0)), ("unif35", kit.roll(cfg, 0.35))]
        if cfg.get("private"):   # reset states only (no extra rollout compilation); the dynamics are covered by the sweeps below
            keys = jax.random.split(jax.random.PRNGKey(kit.seed * 4241 + 5), cfg["batch"])
            st, ts = jax.jit(jax.vmap(env.reset))(keys)
            ts = ts.replace(extras={})
            st, ts = (jax.tree_util.tree_map(lambda x: np.asarray(x)[:, None], t) for t in (st, ts))
            rolls.append(("reset", (env, st, ts, np.zeros((cfg["batch"], 0, A), np.int32), envkit.R.first_last(ts), np.asarray(keys))))
        for pol, roll in rolls:
            _, st, ts, ac, fl, k0 = roll
            B = ac.shape[0]
            s0s = set()
            for b in range(B):
                s0 = envkit.R.slice_tree(st, b, 0)
                ts0 = envkit.R.slice_tree(ts, b, 0)
                where = dict(cfg=label, pol=pol, b=b, t=0)
                # ---- C10: the generator over the draws recovered from the generated state
                dr = ints(np.asarray(s0.agents.position.x) * W + np.asarray(s0.agents.position.y)) + ints(s0.agents.direction) + ints(s0.request_queue)
                exp = [1] + enc_state(s0, False) + [int(ts0.step_type), int(float(np.asarray(ts0.reward)) != 0), int(round(float(np.asarray(ts0.discount))))] + [1]
                call("rw_gen_io", ec + dr, "gen", exp, dict(where, state=describe(s0)), L_gen)
                call("rw_obs_io", ec + enc_state(s0), "obs0", ints(ts0.observation.agents_view) + ints(ts0.observation.action_mask), dict(where, state=describe(s0)), L_obs)
                call("rw_check_io", ec + enc_state(s0), "check", [1, 1, 1, 1, 1], dict(where, state=describe(s0)))
                if int(ts0.observation.step_count) != 0:
                    kit.fail(["C12"], "reset observation step_count != 0", dict(cfg=label, op="obs-copy"), dict(where, seed=kit.seed))
                s0s.add(tuple(enc_state(s0)))
            res["C10"].evaluations += 1
            res["C10"].distinct.add(("key-dependence", label, pol))
            if B >= 4 and len(s0s) < 2:
                kit.fail(["C10"], "generator does not depend on the key (all reset states equal)", dict(cfg=label, op="gen-key"), dict(pol=pol, seed=kit.seed))
            for (b, t, s, a, s2, ts2) in kit.transitions(roll):
                m = dict(cfg=label, pol=pol, b=b, t=t, action=ints(a), state=describe(s),
                         masked=[bool(np.asarray(s.action_mask)[i, int(a[i])]) for i in range(A)])
                add_step(s, a, s2, ts2, m)
                visited.append(s)

        # ---- every joint action from sampled visited states and constructed boundary states, then once more from a sample
        #      of the (non-terminal) successors so that multi-step histories of the constructed states are covered too
        nv, nsyn = {1: (6, 14), 2: (5, 15), 3: (2, 5), 4: (1, 2)}.get(A, (0, 1))
        if not q:
            nv, nsyn = nv * 3, nsyn * 3
        acts = np.asarray(list(itertools.product(range(5), repeat=A)), np.int32) if A <= 4 else kit.rng.integers(0, 5, (300, A)).astype(np.int32)
        idx = kit.rng.permutation(len(visited))[:nv] if visited else []
        rows = [state_row(visited[i]) for i in idx]
        origins = ["visited"] * len(rows)
        syn = synthetic_rows(kit, env, max(nsyn, 1))
        rows += syn
        origins += ["synthetic"] * len(syn)

        def step_noextras(s, a):
            s2, t2 = env.step(s, a)
            return s2, t2.replace(extras={})
        f = jax.jit(jax.vmap(jax.vmap(step_noextras, in_axes=(None, 0)), in_axes=(0, None)))
        J = acts.shape[0]
        pow5 = [5 ** (A - 1 - i) for i in range(A)]
        dxy = {0: (-1, 0), 1: (0, 1), 2: (1, 0), 3: (0, -1)}
        for level in range(2 if (A <= 2 or not q) else 1):
            batch, O = mk_states(env, rows)
            S2, TS2 = f(batch, jnp.asarray(acts))
            S2 = jax.tree_util.tree_map(np.asarray, S2)
            TS2 = jax.tree_util.tree_map(np.asarray, TS2)
            batch_np = jax.tree_util.tree_map(np.asarray, batch)
            succ = []
            for k in range(len(rows)):
                origin = origins[k]
                s = envkit.R.slice_tree(batch_np, k)
                e = ec + enc_state(s)
                mask = np.asarray(s.action_mask)
                wk = dict(cfg=label, origin=origin, k=k, level=level)
                call("rw_check_io", e, "check", [1, 1, 1, 1, 1], dict(wk, state=describe(s)))
                call("rw_obs_io", e, "obs0", ints(O[k]) + ints(mask), dict(wk, state=describe(s)), L_obs)
                px, py = np.asarray(s.agents.position.x), np.asarray(s.agents.position.y)
                car, dr_ = np.asarray(s.agents.is_carrying), np.asarray(s.agents.direction)
                gs = np.asarray(s.grid)[0]
                for j in range(J):
                    a = acts[j]
                    s2 = envkit.R.slice_tree(S2, k, j)
                    ts2 = envkit.R.slice_tree(TS2, k, j)
                    legal = [bool(mask[i, int(a[i])]) for i in range(A)]
                    m = dict(wk, action=ints(a), masked=legal, state=describe(s), all_actions=True)
                    coll = add_step(s, a, s2, ts2, m)
                    if int(ts2.step_type) == 1:
                        succ.append((k, j))
                    x2, y2, c2 = np.asarray(s2.agents.position.x), np.asarray(s2.agents.position.y), np.asarray(s2.agents.is_carrying)
                    # ---- C04 by the env's own reaction: one agent plays FORWARD, the others NOOP
                    movers = [i for i in range(A) if a[i] != 0]
                    if len(movers) == 1 and int(a[movers[0]]) == 1:
                        i = movers[0]
                        tx, ty = px[i] + dxy[int(dr_[i])][0], py[i] + dxy[int(dr_[i])][1]
                        if 0 <= tx < H and 0 <= ty < W:
                            res["C04"].evaluations += 1
                            res["C04"].distinct.add((label, origin, level, k, j))
                            res["C04"].count("lone-forward:%s" % ("masked-in" if legal[i] else "masked-out"))
                            moved = (int(x2[i]), int(y2[i])) != (int(px[i]), int(py[i]))
                            crush = bool(car[i]) and int(gs[tx, ty]) != 0      # executing it would put two shelves on one cell
                            if moved != legal[i] or legal[i] == crush:
                                kit.fail(["C04"], "mask disagrees with the env's reaction to a lone FORWARD (legal move ignored, or a shelf-crushing move allowed/executed)",
                                         dict(cfg=label, op="mask-reaction"), dict(m, seed=kit.seed, moved=moved, crush=crush, next=describe(s2)))
                    # ---- C05: a masked-out FORWARD is a NOOP: same successor as with NOOP, position and holdings kept, no termination on its behalf
                    if not all(legal):
                        res["C05"].evaluations += 1
                        res["C05"].distinct.add((label, origin, level, k, j))
                        res["C05"].count("joint-actions-with-a-masked-forward")
                        bad_i = [i for i in range(A) if not legal[i]]
                        keep = all((int(x2[i]), int(y2[i]), int(c2[i])) == (int(px[i]), int(py[i]), int(car[i]))
                                   and int(np.asarray(s2.grid)[0][px[i], py[i]]) == int(gs[px[i], py[i]]) for i in bad_i)
                        if A <= 4:
                            jj = sum((0 if i in bad_i else int(a[i])) * pow5[i] for i in range(A))
                            r2, rt2 = envkit.R.slice_tree(S2, k, jj), envkit.R.slice_tree(TS2, k, jj)
                            same = (enc_state(s2) == enc_state(r2) and float(ts2.reward) == float(rt2.reward) and int(ts2.step_type) == int(rt2.step_type)
                                    and np.array_equal(ts2.observation.agents_view, rt2.observation.agents_view))
                        else:
                            same = True
                        if not (keep and same):
                            kit.fail(["C05"], "masked-out FORWARD not treated as NOOP (agent moved, dropped/picked a shelf, or the step differs from the NOOP step)",
                                     dict(cfg=label, op="illegal-effect"), dict(m, seed=kit.seed, keep=keep, same_as_noop=same, next=describe(s2)))
            if not succ:
                break
            pick = [succ[int(i)] for i in kit.rng.integers(0, len(succ), len(rows))]     # same batch size: no recompilation
            rows = [state_row(envkit.R.slice_tree(S2, k, j)) for (k, j) in pick]
            origins = ["successor"] * len(rows)

    outs = kit.model(calls)
    for (entry, args), (kind, layout, exp, m), got in zip(calls, metas, outs):
        cid = tuple(sorted((k, str(v)) for k, v in m.items() if k in ("cfg", "pol", "b", "t", "origin", "k", "action", "level")))
        if kind == "step":
            bad = envkit.diff_fields(layout, got, exp)
            illegal = not all(m["masked"])
            for pid in ["C04", "C07", "C12"] + (["C05"] if illegal else []):
                res[pid].evaluations += 1
                res[pid].distinct.add((kind,) + cid)
            res["C07"].count("corr-step")
            rew =exp[1 + sum(n for _, n in layout[1:8]) + 1]
            res["C07"].count("deliveries:%d" % rew)
            if illegal:
                res["C05"].count("masked-forward-steps-replayed")
            if bad:
                blame = set()
                if "action_mask" in bad:
                    blame.add("C04")
                if "agents_view" in bad:
                    blame.add("C12")
                if set(bad) & {"grid_shelves", "grid_agents", "agents", "shelves", "request_queue", "valid_draws", "reward"}:
                    blame |= {"C07"} | ({"C05"} if illegal else set())
                if set(bad) & {"step_count", "step_type"}:
                    blame.add("C11")
                if set(bad) & {"step_type", "discount"}:
                    blame.add("C03")
                if not blame:
                    blame.add("C07")
                kit.fail(sorted(blame), "Impl model and implementation disagree on step (fields %s)" % ",".join(bad), dict(cfg=m["cfg"], op="corr-step", fields=",".join(bad)),
                         dict(m, model=got[:60], impl=exp[:60], seed=kit.seed))
        elif kind == "obs0":
            bad = envkit.diff_fields(layout, got, exp)
            for pid in ("C12", "C04"):
                res[pid].evaluations += 1
                res[pid].distinct.add((kind,) + cid)
            if bad:
                kit.fail(sorted({"C12"} | ({"C04"} if "action_mask" in bad else set())), "observation model and implementation disagree (fields %s)" % ",".join(bad),
                         dict(cfg=m["cfg"], op="corr-obs", fields=",".join(bad)), dict(m, model=got[:80], impl=exp[:80], seed=kit.seed))
        elif kind in ("check", "check-succ"):
            names = ["Inv", "mask-exact", "view-exact", "spec-bounds", "shelf-count"]
            blame = {"Inv": ["C07"], "mask-exact": ["C04"], "view-exact": ["C12"], "spec-bounds": ["C01"], "shelf-count": ["C07"]}
            for i, ev in enumerate(exp):
                for pid in blame[names[i]]:
                    res[pid].evaluations += 1
                    res[pid].distinct.add((kind, names[i]) + cid)
                if got[i] != ev:
                    kit.fail(blame[names[i]], "verified checker %s fails on an implementation state%s" % (names[i], " reached by an arbitrary joint action without collision" if kind == "check-succ" else ""),
                             dict(cfg=m["cfg"], op="checker-" + names[i]), dict(m, kind=kind, seed=kit.seed))
        elif kind == "gen":
            bad = envkit.diff_fields(layout, got, exp)
            res["C10"].evaluations += 1
            res["C10"].distinct.add((kind,) + cid)
            res["C10"].count("generated-states-replayed")
            if bad:
                kit.fail(["C10"] + (["C03"] if set(bad) & {"step_type", "reward", "discount"} else []),
                         "generator model on the recovered draws disagrees with reset, the draws are not valid, or the instance is not well formed (fields %s)" % ",".join(bad),
                         dict(cfg=m["cfg"], op="corr-gen", fields=",".join(bad)), dict(m, model=got[:80], impl=exp[:80], seed=kit.seed))
        elif kind == "layout":
            for pid in ("C10", "C12"):
                res[pid].evaluations += 1
                res[pid].distinct.add((kind,) + cid)
            if got != exp:
                kit.fail(["C10"], "warehouse layout (grid size / highways / goals / shelf cells / feature count) differs from the model's formulas",
                         dict(cfg=m["cfg"], op="layout"), dict(m, model=got[:60], impl=exp[:60]))
    for pid in PROPS:
        res[pid].traces += len(calls)
        if not res[pid].samples and metas:
            res[pid].samples.append(dict(env=NAME, example={k: v for k, v in metas[min(9, len(metas) - 1)][3].items()}))
