"""RubiksCube: correspondence with coq/Model/RubiksCube.v (built on the T1-translated Gen/RubikTables.v) and the
verified checkers evaluated on implementation states.

 * every rollout transition, every action from sampled visited states, directly constructed boundary states
   (one move from solved, step_count = time_limit - 1, out-of-spec actions) replayed through `rubiks_step_io`
   and compared field by field (cube, step_count, step_type, reward, discount, observation);
 * reset: the scramble draw is recovered with the generator's own `generate_actions_for_scramble` on the split key,
   the model's scramble must give the implementation's cube; the model's verified `solution` is then PLAYED on the
   real environment and must end solved with reward 1 (C10/C17: solvable back to the goal);
 * C17 table tie by VALUE: n = 2..7, all 18*floor(n/2) moves of the real `rotate_cube` on the distinct-sticker cube
   against the model, all move PAIRS (composition) against the model, the group identities on the implementation
   alone (cw;acw = id, cw;cw = half, four quarter turns, half;half), flatten/unflatten both ways, the geometric
   reference (`physical_b`) for every move;
 * C08: the episode return is 1 exactly when the final cube is solved (recomputed with NumPy), at most one rewarded step."""
import numpy as np

from harness import envkit

NAME = "rubiks_cube"
PROPS = ["C01", "C08", "C09", "C10", "C11", "C12", "C17"]
APPLIES = PROPS + ["C03"]


def extra_configs(tier, add):
    import jumanji.environments as E
    from jumanji.environments.logic.rubiks_cube.generator import ScramblingGenerator as G

    def mk(n, k):
        return lambda t: E.RubiksCube(generator=G(cube_size=n, num_scrambles_on_reset=k), time_limit=t)
    # near-solved scrambles: random play does solve these, so the "solved" termination/reward branch is exercised
    add("n2s1t5", lambda: mk(2, 1)(5), 8, batch=12, time_limit=5, mk=mk(2, 1))
    add("n3s0t2", lambda: mk(3, 0)(2), 5, time_limit=2, mk=mk(3, 0))          # zero scrambles: reset state is solved
    if tier != "quick":
        add("n3s1t4", lambda: mk(3, 1)(4), 7, batch=12, time_limit=4, mk=mk(3, 1))
        add("n5s2t2", lambda: mk(5, 2)(2), 4, time_limit=2, mk=mk(5, 2))
        add("n6s4t9", lambda: mk(6, 4)(9), 12, time_limit=9, mk=mk(6, 4))
        add("n7s3t5", lambda: mk(7, 3)(5), 8, time_limit=5, mk=mk(7, 3))


def _flat(x):
    return [int(v) for v in np.asarray(x).reshape(-1)]


def _np_solved(cube):
    c = np.asarray(cube)
    return bool(all(len(set(c[f].reshape(-1).tolist())) == 1 for f in range(c.shape[0])))


def _exp_step(s2, ts2):
    return (_flat(s2.cube) + [int(s2.step_count), int(ts2.step_type), int(round(float(ts2.reward))), int(round(float(ts2.discount)))]
            + _flat(ts2.observation.cube) + [int(ts2.observation.step_count)])


def _layout(n):
    return [("cube", 6 * n * n), ("step_count", 1), ("step_type", 1), ("reward", 1), ("discount", 1),
            ("obs.cube", 6 * n * n), ("obs.step_count", 1)]


def _attr(bad):
    pids = {"C09"}
    if "reward" in bad or "step_type" in bad or "discount" in bad:
        pids.add("C08")
    if "step_type" in bad or "step_count" in bad:
        pids.add("C11")
    if "cube" in bad:
        pids.add("C17")
    if any(b.startswith("obs.") for b in bad):
        pids.add("C12")
    return sorted(pids)


CHUNK = 512


def analyze(kit):
    import jax
    import jax.numpy as jnp
    from jumanji.environments.logic.rubiks_cube import utils as U
    from jumanji.environments.logic.rubiks_cube.types import State

    res = kit.res
    calls, metas = [], []
    rot_fns, step_fns = {}, {}

    def rot_batch(n, cubes, acts):
        """real rotate_cube on a batch (one compilation per cube size: fixed chunk of 18*(n//2), padded)"""
        A = 18 * (n // 2)
        if n not in rot_fns:
            rot_fns[n] = jax.jit(jax.vmap(U.rotate_cube))
        cubes = np.asarray(cubes, np.int32)
        acts = np.asarray(acts, np.int32)
        out = []
        for i in range(0, len(acts), A):
            c, a = cubes[i:i + A], acts[i:i + A]
            k = len(a)
            if k < A:
                c = np.concatenate([c, np.repeat(c[:1], A - k, 0)])
                a = np.concatenate([a, np.zeros(A - k, np.int32)])
            out.append(np.asarray(rot_fns[n](jnp.asarray(c), jnp.asarray(a)))[:k])
        return np.concatenate(out) if out else np.zeros((0, 6, n, n), np.int32)

    def run_steps(cfg, cubes, counts, actions):
        """real env.step on a batch of directly constructed states (one compilation per config, padded chunks)"""
        env = kit.env(cfg)
        if cfg["label"] not in step_fns:
            step_fns[cfg["label"]] = jax.jit(jax.vmap(env.step))
        f = step_fns[cfg["label"]]
        cubes = np.asarray(cubes, np.int8)
        counts = np.asarray(counts, np.int32)
        actions = np.asarray(actions, np.int32)
        S, TS = [], []
        for i in range(0, len(counts), CHUNK):
            c, k_, a = cubes[i:i + CHUNK], counts[i:i + CHUNK], actions[i:i + CHUNK]
            m = len(k_)
            if m < CHUNK:
                c = np.concatenate([c, np.repeat(c[:1], CHUNK - m, 0)])
                k_ = np.concatenate([k_, np.zeros(CHUNK - m, np.int32)])
                a = np.concatenate([a, np.zeros((CHUNK - m, 3), np.int32)])
            bs = State(cube=jnp.asarray(c), step_count=jnp.asarray(k_), key=jnp.zeros((CHUNK, 2), jnp.uint32))
            s2, ts2 = f(bs, jnp.asarray(a))
            s2, ts2 = jax.tree_util.tree_map(lambda x: np.asarray(x)[:m], (s2, ts2.replace(extras={})))
            S.append(s2)
            TS.append(ts2)
        cat = lambda *xs: np.concatenate(xs)
        return jax.tree_util.tree_map(cat, *S), jax.tree_util.tree_map(cat, *TS)

    def call(entry, args, kind, exp, meta):
        calls.append((entry, args))
        metas.append((kind, exp, meta))

    solved_fns = {}

    def impl_solved(cube):
        """the implementation's own utils.is_solved on this cube (C17: the solved test accepts exactly 'every face uniform')"""
        c = np.asarray(cube)
        n_ = int(c.shape[-1])
        if n_ not in solved_fns:
            solved_fns[n_] = jax.jit(U.is_solved)
        return bool(solved_fns[n_](jnp.asarray(c, jnp.int8)))

    def reoriented_solved(n):
        """whole-cube rotations of the solved cube reached by LEGAL moves (even sizes only: every layer along one axis turned the
        same way): physically solved, every face uniform, but not the array make_solved_cube returns"""
        out = []
        if n % 2:
            return out
        solved_ = np.asarray(U.make_solved_cube(n))
        for (fa, fb) in [(0, 5), (1, 3), (2, 4)]:
            for amt in (0, 1, 2):       # cw / acw / half turn of the whole cube about this axis
                opp = {0: 1, 1: 0, 2: 2}[amt]
                c = solved_.copy()
                for d in range(n // 2):
                    c = rot_batch(n, c[None], [(fa * (n // 2) + d) * 3 + amt])[0]
                    c = rot_batch(n, c[None], [(fb * (n // 2) + d) * 3 + opp])[0]
                out.append(c)
        return out

    # ------------------------------------------------------------------ rollouts, resets, constructed states
    for cfg in kit.configs():
        env = kit.env(cfg)
        n = int(env.generator.cube_size)
        T = int(env.time_limit)
        K = int(env.generator.num_scrambles_on_reset)
        A = 18 * (n // 2)
        visited = []
        for p in (0.0, 0.35):
            roll = kit.roll(cfg, p)
            _, st, ts, ac, fl, k0 = roll
            B = ac.shape[0]
            # ---- reset: recover the draw from the generator's own sampler on the split key
            keys = jax.vmap(jax.random.split)(jnp.asarray(k0))            # [B, 2, 2]
            draws = np.asarray(jax.jit(jax.vmap(env.generator.generate_actions_for_scramble))(keys[:, 1]))
            for b in range(B):
                s0 = envkit.R.slice_tree(st, b, 0)
                ts0 = envkit.R.slice_tree(ts, b, 0)
                exp = [1] + _exp_step(s0, ts0)
                call("rubiks_init_io", [n, K] + _flat(draws[b]), "init", exp,
                     dict(cfg=cfg["label"], p=p, b=b, n=n, draw=_flat(draws[b]), reset_key=_flat(k0[b])))
                if not np.array_equal(np.asarray(s0.key), np.asarray(keys[b, 0])):
                    kit.fail(["C09"], "reset state key is not the first half of split(key)", dict(cfg=cfg["label"], op="reset-key"), dict(b=b, seed=kit.seed))
                call("rubiks_solution_io", [n, K] + _flat(draws[b]), "solution", None,
                     dict(cfg=cfg["label"], p=p, b=b, n=n, T=T, cube=_flat(s0.cube), draw=_flat(draws[b]), reset_key=_flat(k0[b])))
                # ---- C08: return of the episode vs the final state
                end = min(int(fl[b]), ac.shape[1])
                rews = [float(ts.reward[b, t]) for t in range(1, end + 1)]
                final = np.asarray(st.cube[b, end])
                res["C08"].evaluations += 1
                res["C08"].distinct.add((cfg["label"], p, b))
                if fl[b] <= ac.shape[1]:
                    want = 1.0 if _np_solved(final) else 0.0
                    res["C08"].count("episode-return:%d" % int(want))
                    if sum(rews) != want or any(r != 0 for r in rews[:-1]):
                        kit.fail(["C08"], "episode return is not 1 exactly when the final cube is solved",
                                 dict(cfg=cfg["label"], op="objective"), dict(rewards=rews, final=_flat(final), b=b, p=p, seed=kit.seed))
            # ---- every transition
            for (b, t, s, a, s2, ts2) in kit.transitions(roll):
                a = [int(x) for x in np.asarray(a)]
                call("rubiks_step_io", [n, T] + _flat(s.cube) + [int(s.step_count)] + a, "step", _exp_step(s2, ts2),
                     dict(cfg=cfg["label"], p=p, b=b, t=t, n=n, T=T, action=a, cube=_flat(s.cube), step_count=int(s.step_count), src="rollout"))
                call("rubiks_check_io", [n, T] + _flat(s2.cube) + [int(s2.step_count)], "check",
                     dict(np_solved=_np_solved(s2.cube), impl_solved=impl_solved(s2.cube), reward=float(ts2.reward), last=int(ts2.step_type) == 2),
                     dict(cfg=cfg["label"], p=p, b=b, t=t + 1, n=n, T=T, cube=_flat(s2.cube), step_count=int(s2.step_count)))
                if not np.array_equal(np.asarray(s.key), np.asarray(s2.key)):
                    kit.fail(["C09"], "step changed state.key", dict(cfg=cfg["label"], op="key"), dict(b=b, t=t, seed=kit.seed))
                if len(visited) < 40 and (b + t) % 3 == 0:
                    visited.append(s)
            for b in range(B):
                s0 = envkit.R.slice_tree(st, b, 0)
                call("rubiks_check_io", [n, T] + _flat(s0.cube) + [0], "check",
                     dict(np_solved=_np_solved(s0.cube), impl_solved=impl_solved(s0.cube), reward=None, last=None),
                     dict(cfg=cfg["label"], p=p, b=b, t=0, n=n, T=T, cube=_flat(s0.cube), step_count=0))
        # ---- constructed states: solved cube, one move from solved (all moves), counters at the limit, x EVERY action
        solved = np.asarray(U.make_solved_cube(n))
        cubes = [solved]
        one_away = rot_batch(n, np.repeat(solved[None], A, 0), np.arange(A))
        cubes += [one_away[i] for i in range(A)]
        reo = reoriented_solved(n)
        for c in reo:
            res["C17"].evaluations += 1
            res["C17"].count("reoriented-solved")
            if not _np_solved(c) or np.array_equal(c, solved):
                continue
            cubes.append(c)
            call("rubiks_check_io", [n, T] + _flat(c) + [0], "check", dict(np_solved=True, impl_solved=impl_solved(c), reward=None, last=None),
                 dict(cfg=cfg["label"], p=-2, b=len(cubes), t=0, n=n, T=T, cube=_flat(c), step_count=0))
        if reo:   # one move away from a re-oriented solved cube: the step that solves it must be rewarded and LAST
            cubes += [rot_batch(n, reo[1][None], [a_])[0] for a_ in range(0, A, max(1, A // 6))]
        sel = visited[:: max(1, len(visited) // 6)][:6] if kit.tier == "quick" else visited[:16]
        base = [(c, cnt, "constructed") for c in cubes for cnt in sorted({0, max(0, T - 2), T - 1})]
        base += [(np.asarray(s.cube), int(s.step_count), "visited") for s in sel]
        acts = [(f, d, am) for f in range(6) for d in range(n // 2) for am in range(3)]
        oos = [(6, 0, 0), (-1, 0, 0), (0, n // 2, 0), (5, n // 2 - 1, 3), (0, 0, -1), (7, 1, 2), (0, -1, 1)]   # out of spec: lax.switch clamps
        S_c, S_k, S_a, S_m = [], [], [], []
        for c, cnt, src in base:
            for a in acts + (oos if src == "constructed" and cnt == 0 and len(S_c) < 4000 else []):
                S_c.append(c)
                S_k.append(cnt)
                S_a.append(a)
                S_m.append(src if a in acts else "out-of-spec")
        s2b, ts2b = run_steps(cfg, np.stack(S_c), S_k, S_a)
        for i in range(len(S_c)):
            s2 = jax.tree_util.tree_map(lambda x: x[i], s2b)
            ts2 = jax.tree_util.tree_map(lambda x: x[i], ts2b)
            call("rubiks_step_io", [n, T] + _flat(S_c[i]) + [S_k[i]] + list(S_a[i]), "step", _exp_step(s2, ts2),
                 dict(cfg=cfg["label"], n=n, T=T, action=list(S_a[i]), cube=_flat(S_c[i]), step_count=S_k[i], src=S_m[i], b=-1, t=i, p=-1))
            res["C09"].count("every-action:" + S_m[i])
            if S_m[i] != "out-of-spec":
                call("rubiks_check_io", [n, T] + _flat(s2.cube) + [int(s2.step_count)], "check",
                     dict(np_solved=_np_solved(s2.cube), impl_solved=impl_solved(s2.cube), reward=float(ts2.reward), last=int(ts2.step_type) == 2),
                     dict(cfg=cfg["label"], p=-1, b=-1, t=i, n=n, T=T, cube=_flat(s2.cube), step_count=int(s2.step_count)))
            # C11 directly on the boundary: LAST <=> solved or step_count + 1 >= T
            want_last = (S_k[i] + 1 >= T) or _np_solved(s2.cube)
            res["C11"].evaluations += 1
            res["C11"].distinct.add((cfg["label"], "direct", i))
            if (int(ts2.step_type) == 2) != want_last:
                kit.fail(["C11"], "LAST is not (solved or step_count+1 >= time_limit)", dict(cfg=cfg["label"], op="limit-direct"),
                         dict(cube=_flat(S_c[i]), step_count=S_k[i], action=list(S_a[i]), T=T, n=n, step_type=int(ts2.step_type)))

    # ------------------------------------------------------------------ C17: tables by value, n = 2..7
    sizes = [2, 3, 4, 5, 6, 7]
    impl_moves = {}
    for n in sizes:
        A = 18 * (n // 2)
        idc = np.arange(6 * n * n, dtype=np.int32).reshape(6, n, n)
        one = rot_batch(n, np.repeat(idc[None], A, 0), np.arange(A))                # [A, 6, n, n]
        impl_moves[n] = one
        for a in range(A):
            call("rubiks_moves_io", [n] + _flat(idc) + [1, a], "move", _flat(one[a]), dict(n=n, a=a))
        # pairs: impl composition [A, A, ...]
        two = rot_batch(n, np.repeat(one, A, 0), np.tile(np.arange(A), A)).reshape(A, A, 6, n, n)   # two[a][b] = b after a
        chunk = max(1, 6 if n >= 6 else A)
        for a0 in range(0, A, chunk):
            k = min(chunk, A - a0)
            call("rubiks_pairs_io", [n, a0, k], "pairs", _flat(two[a0:a0 + k]), dict(n=n, a0=a0, k=k))
        # group identities on the implementation alone
        perm = one.reshape(A, -1)
        ident = np.arange(6 * n * n)
        for f in range(6):
            for d in range(n // 2):
                cw, acw, half = (f * (n // 2) + d) * 3, (f * (n // 2) + d) * 3 + 1, (f * (n // 2) + d) * 3 + 2
                checks = {
                    "cw;acw=id": np.array_equal(two[cw][acw].reshape(-1), ident),
                    "acw;cw=id": np.array_equal(two[acw][cw].reshape(-1), ident),
                    "cw;cw=half": np.array_equal(two[cw][cw], one[half]),
                    "acw;acw=half": np.array_equal(two[acw][acw], one[half]),
                    "half;half=id": np.array_equal(two[half][half].reshape(-1), ident),
                    "cw^4=id": np.array_equal(perm[cw][perm[cw][perm[cw][perm[cw]]]], ident) and np.array_equal(perm[acw][perm[acw][perm[acw][perm[acw]]]], ident),
                    "is-permutation": all(sorted(perm[m].tolist()) == ident.tolist() for m in (cw, acw, half)),
                    "not-identity": not np.array_equal(perm[cw], ident),
                }
                for nm, ok in checks.items():
                    res["C17"].evaluations += 1
                    res["C17"].count("impl-identity:" + nm)
                    if not ok:
                        kit.fail(["C17"], "group identity %s fails on the implementation" % nm, dict(op="group-" + nm, n=n),
                                 dict(n=n, face=f, depth=d, seed=kit.seed))
                res["C17"].distinct.add(("group", n, f, d))
        # flatten / unflatten both ways, against the real functions
        trip = [(f, d, am) for f in range(6) for d in range(n // 2) for am in range(3)]
        fl_impl = [int(U.flatten_action(np.asarray(t), n)) for t in trip]
        un_impl = [[int(x) for x in np.asarray(U.unflatten_action(np.asarray(a), n))] for a in range(A)]
        call("rubiks_flatten_io", [n, len(trip)] + [x for t in trip for x in t], "flatten", fl_impl, dict(n=n))
        call("rubiks_unflatten_io", [n, A] + list(range(A)), "unflatten", [x for u in un_impl for x in u], dict(n=n))
        res["C17"].evaluations += 2
        if fl_impl != list(range(A)) or [tuple(u) for u in un_impl] != trip:
            kit.fail(["C17"], "flatten_action / unflatten_action are not mutually inverse enumerations", dict(op="flatten-inverse", n=n), dict(n=n))
        call("rubiks_physical_io", [n], "physical", [1] * A, dict(n=n))

    # ------------------------------------------------------------------ model calls
    outs = kit.model(calls)
    sol_jobs = []
    for (entry, args), (kind, exp, m), got in zip(calls, metas, outs):
        if kind in ("step", "init"):
            lay = _layout(m["n"])
            if kind == "init":
                lay = [("valid_draw", 1)] + lay
            bad = envkit.diff_fields(lay, got, exp)
            for pid in ("C09", "C12"):
                res[pid].evaluations += 1
            res["C09"].distinct.add((m["cfg"], kind, m.get("src"), m["p"], m["b"], m.get("t", 0)))
            res["C12"].distinct.add((m["cfg"], kind, m["p"], m["b"], m.get("t", 0)))
            if kind == "init":
                res["C10"].evaluations += 1
                res["C10"].distinct.add((m["cfg"], m["p"], m["b"]))
            if bad:
                pids = _attr(bad) + (["C10"] if kind == "init" else [])
                kit.fail(sorted(set(pids)), "model and implementation disagree on %s (fields %s)" % (kind, ",".join(bad)),
                         dict(cfg=m["cfg"], op="corr-" + kind, fields=",".join(bad)),
                         dict(m, model=got[-8:] if len(got) > 60 else got, impl=exp[-8:] if len(exp) > 60 else exp, seed=kit.seed))
        elif kind == "check":
            shape_ok, in_spec, balanced, solved_decl, solved_impl_model, cnt_ok = got
            for pid in ("C01", "C10", "C17", "C08"):
                res[pid].evaluations += 1
            res["C01"].distinct.add((m["cfg"], m["p"], m["b"], m["t"]))
            res["C17"].distinct.add((m["cfg"], m["p"], m["b"], m["t"]))
            if not (shape_ok and in_spec and cnt_ok):
                kit.fail(["C01"], "state outside the declared spec (shape / stickers in 0..5 / 0 <= step_count <= time_limit)",
                         dict(cfg=m["cfg"], op="in-spec"), dict(m, got=got, seed=kit.seed))
            if not balanced:
                kit.fail(["C17", "C10"], "multiset of stickers not conserved (some colour does not occur n*n times)",
                         dict(cfg=m["cfg"], op="multiset"), dict(m, seed=kit.seed))
            if not (bool(solved_decl) == bool(solved_impl_model) == exp["np_solved"]):
                kit.fail(["C17", "C08"], "solved test differs from 'every face uniform'", dict(cfg=m["cfg"], op="solved-exact"), dict(m, got=got, seed=kit.seed))
            if "impl_solved" in exp and exp["impl_solved"] != bool(solved_decl):
                kit.fail(["C17"], "the implementation's is_solved differs from 'every face uniform' (verified checker) on this cube",
                         dict(cfg=m["cfg"], op="solved-exact-impl"), dict(m, impl_is_solved=exp["impl_solved"], every_face_uniform=bool(solved_decl), seed=kit.seed))
            if exp["reward"] is not None:
                res["C08"].count("reward:%d" % int(exp["reward"]))
                if (exp["reward"] == 1.0) != bool(solved_decl) or exp["reward"] not in (0.0, 1.0) or (bool(solved_decl) and not exp["last"]):
                    kit.fail(["C08", "C09", "C17"], "reward is not 1 exactly when the cube is solved / solved step is not LAST",
                             dict(cfg=m["cfg"], op="reward-solved"), dict(m, reward=exp["reward"], seed=kit.seed))
        elif kind == "solution":
            sol_jobs.append((m, got))
        elif kind in ("move", "pairs", "flatten", "unflatten", "physical"):
            res["C17"].evaluations += 1
            res["C17"].distinct.add((kind, m["n"], m.get("a", m.get("a0", 0))))
            res["C17"].count("tables-by-value:" + kind, (m.get("k", 1) * 18 * (m["n"] // 2)) if kind == "pairs" else 1)
            if got != exp:
                if kind == "physical":
                    what = "a move is not the physical layer rotation (geometric reference, model on translated tables)"
                else:
                    what = "translated tables / model disagree with the real %s" % {"move": "rotate_cube", "pairs": "rotate_cube composition",
                                                                                 "flatten": "flatten_action", "unflatten": "unflatten_action"}[kind]
                wrong = [i for i, (x, y) in enumerate(zip(got, exp)) if x != y][:6]
                kit.fail(["C17"] + (["C09"] if kind in ("move", "pairs") else []), what, dict(op="tables-" + kind, n=m["n"]),
                         dict(m, first_diffs=wrong, model=[got[i] for i in wrong], impl=[exp[i] for i in wrong], seed=kit.seed))

    # ------------------------------------------------------------------ play the verified solutions on the REAL environment
    by_cfg = {}
    for m, sol in sol_jobs:
        by_cfg.setdefault(m["cfg"], []).append((m, sol))
    for cfg in kit.configs():
        jobs = by_cfg.get(cfg["label"], [])
        if not jobs:
            continue
        env = kit.env(cfg)
        n = int(env.generator.cube_size)
        K = int(env.generator.num_scrambles_on_reset)
        T = int(env.time_limit)
        cur = np.stack([np.asarray(m["cube"]).reshape(6, n, n) for m, _ in jobs]).astype(np.int32)
        sols = np.asarray([s_ for _, s_ in jobs], np.int32).reshape(len(jobs), K)
        pen = cur
        for k in range(K):
            pen = cur
            cur = rot_batch(n, cur, sols[:, k])
        goal = np.asarray(U.make_solved_cube(n))
        for (m, sol), c in zip(jobs, cur):
            for pid in ("C10", "C17"):
                res[pid].evaluations += 1
            res["C10"].distinct.add((m["cfg"], "solved-back", m["p"], m["b"]))
            res["C10"].count("solution-played-on-impl")
            if not np.array_equal(c, goal):
                kit.fail(["C10", "C17"], "the verified inverse sequence does not bring the scrambled cube back to the goal on the implementation",
                         dict(cfg=m["cfg"], op="solve-back"), dict(m, solution=sol, seed=kit.seed))
        # the last solving move through the real env.step: reward 1, LAST
        if K >= 1:
            last = np.asarray([[int(x) for x in np.asarray(un)] for un in np.asarray(jax.vmap(lambda a: U.unflatten_action(a, n))(jnp.asarray(sols[:, -1])))])
            s2, ts2 = run_steps(cfg, pen, np.zeros(len(jobs), np.int32), last)
            for j, (m, sol) in enumerate(jobs):
                res["C08"].evaluations += 1
                if not (float(ts2.reward[j]) == 1.0 and int(ts2.step_type[j]) == 2 and float(ts2.discount[j]) == 0.0):
                    kit.fail(["C08", "C09"], "solving move does not give reward 1 and LAST", dict(cfg=m["cfg"], op="solve-reward"),
                             dict(m, reward=float(ts2.reward[j]), step_type=int(ts2.step_type[j]), seed=kit.seed))
    for pid in PROPS:
        res[pid].traces += len(calls)
        if not res[pid].samples:
            ex = [m for (k, e, m) in metas if k == ("move" if pid == "C17" else "step")][:1]
            res[pid].samples.append(dict(env=NAME, example={k: v for k, v in (ex[0] if ex else {}).items() if k != "cube"}))
