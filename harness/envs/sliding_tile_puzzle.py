"""SlidingTilePuzzle: correspondence with coq/Model/SlidingTile.v + verified checkers on implementation states.

What is done here (all on the REAL jumanji implementation, jitted):
  * every transition of every rollout (both policies, also the steps after LAST) is replayed in the extracted model
    (`stp_step_io`) and compared field by field: state, observation, step type, reward, discount        (C09, C04, C05, C08, C12)
  * every reset is replayed (`stp_reset_io`), the generator's random walk is re-run with the real `_make_random_move`,
    the draws are recovered from the successive blank positions, must satisfy the oracle contract `valid_draws`, and the
    model generator over those draws must give the implementation's board (`stp_gen_io`); the reversed opposite
    draws must solve the puzzle both in the model (`stp_solve_io`) and on the real env                      (C10, C17)
  * the verified boolean checkers (`stp_check_io`: mask = legal_b, wf_b, perm_b, blank_ok_b) run on every visited state  (C04, C10, C17)
  * from every non-terminal visited state EVERY action is tried on the real `env.step` under vmap; the env's own reaction
    (board changed or not) judges the mask; illegal actions must leave everything but the step counter alone          (C04, C05)
  * returns are recomputed in float64 NumPy from the raw first/last boards; a twin environment with the other reward
    function is run on the same keys and actions                                                                        (C08)
  * C17 sweep: breadth-first search of the state space *driven by the real env.step under vmap* from the goal:
    the ENTIRE reachable space of 2x2 (12 states) always, 3x3 (181440 states) in the thorough tier (a BFS prefix in the quick
    tier), x 4 actions, each successor compared with the model (`stp_sweep_io`) together with the law flags.
Rewards are integral floats and are compared exactly (a non-integral reward is reported)."""
import math

import numpy as np

from harness import envkit

R = envkit.R
NAME = "sliding_tile_puzzle"
PROPS = ["C04", "C05", "C08", "C09", "C10", "C12", "C17"]
APPLIES = PROPS
MOVES = [(-1, 0), (0, 1), (1, 0), (0, -1)]
BADR = 987654321


def _mk(n, k, sparse, T):
    from jumanji.environments import SlidingTilePuzzle
    from jumanji.environments.logic.sliding_tile_puzzle import reward as RW
    from jumanji.environments.logic.sliding_tile_puzzle.generator import RandomWalkGenerator as G
    return SlidingTilePuzzle(generator=G(grid_size=n, num_random_moves=k),
                             reward_fn=RW.SparseRewardFn() if sparse else RW.DenseRewardFn(), time_limit=T)


def extra_configs(tier, add):
    def a(label, n, k, sparse, T, steps, **kw):
        add(label, lambda: _mk(n, k, sparse, T), steps, time_limit=T, mk=lambda t: _mk(n, k, sparse, t), **kw)
    a("g2sparse-t9", 2, 5, True, 9, 12)          # minimum size, sparse reward, solved often by the masked policy
    a("g3sparse-t12", 3, 2, True, 12, 15)
    a("g2m0-t4", 2, 0, False, 4, 6)              # zero random moves: reset state IS the goal (boundary)
    a("g6t16", 6, 40, False, 16, 18, batch=3)    # larger, even size
    if tier != "quick":
        a("g3m1sparse-t5", 3, 1, True, 5, 7)     # one move from the goal
        a("g7sparse-t50", 7, 300, True, 50, 53, batch=4)
        a("g2t200", 2, 11, False, 200, 203, batch=4)
        a("g4t2", 4, 33, True, 2, 4)


def params(env):
    from jumanji.environments.logic.sliding_tile_puzzle.reward import DenseRewardFn, SparseRewardFn
    n = int(env.generator.grid_size)
    rf = env.reward_fn
    rw = 0 if type(rf) is DenseRewardFn else 1 if type(rf) is SparseRewardFn else None
    return n, int(env.time_limit), rw


def ints(x):
    return [int(v) for v in np.asarray(x).reshape(-1)]


def rcode(r):
    r = float(r)
    return int(r) if r == math.floor(r) and abs(r) < 1e9 else BADR


def enc_board(p, e):
    return ints(p) + ints(e)


def enc_state(s):
    return enc_board(s.puzzle, s.empty_tile_position) + [int(s.step_count)] + ints(s.key)


def enc_obs(o):
    return enc_board(o.puzzle, o.empty_tile_position) + ints(o.action_mask) + [int(o.step_count)]


def enc_ts(ts):
    return [int(ts.step_type), rcode(ts.reward), rcode(ts.discount)]


def layout(n):
    return [("puzzle", n * n), ("empty_tile_position", 2), ("step_count", 1), ("key", 2),
            ("obs.puzzle", n * n), ("obs.empty_tile_position", 2), ("obs.action_mask", 4), ("obs.step_count", 1),
            ("step_type", 1), ("reward", 1), ("discount", 1)]


def np_goal(n):
    """the documented goal, written independently of the implementation"""
    g = np.arange(1, n * n + 1)
    g[-1] = 0
    return g.reshape(n, n)


def attribute(bad, illegal):
    pids = {"C09"}
    if any(f.endswith("action_mask") for f in bad):
        pids |= {"C04", "C12"}
    if any(f.startswith("obs.") for f in bad):
        pids.add("C12")
    if "reward" in bad:
        pids.add("C08")
    if illegal:
        pids.add("C05")
    return sorted(pids)


def stack_states(st, idx):
    """numpy pytree [B, T+1, ...] + list of (b, t) -> batched pytree [K, ...]"""
    import jax
    bs = np.asarray([b for b, _ in idx])
    tsx = np.asarray([t for _, t in idx])
    return jax.tree_util.tree_map(lambda x: x[bs, tsx], st)


_all_actions_cache = {}


class _Rec:
    def __init__(self, **kw):
        self.__dict__.update(kw)


def all_actions(env, states):
    """real env.step for every state of the batch x every action, under jit+vmap (padded to a power of two)"""
    import jax
    import jax.numpy as jnp
    k = id(env)
    if k not in _all_actions_cache:
        f = jax.jit(jax.vmap(lambda s: jax.vmap(lambda a: env.step(s, a))(jnp.arange(4, dtype=jnp.int32))))
        _all_actions_cache[k] = (f, env)
    f = _all_actions_cache[k][0]
    K = int(np.asarray(states.step_count).shape[0])
    P = 1
    while P < K:
        P *= 2
    pad = jax.tree_util.tree_map(lambda x: np.concatenate([x, np.repeat(x[:1], P - K, 0)], 0) if P > K else x, states)
    s2, ts2 = f(pad)
    cut = lambda t: jax.tree_util.tree_map(lambda x: np.asarray(x)[:K], t)
    return cut(s2), cut(ts2)


def gen_trace(env, key):
    """re-runs reset's key handling and RandomWalkGenerator.__call__ with the REAL `_make_random_move`, recording the blank
    position after every random move -> (final puzzle, final blank, blanks [k,2])"""
    import jax
    import jax.numpy as jnp
    g = env.generator
    n = g.grid_size

    def f(key):
        _, subkey = jax.random.split(key)
        _, moves_key = jax.random.split(subkey)
        keys = jax.random.split(moves_key, g.num_random_moves)

        def body(carry, k):
            new = g._make_random_move(k, *carry)
            return new, new[1]
        (p, e), es = jax.lax.scan(body, (g.make_solved_puzzle(), jnp.array([n - 1, n - 1])), keys)
        return p, e, es
    return f


def _player(env_, with_first):
    """jitted, vmapped: reset(key) then the given actions on env_ -> per-step (puzzle, [blank,] step_type, reward[, mask[a]])"""
    import jax

    def one(key, acts):
        s, t0 = env_.reset(key)

        def body(s, a):
            s2, t2 = env_.step(s, a)
            if with_first:
                return s2, (s2.puzzle, s2.empty_tile_position, t2.step_type, t2.reward)
            return s2, (s2.puzzle, t2.step_type, t2.reward, t2.observation.action_mask[a])
        _, out = jax.lax.scan(body, s, acts)
        return (s.puzzle, out) if with_first else out
    return jax.jit(jax.vmap(one))


def analyze(kit):
    import jax
    import jax.numpy as jnp
    from jumanji.environments.logic.sliding_tile_puzzle.types import State
    calls, metas = [], []
    res = kit.res

    def call(entry, args, kind, exp, meta, lay=None):
        calls.append((entry, args))
        metas.append((kind, lay, exp, meta))

    for cfg in kit.configs():
        env = kit.env(cfg)
        n, T, rw = params(env)
        if rw is None:
            continue
        lab = cfg["label"]
        lay = layout(n)
        goal = np_goal(n)
        if not np.array_equal(np.asarray(env.solved_puzzle), goal):
            kit.fail(["C09", "C17"], "solved_puzzle is not 1..n^2-1 followed by the blank", dict(cfg=lab, op="goal"), dict(n=n, got=np.asarray(env.solved_puzzle).tolist()))
        call("stp_goal_io", [n], "goal", enc_board(env.solved_puzzle, [n - 1, n - 1]), dict(cfg=lab))
        K = int(env.generator.num_random_moves)
        big = cfg["tags"]["mk"](T + K + 8) if "mk" in cfg["tags"] else None
        twin = None
        if "mk" in cfg["tags"]:
            twin = _mk(n, K, rw == 0, T)   # the OTHER reward function, same generator parameters and time limit
        tracer = jax.jit(jax.vmap(gen_trace(env, None)))
        play_big = _player(big, False) if big is not None else None
        play_twin = _player(twin, True) if twin is not None else None
        for p in (0.0, 0.35):
            roll = kit.roll(cfg, p)
            _, st, ts, ac, fl, k0 = roll
            B, TT = ac.shape
            # ---------- reset: model reset, generator over recovered draws, solvability on the real env ----------
            gp, ge, ges = (np.asarray(x) for x in tracer(jnp.asarray(k0)))
            boards0 = set()
            for b in range(B):
                s0 = R.slice_tree(st, b, 0)
                ts0 = R.slice_tree(ts, b, 0)
                where = dict(cfg=lab, p=p, b=b, t=0)
                call("stp_reset_io", [n] + enc_state(s0), "reset", enc_state(s0) + enc_obs(ts0.observation) + enc_ts(ts0), where, lay)
                boards0.add(tuple(ints(s0.puzzle)))
                if not (np.array_equal(gp[b], s0.puzzle) and np.array_equal(ge[b], s0.empty_tile_position)):
                    kit.fail(["C10"], "re-running the generator's walk does not give reset's board (harness tie broke)", dict(cfg=lab, op="gen-trace"),
                             dict(where, key=ints(k0[b]), seed=kit.seed))
                prev = np.array([n - 1, n - 1])
                draws = []
                for e in ges[b]:
                    d = tuple(int(x) for x in (e - prev))
                    draws.append(MOVES.index(d) if d in MOVES else 9)
                    prev = e
                res["C10"].count("draws", len(draws))
                call("stp_gen_io", [n, len(draws)] + draws, "gen", enc_board(s0.puzzle, s0.empty_tile_position) + [1],
                     dict(where, draws=draws, key=ints(k0[b])))
                sol = [(d + 2) % 4 for d in reversed(draws)]
                call("stp_cert_io", [n] + enc_board(s0.puzzle, s0.empty_tile_position) + [len(draws)] + draws, "cert", [1], dict(where, draws=draws))
                call("stp_solve_io", [n] + enc_board(s0.puzzle, s0.empty_tile_position) + [len(sol)] + sol, "solve",
                     enc_board(goal, [n - 1, n - 1]) + [1, 1], dict(where, solution=sol, board=ints(s0.puzzle)))
            if K >= 3 and n >= 2 and B >= 4:
                res["C10"].evaluations += 1
                if len(boards0) < 2:
                    kit.fail(["C10"], "generator does not depend on the key", dict(cfg=lab, op="key-dependence"), dict(p=p, boards=len(boards0), seed=kit.seed))
            # the reversed opposite walk solves the puzzle ON THE REAL ENV (C10) and its return is the objective (C08)
            if big is not None and K > 0:
                sols = np.zeros((B, K), dtype=np.int32)
                for b in range(B):
                    prev = np.array([n - 1, n - 1])
                    ds = []
                    for e in ges[b]:
                        d = tuple(int(x) for x in (e - prev))
                        ds.append(MOVES.index(d) if d in MOVES else 0)
                        prev = e
                    sols[b] = [(d + 2) % 4 for d in reversed(ds)]

                pz, sty, rews, _ = (np.asarray(x) for x in play_big(jnp.asarray(k0), jnp.asarray(sols)))
                for b in range(B):
                    res["C10"].evaluations += 1
                    res["C08"].evaluations += 1
                    w = np.where(sty[b] == 2)[0]
                    s0p = np.asarray(st.puzzle[b, 0])
                    solved_at_start = np.array_equal(s0p, goal)
                    if not len(w) or not np.array_equal(pz[b, w[0]], goal):
                        kit.fail(["C10", "C17"], "the reversed random walk does not solve the generated puzzle on the real env", dict(cfg=lab, op="solve-real"),
                                 dict(p=p, b=b, key=ints(k0[b]), solution=sols[b].tolist(), seed=kit.seed))
                        continue
                    f = int(w[0])
                    ret = float(np.sum(rews[b, :f + 1], dtype=np.float64))
                    want = float((goal == goal).sum() - (s0p == goal).sum()) if rw == 0 else 1.0
                    res["C08"].distinct.add((lab, p, b, "solved"))
                    res["C08"].count("solved-episodes")
                    if ret != want and not solved_at_start:
                        kit.fail(["C08"], "return of a solving episode is not the documented objective", dict(cfg=lab, op="objective-solved"),
                                 dict(p=p, b=b, ret=ret, want=want, rw=rw, key=ints(k0[b]), actions=sols[b, :f + 1].tolist(), seed=kit.seed))
            # ---------- every recorded transition (also after LAST) against the model ----------
            for (b, t, s, a, s2, ts2) in kit.transitions(roll, upto_last=False):
                msk = np.asarray(R.slice_tree(ts, b, t).observation.action_mask)
                call("stp_step_io", [n, T, rw] + enc_state(s) + [int(a)], "step", enc_state(s2) + enc_obs(ts2.observation) + enc_ts(ts2),
                     dict(cfg=lab, p=p, b=b, t=t, action=int(a), legal=bool(msk[int(a)]), after_last=bool(t >= fl[b]),
                          state=dict(puzzle=ints(s.puzzle), blank=ints(s.empty_tile_position), step_count=int(s.step_count)), n=n, T=T, rw=rw), lay)
            # ---------- verified checkers on every visited state (up to and including the first LAST) ----------
            for b in range(B):
                for t in range(min(TT, fl[b]) + 1):
                    s = R.slice_tree(st, b, t)
                    o = R.slice_tree(ts, b, t).observation
                    where = dict(cfg=lab, p=p, b=b, t=t, state=dict(puzzle=ints(s.puzzle), blank=ints(s.empty_tile_position), mask=ints(o.action_mask)))
                    call("stp_check_io", [n] + enc_board(s.puzzle, s.empty_tile_position) + ints(o.action_mask), "check",
                         [1, 1, 1, 1], dict(where, n=n, correct=int((np.asarray(s.puzzle) == goal).sum()), solved=int(np.array_equal(s.puzzle, goal))))
                    # C12: copied fields equal their state counterparts
                    res["C12"].evaluations += 1
                    res["C12"].distinct.add((lab, p, b, t))
                    if not (np.array_equal(o.puzzle, s.puzzle) and np.array_equal(o.empty_tile_position, s.empty_tile_position)
                            and int(o.step_count) == int(s.step_count)):
                        kit.fail(["C12"], "observation differs from the state it views", dict(cfg=lab, op="obs-copy"), dict(where, seed=kit.seed))
            # ---------- C08: returns recomputed in float64 NumPy from the raw first / final boards ----------
            for b in range(B):
                f = int(min(TT, fl[b]))
                if f == 0:
                    continue
                ret = float(np.sum(np.asarray(ts.reward[b, 1:f + 1], np.float64)))
                first, final = np.asarray(st.puzzle[b, 0]), np.asarray(st.puzzle[b, f])
                dense_obj = float((final == goal).sum()) - float((first == goal).sum())
                sparse_obj = float(np.array_equal(final, goal)) if fl[b] <= TT else 0.0
                want = dense_obj if rw == 0 else sparse_obj
                res["C08"].evaluations += 1
                res["C08"].distinct.add((lab, p, b))
                res["C08"].count("return:%s" % ("dense" if rw == 0 else "sparse"))
                if np.array_equal(final, goal):
                    res["C08"].count("episodes-ending-solved")
                if ret != want:
                    kit.fail(["C08"], "episode return is not the documented objective recomputed from the final state", dict(cfg=lab, op="objective"),
                             dict(p=p, b=b, ret=ret, want=want, rw=rw, first=first.tolist(), final=final.tolist(), key=ints(k0[b]), actions=ac[b, :f].tolist(), seed=kit.seed))
            # twin environment (other reward function): same keys, same actions -> same states and step types; the two returns
            # are the two documented objectives of the SAME final state
            if twin is not None:
                p0, (pz, ez, sty, rews) = play_twin(jnp.asarray(k0), jnp.asarray(ac))
                p0, pz, ez, sty, rews = (np.asarray(x) for x in (p0, pz, ez, sty, rews))
                for b in range(B):
                    res["C08"].evaluations += 1
                    same = (np.array_equal(p0[b], st.puzzle[b, 0]) and np.array_equal(pz[b], st.puzzle[b, 1:]) and np.array_equal(ez[b], st.empty_tile_position[b, 1:])
                            and np.array_equal(sty[b], ts.step_type[b, 1:]))
                    if not same:
                        kit.fail(["C08", "C09"], "dense and sparse environments do not follow the same trajectory on the same key and actions", dict(cfg=lab, op="twin-trajectory"),
                                 dict(p=p, b=b, key=ints(k0[b]), actions=ac[b].tolist(), seed=kit.seed))
                        continue
                    f = int(min(TT, fl[b]))
                    if f == 0:
                        continue
                    ret2 = float(np.sum(rews[b, :f], dtype=np.float64))
                    first, final = np.asarray(st.puzzle[b, 0]), np.asarray(st.puzzle[b, f])
                    want2 = (float(np.array_equal(final, goal)) if fl[b] <= TT else 0.0) if rw == 0 else float((final == goal).sum()) - float((first == goal).sum())
                    res["C08"].count("twin-return")
                    if ret2 != want2:
                        kit.fail(["C08"], "twin reward function: return is not its documented objective on the same trajectory", dict(cfg=lab, op="objective-twin"),
                                 dict(p=p, b=b, ret=ret2, want=want2, twin_rw=1 - rw, key=ints(k0[b]), actions=ac[b, :f].tolist(), seed=kit.seed))
            # ---------- EVERY action from every non-terminal visited state on the real env (vmap) ----------
            idx = [(b, t) for b in range(B) for t in range(min(TT, fl[b]))]
            if idx:
                S = stack_states(st, idx)
                S2, TS2 = all_actions(env, S)
                sweep_args = []
                for k, (b, t) in enumerate(idx):
                    s = R.slice_tree(S, k)
                    msk = np.asarray(ts.observation.action_mask[b, t])
                    solved = np.array_equal(s.puzzle, goal)
                    for a in range(4):
                        s2 = _Rec(puzzle=S2.puzzle[k, a], empty_tile_position=S2.empty_tile_position[k, a], key=S2.key[k, a], step_count=S2.step_count[k, a])
                        t2 = _Rec(step_type=TS2.step_type[k, a], reward=TS2.reward[k, a], discount=TS2.discount[k, a],
                                  extras=dict(prop_correctly_placed=TS2.extras["prop_correctly_placed"][k, a]),
                                  observation=_Rec(puzzle=TS2.observation.puzzle[k, a], empty_tile_position=TS2.observation.empty_tile_position[k, a],
                                                   action_mask=TS2.observation.action_mask[k, a], step_count=TS2.observation.step_count[k, a]))
                        where = dict(cfg=lab, p=p, b=b, t=t, action=a, legal=bool(msk[a]), all_actions=True,
                                     state=dict(puzzle=ints(s.puzzle), blank=ints(s.empty_tile_position), step_count=int(s.step_count)), n=n, T=T, rw=rw)
                        call("stp_step_io", [n, T, rw] + enc_state(s) + [a], "step", enc_state(s2) + enc_obs(t2.observation) + enc_ts(t2), where, lay)
                        changed = not (np.array_equal(s2.puzzle, s.puzzle) and np.array_equal(s2.empty_tile_position, s.empty_tile_position))
                        # C04 by the env's own reaction: masked-in <=> the move happens
                        res["C04"].evaluations += 1
                        res["C04"].distinct.add((lab, p, b, t, a))
                        res["C04"].count("mask:%s" % ("in" if msk[a] else "out"))
                        if changed != bool(msk[a]):
                            kit.fail(["C04"], "mask entry disagrees with the env's own reaction (masked-in move ignored / masked-out move executed)",
                                     dict(cfg=lab, op="mask-reaction"), dict(where, changed=changed, seed=kit.seed))
                        if not msk[a]:
                            # C05: ignored, episode continues
                            res["C05"].evaluations += 1
                            res["C05"].distinct.add((lab, p, b, t, a))
                            res["C05"].count("illegal-action-steps")
                            cont = solved or int(s.step_count) + 1 >= T or (int(t2.step_type) == 1 and float(t2.discount) == 1.0)
                            quiet = (not changed and np.array_equal(s2.key, s.key) and int(s2.step_count) == int(s.step_count) + 1
                                     and (float(t2.reward) == 0.0 or (solved and rw == 1)))
                            if solved:
                                res["C05"].count("illegal-on-solved-board")
                            if not (cont and quiet):
                                kit.fail(["C05"], "illegal move is not simply ignored (state changed, reward given or episode ended)", dict(cfg=lab, op="ignore-invalid"),
                                         dict(where, step_type=int(t2.step_type), reward=float(t2.reward), changed=changed, seed=kit.seed))
                        # extras: proportion of correctly placed tiles of the successor (float32 division, tolerance 1e-6)
                        pc = float(t2.extras["prop_correctly_placed"])
                        if abs(pc - float((np.asarray(s2.puzzle) == goal).sum()) / (n * n)) > 1e-6:
                            kit.fail(["C12"], "extras.prop_correctly_placed is not (#cells equal to the goal)/n^2", dict(cfg=lab, op="extras"), dict(where, got=pc, seed=kit.seed))
                    sweep_args.append(enc_board(s.puzzle, s.empty_tile_position))
                # group laws on the visited states of larger grids ("larger grids by random walks")
                for i in range(0, len(sweep_args), 64):
                    chunk = sweep_args[i:i + 64]
                    call("stp_sweep_io", [n, len(chunk)] + [x for c in chunk for x in c], "laws", None, dict(cfg=lab, p=p, n=n, states=chunk))

    # ---------------- C17: state-space sweep driven by the real implementation ----------------
    sweeps = [(2, None), (3, None if kit.tier != "quick" else 2500)]
    if kit.tier != "quick":
        sweeps.append((4, 20000))
    for n, cap in sweeps:
        sweep(kit, n, cap, call)

    outs = kit.model(calls)
    for (entry, args), (kind, lay, exp, m), got in zip(calls, metas, outs):
        cfg = m.get("cfg")
        if kind in ("step", "reset"):
            bad = envkit.diff_fields(lay, got, exp)
            illegal = kind == "step" and not m["legal"]
            for pid in ("C09", "C12"):
                res[pid].evaluations += 1
            res["C09"].distinct.add((cfg, m["p"], m["b"], m["t"], m.get("action"), m.get("all_actions", False)))
            res["C09"].count("kind:" + kind + (":after-last" if m.get("after_last") else ""))
            if illegal:
                res["C05"].evaluations += 1
            if bad:
                kit.fail(attribute(bad, illegal), "model and implementation disagree on %s (fields %s)" % (kind, ",".join(bad)),
                         dict(cfg=cfg, op="corr-" + kind, fields=",".join(bad)), dict(m, model=got, impl=exp, seed=kit.seed))
        elif kind == "goal":
            res["C17"].evaluations += 1
            if got != exp:
                kit.fail(["C17", "C09"], "model goal differs from env.solved_puzzle", dict(cfg=cfg, op="corr-goal"), dict(m, model=got, impl=exp))
        elif kind == "gen":
            res["C10"].evaluations += 1
            res["C10"].distinct.add((cfg, m["p"], m["b"]))
            if got[:-1] != exp[:-1]:
                kit.fail(["C10"], "generator model over the recovered draws disagrees with the implementation's board", dict(cfg=cfg, op="corr-gen"), dict(m, model=got, impl=exp, seed=kit.seed))
            elif got[-1] != 1:
                kit.fail(["C10"], "random walk took a step that is not a valid move (oracle contract valid_draws violated)", dict(cfg=cfg, op="valid-draws"), dict(m, seed=kit.seed))
        elif kind == "cert":
            for pid in ("C10", "C17"):
                res[pid].evaluations += 1
            if got != [1]:
                kit.fail(["C10", "C17"], "reset board is not reached from the goal along the recovered walk (model run_moves)", dict(cfg=cfg, op="reach-cert"), dict(m, seed=kit.seed))
        elif kind == "solve":
            for pid in ("C10", "C17"):
                res[pid].evaluations += 1
            res["C17"].distinct.add((cfg, m["p"], m["b"], "solve"))
            if got != exp:
                kit.fail(["C10", "C17"], "reversed opposite walk does not solve the generated board with legal moves only (model)", dict(cfg=cfg, op="solve-cert"), dict(m, model=got, seed=kit.seed))
        elif kind == "check":
            res["C04"].evaluations += 1
            res["C04"].distinct.add((cfg, m["p"], m["b"], m["t"]))
            if got[0] != 1:
                kit.fail(["C04"], "action mask is not the set of legal moves (verified checker on implementation state)", dict(cfg=cfg, op="mask-exact"),
                         dict(m, legal=got[4:8], seed=kit.seed))
            for pid in ("C10", "C17"):
                res[pid].evaluations += 1
            if m["t"] == 0:
                res["C10"].distinct.add((cfg, m["p"], m["b"], "wf"))
            if got[1:4] != [1, 1, 1]:
                kit.fail(["C17"] + (["C10"] if m["t"] == 0 else []), "state is not a permutation of 0..n^2-1 with the blank where the state says (wf,perm,blank = %s)" % got[1:4],
                         dict(cfg=cfg, op="inv"), dict(m, seed=kit.seed))
            if got[8] != m["correct"] or got[9] != m["solved"]:
                kit.fail(["C17", "C08"], "model's count of correct tiles / solved test differs from NumPy's on an implementation state", dict(cfg=cfg, op="correct-count"), dict(m, model=got[8:], seed=kit.seed))
        elif kind == "laws":
            n = m["n"]
            w = n * n + 2 + 5
            for k, sb in enumerate(m["states"]):
                for a in range(4):
                    rec = got[(4 * k + a) * w:(4 * k + a + 1) * w]
                    res["C17"].evaluations += 1
                    res["C17"].distinct.add((n, tuple(sb), a))
                    if rec[n * n + 4:n * n + 6] != [1, 1]:
                        kit.fail(["C17"], "group law fails on a visited state (opposite moves cancel / identity at border / permutation conserved)", dict(cfg=cfg, op="laws"),
                                 dict(n=n, board=sb, action=a, flags=rec[n * n + 2:], seed=kit.seed))
        elif kind == "sweep":
            judge_sweep(kit, m, got)
    for pid in PROPS:
        res[pid].traces += len(calls)
        if not res[pid].samples:
            ex = [mm[3] for mm in metas if mm[0] == "step"][:1]
            res[pid].samples.append(dict(env=NAME, example=ex[0] if ex else None))


def sweep(kit, n, cap, call):
    """BFS from the goal; successors are computed by the REAL env.step (vmap over states x 4 actions).  Every expanded state's four
    transitions are handed to the model for comparison.  cap=None: the entire reachable space."""
    import jax
    import jax.numpy as jnp
    from jumanji.environments.logic.sliding_tile_puzzle.types import State
    env = _mk(n, 1, False, 10 ** 6)
    goal = np_goal(n)
    CH = 4096
    stepf = jax.jit(jax.vmap(lambda p, e: jax.vmap(lambda a: env.step(State(puzzle=p, empty_tile_position=e, key=jnp.zeros(2, jnp.uint32), step_count=jnp.zeros((), jnp.int32)), a))(jnp.arange(4, dtype=jnp.int32))))
    pw = (n * n) ** np.arange(n * n, dtype=np.int64)

    def code(P):
        return (P.reshape(len(P), -1).astype(np.int64) * pw).sum(1)
    seen = {int(code(goal[None])[0])}
    frontier_p = goal[None].astype(np.int32)
    frontier_e = np.array([[n - 1, n - 1]], np.int32)
    expanded = 0
    depth = 0
    r17 = kit.res["C17"]
    complete = True
    while len(frontier_p):
        if cap is not None and expanded + len(frontier_p) > cap:
            keep = max(0, cap - expanded)
            frontier_p, frontier_e = frontier_p[:keep], frontier_e[:keep]
            complete = False
            if keep == 0:
                break
        newp, newe = [], []
        for i in range(0, len(frontier_p), CH):
            P, E = frontier_p[i:i + CH], frontier_e[i:i + CH]
            K = len(P)
            if K < CH:
                P = np.concatenate([P, np.repeat(P[:1], CH - K, 0)])
                E = np.concatenate([E, np.repeat(E[:1], CH - K, 0)])
            s2, t2 = stepf(jnp.asarray(P), jnp.asarray(E))
            P2, E2 = np.asarray(s2.puzzle)[:K], np.asarray(s2.empty_tile_position)[:K]
            M2, ST, RW = np.asarray(t2.observation.action_mask)[:K], np.asarray(t2.step_type)[:K], np.asarray(t2.reward)[:K]
            P, E = P[:K], E[:K]
            # model comparison, 128 states per call
            for j in range(0, K, 128):
                sl = slice(j, j + 128)
                kk = len(P[sl])
                args = [n, kk] + np.concatenate([P[sl].reshape(kk, -1), E[sl]], 1).reshape(-1).tolist()
                call("stp_sweep_io", [int(x) for x in args], "sweep", None,
                     dict(n=n, P=P[sl], E=E[sl], P2=P2[sl], E2=E2[sl], ST=ST[sl], RW=RW[sl], M2=M2[sl], cfg="sweep-%dx%d" % (n, n)))
            # the env's mask of the successor must be the legal set at the successor's blank (independent NumPy statement)
            r, c = E2[..., 0], E2[..., 1]
            legal = np.stack([r > 0, c < n - 1, r < n - 1, c > 0], -1)
            if not np.array_equal(legal, M2.astype(bool)):
                k_ = np.argwhere(legal != M2.astype(bool))[0]
                kit.fail(["C04"], "sweep: mask of the successor is not the set of on-board neighbours of the blank", dict(cfg="sweep-%dx%d" % (n, n), op="sweep-mask"),
                         dict(n=n, board=P[k_[0]].tolist(), blank=E[k_[0]].tolist(), action=int(k_[1])))
            kit.res["C04"].evaluations += 4 * K
            expanded += K
            cd = code(P2.reshape(K * 4, n, n))
            flatp, flate = P2.reshape(K * 4, n, n), E2.reshape(K * 4, 2)
            for q in range(K * 4):
                v = int(cd[q])
                if v not in seen:
                    seen.add(v)
                    newp.append(flatp[q])
                    newe.append(flate[q])
        if not complete:
            break
        frontier_p = np.asarray(newp, np.int32).reshape(-1, n, n)
        frontier_e = np.asarray(newe, np.int32).reshape(-1, 2)
        depth += 1
    r17.count("sweep-%dx%d-states-expanded" % (n, n), expanded)
    r17.count("sweep-%dx%d-complete" % (n, n), int(complete))
    r17.notes.append("sweep %dx%d: %d states x 4 actions on the real env.step, complete=%s, BFS depth %d" % (n, n, expanded, complete, depth))
    if complete:
        want = math.factorial(n * n) // 2
        r17.evaluations += 1
        if expanded != want or len(seen) != want:
            kit.fail(["C17"], "reachable state space of the real implementation does not have (n^2)!/2 states", dict(cfg="sweep-%dx%d" % (n, n), op="sweep-size"),
                     dict(n=n, expanded=expanded, seen=len(seen), want=want))


def judge_sweep(kit, m, got):
    n = m["n"]
    w = n * n + 2 + 5
    r17, r09 = kit.res["C17"], kit.res["C09"]
    P, E, P2, E2, ST, RW = m["P"], m["E"], m["P2"], m["E2"], m["ST"], m["RW"]
    K = len(P)
    G = np.asarray(got, dtype=np.int64).reshape(K, 4, w) if len(got) == K * 4 * w else None
    r17.evaluations += 4 * K
    r09.evaluations += 4 * K
    r17.count("sweep-transitions-%dx%d" % (n, n), 4 * K)
    if G is None:
        kit.fail(["C17"], "sweep: model output has the wrong length", dict(cfg=m["cfg"], op="sweep-length"), dict(n=n, got=len(got), want=K * 4 * w))
        return
    impl = np.concatenate([P2.reshape(K, 4, n * n), E2.reshape(K, 4, 2)], -1).astype(np.int64)
    okb = (G[:, :, :n * n + 2] == impl).all(-1)
    okr = G[:, :, n * n + 2] == RW.astype(np.float64)
    oks = (G[:, :, n * n + 6] == 1) == (ST == 2)
    okl = (G[:, :, n * n + 4] == 1) & (G[:, :, n * n + 5] == 1)
    pw = (n * n) ** np.arange(n * n, dtype=np.int64)
    for c in (P.reshape(K, -1).astype(np.int64) * pw).sum(1).tolist():
        r17.distinct.add((n, c))
    r17.count("sweep-distinct-%dx%d" % (n, n), K)
    for name, ok, pids in (("successor board/blank", okb, ["C17", "C09"]), ("dense reward", okr, ["C08", "C09"]),
                           ("solved test vs LAST", oks, ["C17", "C09"]), ("group laws / invariant", okl, ["C17"])):
        if not ok.all():
            k_, a = np.argwhere(~ok)[0]
            kit.fail(pids, "sweep: model and implementation disagree on %s" % name, dict(cfg=m["cfg"], op="sweep-" + name.split()[0]),
                     dict(n=n, board=P[k_].tolist(), blank=E[k_].tolist(), action=int(a), impl_board=P2[k_, a].tolist(), impl_blank=E2[k_, a].tolist(),
                          step_type=int(ST[k_, a]), reward=float(RW[k_, a]), model=G[k_, a].tolist()))
