"""Snake: correspondence with coq/Model/Snake.v + verified checkers on implementation states.

Every transition of the rollouts (and of hand-built boundary states) is replayed in the extracted model
(`snake_step_io`), for EVERY action of the 4-action space (the real jitted `env.step` is vmapped over the
actions), and the successor state, the timestep and the observation are compared field by field.  The re-drawn
fruit is recovered from the implementation's successor state and must satisfy `valid_draw`.  The verified
boolean checkers (`Phys_b`, `mask_ok_b`, `valid_draw`, `count_pos`) run on the implementation's own states.

Floats: rewards/discounts are 0/1 (compared exactly); observation planes 0..3 are 0/1 (exact); plane 4 is the
float32 quotient body_state / max(1, max body_state): the model returns numerator and denominator and the
harness compares float32(num)/float32(den) bit-exactly with the implementation's value."""
import numpy as np

from harness import envkit

NAME = "snake"
PROPS = ["C01", "C03", "C04", "C05", "C07", "C08", "C09", "C10", "C11", "C12"]
APPLIES = PROPS

STATE_F = ["body", "body_state", "head_position", "tail", "fruit_position", "length", "step_count", "action_mask"]
TS_F = ["step_type", "reward", "discount"]
OBS_F = ["obs_body", "obs_head", "obs_tail", "obs_fruit", "obs_norm", "obs_den", "obs_step_count", "obs_action_mask"]
FIELD_PROPS = {  # which properties depend on which compared field
    "body": ["C07", "C09"], "body_state": ["C07", "C09"], "head_position": ["C07", "C09"], "tail": ["C07", "C09"],
    "fruit_position": ["C09"], "length": ["C08", "C09"], "step_count": ["C09", "C11"], "action_mask": ["C04"],
    "step_type": ["C03", "C09", "C11"], "reward": ["C08", "C09"], "discount": ["C03"],
    "obs_body": ["C12"], "obs_head": ["C12"], "obs_tail": ["C12"], "obs_fruit": ["C12"], "obs_norm": ["C12", "C01"],
    "obs_den": ["C12"], "obs_step_count": ["C12", "C01"], "obs_action_mask": ["C12"], "length_": ["C09"],
}


def extra_configs(tier, add):
    import jumanji.environments as E
    mk = lambda r, c: (lambda t: E.Snake(num_rows=r, num_cols=c, time_limit=t))
    add("r1c5t9", lambda: E.Snake(num_rows=1, num_cols=5, time_limit=9), 11, time_limit=9, mk=mk(1, 5))
    add("r2c2t9", lambda: E.Snake(num_rows=2, num_cols=2, time_limit=9), 11, time_limit=9, mk=mk(2, 2))
    add("r7c3t2", lambda: E.Snake(num_rows=7, num_cols=3, time_limit=2), 4, time_limit=2, mk=mk(7, 3))
    add("r3c4t40", lambda: E.Snake(num_rows=3, num_cols=4, time_limit=40), 44, time_limit=40, mk=mk(3, 4))
    if tier != "quick":
        add("r1c1t3", lambda: E.Snake(num_rows=1, num_cols=1, time_limit=3), 5, time_limit=3, mk=mk(1, 1))
        add("r4c4t200", lambda: E.Snake(num_rows=4, num_cols=4, time_limit=200), 210, time_limit=200, mk=mk(4, 4))


def layout(R, C):
    n = R * C
    return ([("body", n), ("body_state", n), ("head_position", 2), ("tail", n), ("fruit_position", 2), ("length", 1),
             ("step_count", 1), ("action_mask", 4), ("step_type", 1), ("reward", 1), ("discount", 1),
             ("obs_body", n), ("obs_head", n), ("obs_tail", n), ("obs_fruit", n), ("obs_norm", n), ("obs_den", 1),
             ("obs_step_count", 1), ("obs_action_mask", 4)])


def ints(x):
    return [int(v) for v in np.asarray(x).reshape(-1)]


def enc_state(s):
    return (ints(s.body) + ints(s.body_state) + [int(s.head_position.row), int(s.head_position.col)] + ints(s.tail)
            + [int(s.fruit_position.row), int(s.fruit_position.col)] + [int(s.length), int(s.step_count)] + ints(s.action_mask))


def code01(x):
    return [int(v) if v in (0.0, 1.0) else 7777 for v in np.asarray(x, np.float64).reshape(-1)]


def f32bits(x):
    return [int(v) for v in np.asarray(x, np.float32).reshape(-1).view(np.int32)]


def enc_impl(s2, ts):
    """implementation side of the comparison vector (obs_den is filled from the model later)"""
    g = np.asarray(ts.observation.grid)
    o = ts.observation
    return (enc_state(s2) + [int(ts.step_type)] + code01(ts.reward) + code01(ts.discount)
            + code01(g[..., 0]) + code01(g[..., 1]) + code01(g[..., 2]) + code01(g[..., 3]) + f32bits(g[..., 4])
            + [None, int(o.step_count)] + ints(o.action_mask))


def fix_model(R, C, got):
    """model numerators/denominator -> float32 quotient bits, as the implementation computes them"""
    n = R * C
    off = 3 * n + 13 + 4 * n
    if len(got) != off + n + 6:
        return got, None
    den = got[off + n]
    q = np.asarray(got[off:off + n], np.float32) / np.float32(den)
    return got[:off] + f32bits(q) + got[off + n:], den


def make_state(env, chain, fruit, step_count, key):
    """a State whose body is the given chain of cells (tail first, head last)"""
    import jax.numpy as jnp
    from jumanji.environments.routing.snake.types import Position, State
    R, C = env.num_rows, env.num_cols
    bs = np.zeros((R, C), np.int32)
    for i, (r, c) in enumerate(chain):
        bs[r, c] = i + 1
    hp = Position(jnp.asarray(chain[-1][0], jnp.int32), jnp.asarray(chain[-1][1], jnp.int32))
    bs = jnp.asarray(bs)
    return State(key=key, body=bs > 0, body_state=bs, head_position=hp, tail=bs == 1,
                 fruit_position=Position(jnp.asarray(fruit[0], jnp.int32), jnp.asarray(fruit[1], jnp.int32)),
                 length=jnp.asarray(len(chain), jnp.int32), step_count=jnp.asarray(step_count, jnp.int32),
                 action_mask=env._get_action_mask(hp, bs))


def serpentine(R, C):
    out = []
    for r in range(R):
        cs = range(C) if r % 2 == 0 else range(C - 1, -1, -1)
        out += [(r, c) for c in cs]
    return out


def boundary_states(env, T, key):
    """hand-built states: nearly full boards (completion, last free cell), head next to its tail, time-limit edge"""
    R, C = env.num_rows, env.num_cols
    path = serpentine(R, C)
    n = R * C
    out = []
    for L in sorted({n - 1, n - 2, n - 3, 2 * C, 2 * C - 1, 2, 3, max(1, n // 2)}):
        if 1 <= L < n:
            for sc in sorted({0, max(0, T - 1), max(0, T - 2)}):
                out.append(("serp-L%d-fruit-next-sc%d" % (L, sc), make_state(env, path[:L], path[L], sc, key)))
                if L + 1 < n:
                    out.append(("serp-L%d-fruit-last-sc%d" % (L, sc), make_state(env, path[:L], path[n - 1], sc, key)))
    return out


def analyze(kit):
    import jax
    import jax.numpy as jnp
    calls, metas = [], []

    def add_step(cfgl, R, C, T, s, a, s2, ts2, m):
        e = [R, C, T] + enc_state(s) + [int(a), int(s2.fruit_position.row), int(s2.fruit_position.col)]
        calls.append(("snake_step_io", e))
        metas.append(("step", (R, C, T), enc_impl(s2, ts2), m))

    for cfg in kit.configs():
        env = kit.env(cfg)
        R, C, T = env.num_rows, env.num_cols, env.time_limit
        lab = cfg["label"]
        step_all = jax.jit(jax.vmap(lambda s: jax.vmap(lambda a: env.step(s, a))(jnp.arange(4, dtype=jnp.int32))))

        def every_action(states, infos):
            """states: list of State (unbatched) -> for each, the 4 successors; adds step calls + reaction checks"""
            if not states:
                return
            batch = jax.tree_util.tree_map(lambda *xs: jnp.stack([jnp.asarray(x) for x in xs]), *states)
            S2, TS2 = step_all(batch)
            S2 = jax.tree_util.tree_map(np.asarray, S2)
            TS2 = jax.tree_util.tree_map(np.asarray, TS2.replace(extras={}))
            for i, (s, info) in enumerate(zip(states, infos)):
                mask = np.asarray(s.action_mask)
                full_after = None
                for a in range(4):
                    s2 = envkit.R.slice_tree(S2, i, a)
                    ts2 = envkit.R.slice_tree(TS2, i, a)
                    legal = bool(mask[a])
                    m = dict(info, cfg=lab, action=a, legal=legal, all_actions=True)
                    add_step(lab, R, C, T, s, a, s2, ts2, m)
                    # the environment's own reaction (C04 / C05)
                    ty, rew = int(ts2.step_type), float(ts2.reward)
                    kit.res["C04"].evaluations += 1
                    if not legal:
                        kit.res["C05"].evaluations += 1
                        kit.res["C05"].distinct.add((lab, info.get("src"), info.get("b"), info.get("t"), a))
                        kit.res["C05"].count("illegal-action-steps")
                        if ty != 2 or rew != 0.0 or float(ts2.discount) != 0.0:
                            kit.fail(["C05"], "masked-out move is not LAST with reward 0", dict(cfg=lab, op="illegal-reaction"),
                                     dict(m, step_type=ty, reward=rew, state=replay_state(s), seed=kit.seed))
                    else:
                        full = bool(np.asarray(s2.body).all())
                        at_limit = int(s.step_count) + 1 >= T
                        if ty == 2 and not (full or at_limit):
                            kit.fail(["C04"], "masked-in move is treated as invalid (LAST without completion/time limit)",
                                     dict(cfg=lab, op="legal-reaction"), dict(m, state=replay_state(s), seed=kit.seed))
                        eaten = (int(s2.head_position.row), int(s2.head_position.col)) == (int(s.fruit_position.row), int(s.fruit_position.col))
                        if eaten and not full:
                            calls.append(("snake_draw_io", [R, C] + ints(s2.body) + [int(s2.fruit_position.row), int(s2.fruit_position.col)]))
                            metas.append(("draw", (R, C, T), [1], dict(m, state=replay_state(s))))

        # ---- rollouts
        for p in (0.0, 0.35):
            roll = kit.roll(cfg, p)
            _, st, ts, ac, fl, k0 = roll
            B, Tn = ac.shape
            visited, infos = [], []
            for b in range(B):
                s0 = envkit.R.slice_tree(st, b, 0)
                ts0 = envkit.R.slice_tree(ts, b, 0)
                calls.append(("snake_init_io", [R, C, int(s0.head_position.row), int(s0.head_position.col),
                                                int(s0.fruit_position.row), int(s0.fruit_position.col)]))
                metas.append(("init", (R, C, T), enc_impl(s0, ts0), dict(cfg=lab, p=p, b=b, t=0, src="roll")))
                # C08: return == fruits eaten == final length - 1 (== body cells - 1 when the last move was legal)
                end = min(Tn, int(fl[b]))
                ret = float(np.asarray(ts.reward[b, 1:end + 1], np.float64).sum())
                sf = envkit.R.slice_tree(st, b, end)
                kit.res["C08"].evaluations += 1
                kit.res["C08"].distinct.add((lab, p, b))
                kit.res["C08"].count("return=%d" % int(ret))
                last_legal = end == 0 or bool(np.asarray(st.action_mask[b, end - 1])[int(ac[b, end - 1])])
                if ret != int(sf.length) - 1 or (last_legal and ret != int(np.asarray(sf.body).sum()) - 1):
                    kit.fail(["C08"], "episode return != fruits eaten (final length - 1 / body cells - 1)", dict(cfg=lab, op="objective"),
                             dict(ret=ret, length=int(sf.length), body_cells=int(np.asarray(sf.body).sum()), p=p, b=b, seed=kit.seed))
            for (b, t, s, a, s2, ts2) in kit.transitions(roll):
                legal = bool(np.asarray(s.action_mask)[int(a)])
                add_step(lab, R, C, T, s, int(a), s2, ts2,
                         dict(cfg=lab, p=p, b=b, t=t, action=int(a), legal=legal, src="roll", state=replay_state(s)))
                if R * C > 1:   # on a 1x1 board no fruit cell off the body exists (degenerate; reset cannot satisfy C10 there)
                    calls.append(("snake_check_io", [R, C, T] + enc_state(s)))
                    metas.append(("check", (R, C, T), [1, 1, 1, 1, 1], dict(cfg=lab, p=p, b=b, t=t, src="roll", state=replay_state(s))))
                visited.append(s)
                infos.append(dict(p=p, b=b, t=t, src="roll"))
                # C01 on the emitted observation, incl. the terminal one
                kit.res["C01"].evaluations += 1
                g = np.asarray(ts2.observation.grid)
                if not (0 <= int(ts2.observation.step_count) <= T and g.min() >= 0.0 and g.max() <= 1.0 and g.dtype == np.float32):
                    kit.fail(["C01"], "observation outside its declared bounds", dict(cfg=lab, op="obs-bounds"),
                             dict(p=p, b=b, t=t, step_count=int(ts2.observation.step_count), time_limit=T, seed=kit.seed))
            every_action(visited, infos)
        # ---- hand-built boundary states, every action
        bs = boundary_states(env, T, jax.random.PRNGKey(kit.seed + 17))
        for name, s in bs:
            s = jax.tree_util.tree_map(np.asarray, s)
            calls.append(("snake_check_io", [R, C, T] + enc_state(s)))
            metas.append(("check", (R, C, T), [1, 1, 1, 1, 1], dict(cfg=lab, src=name, b=0, t=0, p=-1, state=replay_state(s))))
        every_action([jax.tree_util.tree_map(np.asarray, s) for _, s in bs], [dict(src=n, b=0, t=0, p=-1) for n, _ in bs])
        kit.res["C09"].count("boundary-states", len(bs))
        # ---- generator: many reset keys (C10)
        nk = 64 if kit.tier == "quick" else 512
        keys = jax.random.split(jax.random.PRNGKey(kit.seed * 101 + 5), nk)
        S0, TS0 = jax.jit(jax.vmap(env.reset))(keys)
        S0 = jax.tree_util.tree_map(np.asarray, S0)
        TS0 = jax.tree_util.tree_map(np.asarray, TS0.replace(extras={}))
        heads = set()
        for i in range(nk):
            s0 = envkit.R.slice_tree(S0, i)
            ts0 = envkit.R.slice_tree(TS0, i)
            heads.add((int(s0.head_position.row), int(s0.head_position.col), int(s0.fruit_position.row), int(s0.fruit_position.col)))
            calls.append(("snake_init_io", [R, C, int(s0.head_position.row), int(s0.head_position.col),
                                            int(s0.fruit_position.row), int(s0.fruit_position.col)]))
            metas.append(("init", (R, C, T), enc_impl(s0, ts0), dict(cfg=lab, p=-1, b=i, t=0, src="reset-keys")))
            if R * C > 1:
                calls.append(("snake_check_io", [R, C, T] + enc_state(s0)))
                metas.append(("check0", (R, C, T), [1, 1, 1, 1, 1], dict(cfg=lab, src="reset-keys", b=i, t=0, p=-1, state=replay_state(s0))))
        kit.res["C10"].evaluations += 1
        if R * C > 2 and len(heads) < 2:
            kit.fail(["C10"], "reset does not depend on its key", dict(cfg=lab, op="gen-constant"), dict(keys=nk, seed=kit.seed))

    outs = kit.model(calls)
    for (entry, args), (kind, (R, C, T), exp, m), got in zip(calls, metas, outs):
        if kind in ("step", "init"):
            got, den = fix_model(R, C, got)
            exp = [den if v is None else v for v in exp]
            bad = envkit.diff_fields(layout(R, C), got, exp)
            illegal = kind == "step" and not m["legal"]
            for pid in ("C09", "C04", "C12", "C03", "C11") + (("C05",) if illegal else ()) + (("C10",) if kind == "init" else ()):
                kit.res[pid].evaluations += 1
            key = (m["cfg"], m.get("src"), m.get("p"), m.get("b"), m.get("t"), m.get("action"))
            kit.res["C09"].distinct.add(key)
            kit.res["C12"].distinct.add(key)
            kit.res["C04"].distinct.add(key)
            kit.res["C09"].count("%s:%s" % (kind, "legal" if not illegal else "illegal"))
            if kind == "init":
                kit.res["C10"].distinct.add(key)
            if bad:
                pids = set()
                for f in bad:
                    pids |= set(FIELD_PROPS.get(f, ["C09"]))
                if illegal:
                    pids.add("C05")
                if kind == "init":
                    pids.add("C10")
                    pids -= {"C05", "C08", "C11"}
                kit.fail(sorted(pids), "model and implementation disagree on %s (fields %s)" % (kind, ",".join(bad)),
                         dict(cfg=m["cfg"], op="corr-" + kind, fields=",".join(bad)),
                         dict(m, fields={f: _slice(layout(R, C), f, got, exp) for f in bad[:3]}, seed=kit.seed))
        elif kind in ("check", "check0"):
            key = (m["cfg"], m.get("src"), m.get("p"), m.get("b"), m.get("t"))
            for pid, idx, what, op in (("C07", 0, "state is not a physically consistent snake (Phys_b)", "phys"),
                                       ("C04", 1, "action mask is not the set of legal moves (verified checker on implementation state)", "mask-exact"),
                                       ("C10" if kind == "check0" else "C09", 2, "fruit is not on an in-grid cell off the body (valid_draw)", "fruit-valid"),
                                       ("C11", 3, "non-terminal state with step_count outside [0, time_limit)", "steps-lt-limit"),
                                       ("C08", 4, "number of body cells != length", "count-len")):
                kit.res[pid].evaluations += 1
                kit.res[pid].distinct.add(key)
                if got[idx] != 1:
                    kit.fail([pid], what, dict(cfg=m["cfg"], op=op), dict(m, seed=kit.seed))
        elif kind == "draw":
            kit.res["C09"].evaluations += 1
            kit.res["C07"].evaluations += 1
            kit.res["C09"].count("fruit-redrawn")
            if got != [1]:
                kit.fail(["C07", "C09"], "re-drawn fruit is not an in-grid cell off the body (valid_draw)", dict(cfg=m["cfg"], op="draw-valid"),
                         dict(m, seed=kit.seed))
    for pid in PROPS:
        kit.res[pid].traces += len(calls)
        if not kit.res[pid].samples:
            kit.res[pid].samples.append(dict(env=NAME, example=metas[min(5, len(metas) - 1)][3]))


def _slice(lay, f, got, exp):
    i = 0
    for name, n in lay:
        if name == f:
            return dict(model=got[i:i + n][:40], impl=exp[i:i + n][:40])
        i += n
    return None


def replay_state(s):
    return dict(body_state=np.asarray(s.body_state).tolist(), head=[int(s.head_position.row), int(s.head_position.col)],
                fruit=[int(s.fruit_position.row), int(s.fruit_position.col)], length=int(s.length), step_count=int(s.step_count),
                mask=np.asarray(s.action_mask).astype(int).tolist())
