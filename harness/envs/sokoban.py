"""Sokoban: correspondence with coq/Model/Sokoban.v + verified checkers on implementation states.

- every rollout transition, and EVERY action (0..3, plus a few out-of-spec integers that only exercise the model's
  gather semantics) from every visited state and from directly constructed boundary states (open grids without the
  surrounding walls: agent / boxes on the border and in the corners, chained boxes, box against a wall, box pushed on /
  off a target, the completing push, clock at the limit, already-solved states, random wall / box layouts) is replayed
  in the extracted model (`sokoban_step_io` = Impl layer mirroring env.py, `sokoban_rule_io` = the declarative push
  rules) and compared field by field with the real `env.step`: next state, step type, reward, discount, observation
  and extras;
- `sokoban_check_io` (Physical_b, #agents, #boxes, #targets, boxes-on-targets, enclosure certificate) runs on the
  implementation's own states; Sokoban has no action mask, so legality is judged by the declarative `legal_b` and by
  the environment's own reaction (illegal <=> grid and agent unchanged);
- generators: the level texts are read from the SOURCE of generator.py (ast) and compared with the model's literals,
  `convert_level_to_array` / `get_agent_coordinates` are replayed on them and on random texts, every reset state is
  compared with `sokoban_gen_io` on the recovered draw (game index, re-derived with the real randint on the real
  sub-key) and must be WellFormed_b / Enclosed_b.  The dataset generators (DeepMind / HuggingFace) need files that are
  absent offline and are NOT exercised.

Floats: DenseReward = float32(k) + float32(-0.1) for an integer k, SparseReward = 0.0 / 10.0; the harness maps the
implementation's float32 to the model's integer code (tenths) only when it is bit-identical to that expression, so the
comparison is exact.  Episode returns are additionally compared in float64 with tolerance 1e-4."""
import ast
import inspect

import numpy as np

from harness import envkit

NAME = "sokoban"
PROPS = ["C01", "C03", "C05", "C07", "C08", "C09", "C10", "C11", "C12"]
APPLIES = PROPS

G = 10
N2 = G * G
LAYOUT = [("fixed_grid", N2), ("variable_grid", N2), ("agent_location", 2), ("step_count", 1),
          ("step_type", 1), ("reward", 1), ("discount", 1), ("obs_grid", 2 * N2), ("obs_step_count", 1), ("extras", 2)]
RULE_LAYOUT = LAYOUT[:7] + [("legal", 1)]
GEN_LAYOUT = LAYOUT[:7] + [("valid_draw", 1), ("well_formed", 1), ("enclosed", 1)]
FIELD_PROPS = {
    "fixed_grid": ["C07", "C09"], "variable_grid": ["C07", "C09"], "agent_location": ["C07", "C09"],
    "step_count": ["C09", "C11"], "step_type": ["C03", "C09", "C11"], "reward": ["C08", "C09"], "discount": ["C03"],
    "obs_grid": ["C12", "C01"], "obs_step_count": ["C12"], "extras": ["C09"], "legal": ["C05", "C09"],
    "valid_draw": ["C10"], "well_formed": ["C10"], "enclosed": ["C10"], "length": ["C09"],
}
SOLVE_SIMPLE = [0, 2, 1, 0, 2, 1, 0, 2, 1, 0]
SOLVE_TOY1 = [2, 2, 2, 1, 2, 2, 1, 1, 0, 0, 0, 1, 0, 0, 3, 3, 2, 3, 2, 0, 1, 1, 1, 2, 1, 2, 2, 2, 3, 0, 0]


def _mods():
    import jumanji.environments as E
    from jumanji.environments.routing.sokoban import generator as GEN, reward as RW
    return E, GEN, RW


def extra_configs(tier, add):
    E, GEN, RW = _mods()
    toy, simple = GEN.ToyGenerator, GEN.SimpleSolveGenerator
    add("toy-sparse-t3", lambda: E.Sokoban(generator=toy(), reward_fn=RW.SparseReward(), time_limit=3), 6, time_limit=3,
        mk=lambda t: E.Sokoban(generator=toy(), reward_fn=RW.SparseReward(), time_limit=t))
    add("simple-t2", lambda: E.Sokoban(generator=simple(), time_limit=2), 5, time_limit=2,
        mk=lambda t: E.Sokoban(generator=simple(), time_limit=t))
    add("toy-default120", lambda: E.Sokoban(generator=toy()), 124, time_limit=120, batch=3 if tier == "quick" else 12,
        mk=lambda t: E.Sokoban(generator=toy(), time_limit=t))
    if tier != "quick":
        add("simple-sparse-t40", lambda: E.Sokoban(generator=simple(), reward_fn=RW.SparseReward(), time_limit=40), 44, time_limit=40,
            mk=lambda t: E.Sokoban(generator=simple(), reward_fn=RW.SparseReward(), time_limit=t))
        add("toy-t300", lambda: E.Sokoban(generator=toy(), time_limit=300), 304, time_limit=300,
            mk=lambda t: E.Sokoban(generator=toy(), time_limit=t))


def ints(x):
    return [int(v) for v in np.asarray(x).reshape(-1)]


def enc_state(s):
    return ints(s.fixed_grid) + ints(s.variable_grid) + ints(s.agent_location) + [int(s.step_count)]


def rcode(r, dense):
    """implementation float32 reward -> the model's integer code in tenths, only when bit-identical to the documented form"""
    r = np.float32(r)
    if dense:
        k = int(np.round(float(r) + 0.1))
        return 10 * k - 1 if np.float32(k) + np.float32(-0.1) == r else 777777
    return int(r) * 10 if float(r) in (0.0, 10.0) else 777777


def dcode(d):
    d = float(d)
    return int(d) if d in (0.0, 1.0) else 777


def enc_out(s2, ts, dense, extras=None):
    o = ts.observation
    out = enc_state(s2) + [int(ts.step_type), rcode(ts.reward, dense), dcode(ts.discount)] + ints(o.grid) + [int(o.step_count)]
    if extras is not None:
        pc = float(extras["prop_correct_boxes"])
        cnt = int(round(pc * 4))
        out += [cnt if np.float32(cnt) / np.float32(4) == np.float32(pc) else 777, int(bool(extras["solved"]))]
    return out


def state_desc(s):
    return dict(fixed=np.asarray(s.fixed_grid).astype(int).tolist(), variable=np.asarray(s.variable_grid).astype(int).tolist(),
                agent=ints(s.agent_location), step_count=int(s.step_count))


def mk_state(fixed, var, agent, sc, key):
    import jax.numpy as jnp
    from jumanji.environments.routing.sokoban.types import State
    return State(key=jnp.asarray(key), fixed_grid=jnp.asarray(fixed, jnp.uint8), variable_grid=jnp.asarray(var, jnp.uint8),
                 agent_location=jnp.asarray(agent, jnp.int32), step_count=jnp.asarray(sc, jnp.int32))


def source_levels():
    """the literal level texts inside ToyGenerator.__call__ / SimpleSolveGenerator.__call__ (read from the source)"""
    _, GEN, _ = _mods()
    out = {}
    for cls in (GEN.ToyGenerator, GEN.SimpleSolveGenerator):
        src = inspect.getsource(cls)
        tree = ast.parse(src)
        for node in ast.walk(tree):
            if isinstance(node, ast.Assign) and len(node.targets) == 1 and isinstance(node.targets[0], ast.Name) \
                    and node.targets[0].id.startswith("level") and isinstance(node.value, ast.List):
                out[(cls.__name__, node.targets[0].id)] = [ast.literal_eval(e) for e in node.value.elts]
    return out


def synthetic_states(kit, T, key, s0):
    """directly constructed boundary states (all physically consistent unless tagged 'unphysical')"""
    out = []
    rng = kit.rng

    def put(tag, fixed, boxes, agent, sc=0, loc=None):
        var = np.zeros((G, G), np.uint8)
        for (r, c) in boxes:
            var[r, c] = 4
        if agent is not None:
            var[agent] = 3
        out.append((tag, mk_state(fixed, var, loc if loc is not None else agent, sc, key)))

    def open_grid(targets):
        f = np.zeros((G, G), np.uint8)
        for (r, c) in targets:
            f[r, c] = 2
        return f
    tg = [(4, 4), (4, 5), (5, 4), (5, 5)]
    f0 = open_grid(tg)
    # agent on every border side / corner of an open grid (moves off the border), boxes on the border (pushes off the border)
    for a in [(0, 0), (0, 9), (9, 0), (9, 9), (0, 4), (9, 4), (4, 0), (4, 9)]:
        put("open-border-agent", f0, [(2, 2), (2, 7), (7, 2), (7, 7)], a)
    put("open-push-off-top", f0, [(0, 3), (3, 0), (9, 6), (6, 9)], (1, 3))
    put("open-push-off-left", f0, [(0, 3), (3, 0), (9, 6), (6, 9)], (3, 1))
    put("open-push-off-bottom", f0, [(0, 3), (3, 0), (9, 6), (6, 9)], (8, 6))
    put("open-push-off-right", f0, [(0, 3), (3, 0), (9, 6), (6, 9)], (6, 8))
    put("open-corner-boxes", f0, [(0, 0), (0, 9), (9, 0), (9, 9)], (0, 1))
    put("open-corner-boxes", f0, [(0, 0), (0, 9), (9, 0), (9, 9)], (8, 9))
    # chained boxes in all four directions, and a free push next to them
    put("chain", f0, [(3, 4), (2, 4), (5, 6), (5, 7)], (4, 4))
    put("chain", f0, [(4, 2), (4, 1), (6, 5), (7, 5)], (4, 3))
    put("chain", f0, [(4, 2), (4, 1), (6, 5), (7, 5)], (5, 5))
    put("chain", f0, [(3, 4), (2, 4), (5, 6), (5, 7)], (5, 5))
    # chained boxes where the BLOCKING box stands on a target (combined-grid code TARGET_BOX, not BOX), all four directions,
    # with the pushed box on / off a target, and a blocking box on a target at the border
    for (agent, b1, b2) in [((6, 4), (5, 4), (4, 4)), ((4, 2), (4, 3), (4, 4)), ((2, 5), (3, 5), (4, 5)), ((5, 7), (5, 6), (5, 5)),
                            ((3, 4), (4, 4), (5, 4)), ((4, 6), (4, 5), (4, 4)), ((6, 5), (5, 5), (4, 5)), ((5, 3), (5, 4), (5, 5))]:
        put("chain-blocker-on-target", f0, [b1, b2, (8, 8), (1, 8)], agent)
    fb = open_grid([(0, 4), (4, 0), (9, 5), (5, 9)])
    for (agent, b1, b2) in [((2, 4), (1, 4), (0, 4)), ((4, 2), (4, 1), (4, 0)), ((7, 5), (8, 5), (9, 5)), ((5, 7), (5, 8), (5, 9))]:
        put("chain-blocker-on-border-target", fb, [b1, b2, (3, 3), (6, 6)], agent)
    # box against a wall / wall next to the agent
    fw = f0.copy()
    fw[2, 4] = fw[4, 2] = fw[6, 4] = fw[4, 6] = 1
    put("box-wall", fw, [(3, 4), (4, 3), (5, 4), (4, 5)], (4, 4))
    fw2 = f0.copy()
    fw2[3, 3] = fw2[3, 5] = fw2[2, 4] = 1
    put("agent-walls", fw2, [(7, 7), (7, 1), (1, 7), (1, 1)], (3, 4))
    # box on a target pushed off; box pushed on; completing push; already solved; agent on a target
    put("off-target", f0, [(4, 4), (2, 2), (7, 7), (2, 7)], (3, 4))
    put("on-target", f0, [(3, 4), (2, 2), (7, 7), (2, 7)], (2, 4))
    put("target-to-target", f0, [(4, 4), (2, 2), (7, 7), (2, 7)], (4, 3))
    for sc in sorted({0, max(T - 2, 0), T - 1, T, T + 3}):
        put("completing-clock=%d" % sc, f0, [(4, 4), (4, 5), (5, 4), (6, 5)], (7, 5), sc)
        put("solved-clock=%d" % sc, f0, [(4, 4), (4, 5), (5, 4), (5, 5)], (7, 5), sc)
        put("clock=%d" % sc, np.asarray(s0.fixed_grid), [tuple(p) for p in np.argwhere(np.asarray(s0.variable_grid) == 4)],
            tuple(ints(s0.agent_location)), sc)
    put("agent-on-target", f0, [(2, 2), (2, 7), (7, 2), (6, 5)], (5, 5))
    # fewer / more than four boxes and targets (N_BOXES is a constant in the code)
    put("three-boxes-three-targets", open_grid(tg[:3]), [(4, 4), (4, 5), (6, 4)], (7, 4))
    put("five-boxes", open_grid(tg + [(1, 1)]), [(4, 4), (4, 5), (5, 4), (6, 5), (1, 1)], (7, 5))
    # random layouts
    nrand = 40 if kit.tier == "quick" else 300
    for i in range(nrand):
        dens = [0.0, 0.15, 0.3, 0.5][i % 4]
        f = (rng.random((G, G)) < dens).astype(np.uint8)
        free = [tuple(p) for p in np.argwhere(f == 0)]
        if len(free) < 9:
            continue
        idx = rng.permutation(len(free))
        nb = int(rng.choice([4, 4, 4, 3, 6]))
        boxes = [free[int(j)] for j in idx[:nb]]
        agent = free[int(idx[nb])]
        if i % 3 == 0:    # boxes clustered round the agent so that pushes actually happen
            near = [p for p in free if p != agent and abs(p[0] - agent[0]) + abs(p[1] - agent[1]) <= 2]
            if len(near) >= nb:
                boxes = [near[int(j)] for j in rng.permutation(len(near))[:nb]]
        rest = [p for p in free if p != agent]
        if i % 2:   # targets under some of the boxes (a box on a target has its own code in the combined grid)
            under = [b for b in boxes if rng.random() < 0.6][:4]
            for b in under:
                f[b] = 2
            rest2 = [p for p in rest if p not in under]
            for j in rng.permutation(len(rest2))[:4 - len(under)]:
                f[rest2[int(j)]] = 2
        else:
            for j in rng.permutation(len(rest))[:4]:
                f[rest[int(j)]] = 2
        put("random-%.2f" % dens, f, boxes, agent, int(rng.integers(0, max(T, 1) + 2)))
    # unphysical states: exercise the model's scatter / gather semantics only (never claimed by the rules)
    put("unphysical-loc-negative", f0, [(2, 2), (2, 7), (7, 2), (7, 7)], None, 0, loc=(-1, 3))
    put("unphysical-loc-outside", f0, [(2, 2), (2, 7), (7, 2), (7, 7)], None, 0, loc=(10, 3))
    put("unphysical-loc-far", f0, [(2, 2), (2, 7), (7, 2), (7, 7)], None, 0, loc=(3, -12))
    put("unphysical-stale-loc", f0, [(2, 2), (2, 7), (7, 2), (7, 7)], (5, 5), 0, loc=(1, 2))
    put("unphysical-box-under-loc", f0, [(2, 2), (2, 7), (7, 2), (7, 7)], None, 0, loc=(2, 2))
    fw3 = f0.copy()
    fw3[3, 3] = 1
    put("unphysical-agent-on-wall", fw3, [(2, 2), (2, 7), (7, 2), (7, 7)], (3, 3))
    return out


def analyze(kit):
    import jax
    import jax.numpy as jnp
    E, GEN, RW = _mods()
    calls, metas = [], []

    # ---------------- generator texts: source <-> model literals, convert_level_to_array ----------------
    src = source_levels()
    order = [("ToyGenerator", "level1"), ("ToyGenerator", "level2"), ("SimpleSolveGenerator", "level1")]
    kit.res["C10"].evaluations += 1
    if sorted(src) != sorted(order) or any(len(src[k]) != G or any(len(r) != G for r in src[k]) for k in src):
        kit.fail(["C10"], "level texts of the shipped generators could not be read from the source (tie broke)",
                 dict(op="level-source"), dict(found=sorted(src)))
        src_flat = None
    else:
        src_flat = [ord(ch) for k in order for row in src[k] for ch in row]
        calls.append(("sokoban_levels_io", []))
        metas.append(("levels", None, src_flat, dict(cfg="source", op="levels")))
        texts = [("src-%s-%s" % k, src[k]) for k in order]
        alphabet = "#.@$ "
        for i in range(12 if kit.tier == "quick" else 60):
            rows, cols = int(kit.rng.integers(1, 12)), int(kit.rng.integers(1, 12))
            txt = ["".join(alphabet[int(j)] for j in kit.rng.integers(0, 5 if i % 3 else 4, cols)) for _ in range(rows)]
            if i % 4 == 0:
                txt = [r.replace("@", " ") for r in txt]    # no agent: jnp.where(size=1) fills (0, 0)
            texts.append(("random-text-%d" % i, txt))
        gen0 = GEN.SimpleSolveGenerator()
        for tag, txt in texts:
            fx, vr = GEN.convert_level_to_array(txt)
            loc = gen0.get_agent_coordinates(vr)
            calls.append(("sokoban_convert_io", [len(txt), len(txt[0])] + [ord(ch) for row in txt for ch in row]))
            metas.append(("convert", None, ints(fx) + ints(vr) + ints(loc) + [1], dict(cfg=tag, op="convert", text=txt)))

    def add_step(lab, T, dense, s, a, s2, ts2, m, extras=None, rule=True):
        e = [G, T, int(dense)] + enc_state(s) + [int(a)]
        calls.append(("sokoban_step_io", e))
        metas.append(("step", LAYOUT if extras is not None else LAYOUT[:-1], enc_out(s2, ts2, dense, extras), m))
        if rule:
            calls.append(("sokoban_rule_io", e))
            metas.append(("rule", RULE_LAYOUT, enc_out(s2, ts2, dense)[:N2 * 2 + 6] + [int(m["legal"])], m))

    def add_check(s, ts, m, extras=None):
        calls.append(("sokoban_check_io", [G] + enc_state(s)))
        o = ts.observation if ts is not None else None
        metas.append(("check", None, (ints(o.grid) + [int(o.step_count)]) if o is not None else None, dict(m, state=state_desc(s))))
        # C01: independent NumPy validation of the emitted observation against the declared spec
        if o is not None:
            kit.res["C01"].evaluations += 1
            g = np.asarray(o.grid)
            if not (g.shape == (G, G, 2) and g.dtype == np.uint8 and g.max() <= 4 and np.asarray(o.step_count).dtype == np.int32
                    and np.asarray(o.step_count).shape == ()):
                kit.fail(["C01"], "observation outside its declared spec (shape/dtype/bounds)", dict(cfg=m["cfg"], op="obs-spec"), dict(m, seed=kit.seed))
            # C12: independent NumPy observer
            kit.res["C12"].evaluations += 1
            if not (np.array_equal(g[..., 0], np.asarray(s.variable_grid)) and np.array_equal(g[..., 1], np.asarray(s.fixed_grid))
                    and int(o.step_count) == int(s.step_count)):
                kit.fail(["C12"], "observation differs from the state it views (NumPy observer)", dict(cfg=m["cfg"], op="obs-numpy"), dict(m, seed=kit.seed))

    def np_legal(s, a):
        """independent NumPy statement of the push rules (used for the environment's own reaction)"""
        f, v = np.asarray(s.fixed_grid), np.asarray(s.variable_grid)
        r, c = ints(s.agent_location)
        d = [(-1, 0), (0, 1), (1, 0), (0, -1)][a]
        r1, c1, r2, c2 = r + d[0], c + d[1], r + 2 * d[0], c + 2 * d[1]
        ok = lambda x, y: 0 <= x < G and 0 <= y < G and f[x, y] != 1
        return ok(r1, c1) and (v[r1, c1] != 4 or (ok(r2, c2) and v[r2, c2] != 4))

    for cfg in kit.configs():
        env = kit.env(cfg)
        T = int(env.time_limit)
        lab = cfg["label"]
        dense = isinstance(env.reward_fn, RW.DenseReward)
        is_toy = isinstance(env.generator, GEN.ToyGenerator)
        kit.res["C11"].evaluations += 1
        kit.res["C11"].distinct.add((lab, "limit", T))
        if cfg["time_limit"] is not None and cfg["time_limit"] != T:
            kit.fail(["C11"], "configured time limit differs from env.time_limit", dict(cfg=lab, op="limit-config"), dict(expected=cfg["time_limit"], got=T))
        step_all = jax.jit(jax.vmap(jax.vmap(env.step, in_axes=(None, 0)), in_axes=(0, None)))
        visited = {}
        resets = set()
        for p in (0.0, 0.35):
            roll = kit.roll(cfg, p)
            _, st, ts, ac, fl, k0 = roll
            B, Tn = ac.shape
            # ---------------- reset: generator over the recovered draw ----------------
            gk = np.asarray(jax.vmap(lambda k: jax.random.split(k)[0])(jnp.asarray(k0)))
            if is_toy:
                sub = jax.vmap(lambda k: jax.random.split(k))(jnp.asarray(gk))
                want_key = np.asarray(sub[:, 0])
                want_idx = np.asarray(jax.vmap(lambda k: jax.random.randint(k, (), 0, 2))(sub[:, 1]))
            for b in range(B):
                s0 = envkit.R.slice_tree(st, b, 0)
                ts0 = envkit.R.slice_tree(ts, b, 0)
                m = dict(cfg=lab, p=p, b=b, t=0, key=np.asarray(k0[b]).tolist(), src="reset")
                if is_toy:
                    # the draw is recovered from the generated state (position of the agent tells the level apart)
                    i = 0 if ints(s0.agent_location) == [1, 2] else 1
                    kit.res["C10"].evaluations += 1
                    if i != int(want_idx[b]) or not np.array_equal(np.asarray(s0.key), want_key[b]):
                        kit.fail(["C10"], "recovered game index / state key differ from randint(idx_key, 0, 2) / split(key)[0] (tie broke)",
                                 dict(cfg=lab, op="draw-tie"), dict(m, recovered=i, randint=int(want_idx[b]), seed=kit.seed))
                    resets.add(i)
                    kit.res["C10"].count("toy-level:%d" % i)
                    calls.append(("sokoban_gen_io", [0, i]))
                else:
                    if not np.array_equal(np.asarray(s0.key), gk[b]):
                        kit.fail(["C10"], "SimpleSolveGenerator state key is not the generator key", dict(cfg=lab, op="draw-tie"), dict(m, seed=kit.seed))
                    calls.append(("sokoban_gen_io", [1, 0]))
                metas.append(("gen", GEN_LAYOUT, enc_state(s0) + [int(ts0.step_type), 0 if float(ts0.reward) == 0.0 else 777, dcode(ts0.discount)] + [1, 1, 1], m))
                add_check(s0, ts0, dict(m, terminal=False, reset=True))
                # ---------------- C08 / C11 per episode ----------------
                end = min(Tn, int(fl[b]))
                rew = np.asarray(ts.reward[b, 1:end + 1], np.float64)
                sf = envkit.R.slice_tree(st, b, end)
                cnt = lambda s: int(((np.asarray(s.variable_grid) == 4) & (np.asarray(s.fixed_grid) == 2)).sum())
                solved = cnt(sf) == 4
                objective = ((cnt(sf) - cnt(s0)) - 0.1 * end + 10.0 * solved) if dense else 10.0 * solved
                kit.res["C08"].evaluations += 1
                kit.res["C08"].distinct.add((lab, p, b))
                kit.res["C08"].count("solved:%d" % int(solved))
                if abs(float(rew.sum()) - objective) > 1e-4:
                    kit.fail(["C08"], "episode return differs from the documented objective recomputed from the final state",
                             dict(cfg=lab, op="objective"), dict(m, ret=float(rew.sum()), objective=objective, steps=end, seed=kit.seed))
                kit.res["C11"].evaluations += 1
                kit.res["C11"].distinct.add((lab, p, b))
                if fl[b] <= Tn and not (int(fl[b]) == T or (solved and int(fl[b]) <= T)):
                    kit.fail(["C11"], "first LAST step is not at the time limit (and the level is not solved)", dict(cfg=lab, op="limit"),
                             dict(m, first_last=int(fl[b]), time_limit=T, seed=kit.seed))
                if fl[b] > Tn and Tn >= T:
                    kit.fail(["C11"], "no LAST step although the time limit passed", dict(cfg=lab, op="limit"), dict(m, time_limit=T, seed=kit.seed))
            # ---------------- rollout transitions ----------------
            for (b, t, s, a, s2, ts2) in kit.transitions(roll):
                legal = bool(np_legal(s, int(a)))
                m = dict(cfg=lab, p=p, b=b, t=t, action=int(a), legal=legal, src="rollout", state=state_desc(s))
                add_step(lab, T, dense, s, int(a), s2, ts2, m)
                add_check(s2, ts2, dict(cfg=lab, p=p, b=b, t=t + 1, terminal=int(ts2.step_type) == 2, src="rollout"))
                visited.setdefault(hash(tuple(enc_state(s))), ("rollout", s))
        if is_toy and cfg["batch"] * 2 >= 8:
            kit.res["C10"].evaluations += 1
            if len(resets) < 2:
                kit.fail(["C10"], "ToyGenerator returned the same level for every key", dict(cfg=lab, op="key-dependence"), dict(seed=kit.seed))
        # ---------------- scripted solutions (completion bonus, termination by solving, dense vs sparse) ----------------
        scripts = [("script-simple", SOLVE_SIMPLE)] if not is_toy else [("script-toy1", SOLVE_TOY1)]
        for tag, acts in scripts:
            s0 = None
            for b in range(cfg["batch"]):
                c = envkit.R.slice_tree(kit.roll(cfg, 0.0)[1], b, 0)
                if not is_toy or ints(c.agent_location) == [1, 2]:
                    s0 = c
                    break
            if s0 is None:
                continue
            s = jax.tree_util.tree_map(jnp.asarray, s0)
            ret, n, stypes = 0.0, 0, []
            jstep = jax.jit(env.step)
            for a in acts:
                s2, ts2 = jstep(s, jnp.asarray(a, jnp.int32))
                s_np, s2_np = jax.tree_util.tree_map(np.asarray, s), jax.tree_util.tree_map(np.asarray, s2)
                ts2_np = jax.tree_util.tree_map(np.asarray, ts2)
                m = dict(cfg=lab, p=tag, b=0, t=n, action=a, legal=bool(np_legal(s_np, a)), src=tag, state=state_desc(s_np))
                add_step(lab, T, dense, s_np, a, s2_np, ts2_np.replace(extras={}), m, extras=ts2_np.extras)
                add_check(s2_np, ts2_np, dict(cfg=lab, p=tag, b=0, t=n + 1, terminal=int(ts2_np.step_type) == 2, src=tag))
                ret += float(ts2_np.reward)
                n += 1
                stypes.append(int(ts2_np.step_type))
                s = s2
                if stypes[-1] == 2:
                    break
            kit.res["C08"].evaluations += 1
            kit.res["C08"].distinct.add((lab, tag))
            solved = n == len(acts)
            if solved:
                kit.res["C08"].count("scripted-solved")
                want = (4 + 10.0 - 0.1 * n) if dense else 10.0
                if abs(ret - want) > 1e-4 or stypes[-1] != 2 or any(x != 1 for x in stypes[:-1]):
                    kit.fail(["C08", "C09"], "scripted solution: return / termination differ from the documented objective",
                             dict(cfg=lab, op="scripted"), dict(script=tag, ret=ret, want=want, step_types=stypes, seed=kit.seed))
            else:
                kit.res["C11"].evaluations += 1
                if n != T:
                    kit.fail(["C11"], "scripted play ended before the time limit without solving", dict(cfg=lab, op="scripted-limit"),
                             dict(script=tag, ended=n, time_limit=T, seed=kit.seed))
        # ---------------- synthetic boundary states ----------------
        s00 = envkit.R.slice_tree(kit.roll(cfg, 0.0)[1], 0, 0)
        for tag, s in synthetic_states(kit, T, s00.key, s00):
            s = jax.tree_util.tree_map(np.asarray, s)
            visited.setdefault(hash(tuple(enc_state(s))), (tag, s))
        # ---------------- EVERY action from every visited / constructed state ----------------
        items = list(visited.values())
        cap = 160 if kit.tier == "quick" else 1500
        if len(items) > cap:
            keep = [x for x in items if x[0] != "rollout"]
            rest = [x for x in items if x[0] == "rollout"]
            idx = kit.rng.permutation(len(rest))[:max(0, cap - len(keep))]
            items = keep + [rest[int(i)] for i in idx]
        ACTS = [0, 1, 2, 3, -1, 4, 7, -3]
        if items:
            batch = jax.tree_util.tree_map(lambda *xs: jnp.stack([jnp.asarray(x) for x in xs]), *[s for _, s in items])
            S2, TS2 = step_all(batch, jnp.asarray(ACTS, jnp.int32))
            S2 = jax.tree_util.tree_map(np.asarray, S2)
            TS2 = jax.tree_util.tree_map(np.asarray, TS2)
            EX = TS2.extras
            TS2 = TS2.replace(extras={})
            for i, (tag, s) in enumerate(items):
                phys = not tag.startswith("unphysical")
                cnt0 = int(((np.asarray(s.variable_grid) == 4) & (np.asarray(s.fixed_grid) == 2)).sum())
                for j, a in enumerate(ACTS):
                    in_spec = 0 <= a < 4
                    if not in_spec and i % 4:
                        continue
                    s2 = envkit.R.slice_tree(S2, i, j)
                    ts2 = envkit.R.slice_tree(TS2, i, j)
                    ex = dict(prop_correct_boxes=EX["prop_correct_boxes"][i, j], solved=EX["solved"][i, j])
                    legal = bool(np_legal(s, a)) if in_spec else False
                    m = dict(cfg=lab, p="all-actions", b=i, t=a, action=a, legal=legal, src=tag, state=state_desc(s), in_spec=in_spec)
                    add_step(lab, T, dense, s, a, s2, ts2, m, extras=ex, rule=phys and in_spec)
                    if not (phys and in_spec):
                        continue
                    add_check(s2, ts2, dict(cfg=lab, p="all-actions", b=i, t=a, terminal=int(ts2.step_type) == 2, src=tag))
                    # the environment's own reaction: illegal <=> nothing moves (C05)
                    same = np.array_equal(s2.variable_grid, s.variable_grid) and np.array_equal(s2.agent_location, s.agent_location)
                    kit.res["C09"].count("legal:%d" % int(legal))
                    if legal == same:
                        kit.fail(["C05", "C09"], "environment's reaction disagrees with the push rules (legal=%s, state unchanged=%s)" % (legal, same),
                                 dict(cfg=lab, op="react"), dict(m, seed=kit.seed))
                    if not legal:
                        kit.res["C05"].evaluations += 1
                        kit.res["C05"].distinct.add((lab, i, a))
                        kit.res["C05"].count("illegal:%s" % tag.split("=")[0].split("-0.")[0])
                        want_last = cnt0 == 4 or int(s.step_count) + 1 >= T
                        want_r = ((10.0 if cnt0 == 4 else 0.0) - 0.1) if dense else (10.0 if cnt0 == 4 else 0.0)
                        ok = (same and np.array_equal(s2.fixed_grid, s.fixed_grid) and int(s2.step_count) == int(s.step_count) + 1
                              and int(ts2.step_type) == (2 if want_last else 1) and abs(float(ts2.reward) - want_r) < 1e-6)
                        if not ok:
                            kit.fail(["C05"], "illegal move is not ignored (grid/agent change, wrong reward, or the episode ends without cause)",
                                     dict(cfg=lab, op="illegal-ignored"), dict(m, seed=kit.seed, got=dict(step_type=int(ts2.step_type), reward=float(ts2.reward))))

    # ---------------- run the model ----------------
    outs = kit.model(calls)
    for (entry, args), (kind, layout, exp, m), got in zip(calls, metas, outs):
        if kind in ("step", "rule", "gen"):
            if kind == "step" and len(layout) < len(LAYOUT):
                got = got[:-2]
            bad = envkit.diff_fields(layout, got, exp)
            illegal = kind != "gen" and not m["legal"] and m.get("in_spec", True)
            for pid in ("C09", "C03", "C11", "C08") + (("C12",) if kind == "step" else ()) + (("C05",) if illegal else ()) + (("C10",) if kind == "gen" else ()):
                kit.res[pid].evaluations += 1
            kit.res["C09"].distinct.add((m["cfg"], m["p"], m["b"], m["t"], kind))
            kit.res["C09"].count(kind + ":" + m["src"].split("=")[0].split("-0.")[0])
            if bad:
                pids = set()
                for f in bad:
                    pids |= set(FIELD_PROPS[f])
                if illegal:
                    pids.add("C05")
                if kind == "gen":
                    pids = {"C10"}
                who = {"step": "model", "rule": "rules", "gen": "generator model"}[kind]
                kit.fail(sorted(pids), "%s and implementation disagree (fields %s)" % (who, ",".join(bad)),
                         dict(cfg=m["cfg"], op="corr-" + kind, fields=",".join(bad)),
                         dict(m, model=dict(zip([n for n, _ in layout], _split(layout, got))), impl=dict(zip([n for n, _ in layout], _split(layout, exp))), seed=kit.seed))
        elif kind == "check":
            # got = [Physical_b, #agents, #boxes, #targets, on_target (rules), count_targets (code), Enclosed_b] ++ observe ++ extras
            phys, na, nb, nt, ont, cnt, encl = got[:7]
            key = (m["cfg"], m["p"], m["b"], m["t"])
            st_ = m["state"]
            var, fx = np.asarray(st_["variable"]), np.asarray(st_["fixed"])
            kit.res["C07"].evaluations += 1
            kit.res["C07"].distinct.add(key)
            kit.res["C07"].count("terminal" if m["terminal"] else "non-terminal")
            std = m["src"] in ("rollout", "reset") or m["src"].startswith("script-")
            nb_np = int((var == 4).sum())
            if phys != 1 or na != 1:
                kit.fail(["C07"], "state is not physically consistent (agent not unique / off-grid / on a wall / stale agent_location)",
                         dict(cfg=m["cfg"], op="physical"), dict(m, checker=got[:7], seed=kit.seed))
            if nb != nb_np or (std and (nb != 4 or nt != 4)):
                kit.fail(["C07"], "number of boxes / targets not conserved", dict(cfg=m["cfg"], op="conserved"), dict(m, checker=got[:7], seed=kit.seed))
            if std and encl != 1:
                kit.fail(["C07"], "agent or a box left the walled region of the level", dict(cfg=m["cfg"], op="enclosed"), dict(m, checker=got[:7], seed=kit.seed))
            if ont != cnt or cnt != int(((var == 4) & (fx == 2)).sum()):
                kit.fail(["C08"], "boxes-on-targets count differs (rules / code / NumPy)", dict(cfg=m["cfg"], op="count"), dict(m, checker=got[:7], seed=kit.seed))
            if exp is not None:
                kit.res["C12"].evaluations += 1
                kit.res["C12"].distinct.add(key)
                if got[7:7 + 2 * N2 + 1] != exp:
                    kit.fail(["C12"], "observation differs from the model's view of the state", dict(cfg=m["cfg"], op="obs-model"), dict(m, seed=kit.seed))
        elif kind == "levels":
            kit.res["C10"].evaluations += 1
            if got != exp:
                kit.fail(["C10"], "level texts in generator.py differ from the model's literals (the model must be updated)",
                         dict(cfg="source", op="levels"), dict(model=got, source=exp))
        elif kind == "convert":
            kit.res["C10"].evaluations += 1
            kit.res["C10"].distinct.add(m["cfg"])
            if got != exp:
                kit.fail(["C10"], "convert_level_to_array / get_agent_coordinates model disagrees", dict(cfg=m["cfg"], op="corr-convert"),
                         dict(m, model=got, impl=exp))
    for pid in PROPS:
        kit.res[pid].traces += len(calls)
        if not kit.res[pid].samples:
            ex = [mm[3] for mm in metas if mm[0] == "step"][:1]
            kit.res[pid].samples.append(dict(env=NAME, example=ex[0] if ex else None))
    kit.res["C09"].notes.append("docs/environments/sokoban.md and the docstring of Sokoban.step list the actions as [Up, Down, Left, Right]; the code "
                                "(constants.MOVES, class docstring, action_spec docstring) implements [Up, Right, Down, Left] "
                                "(Coq: C09_Sokoban_md_action_order_refuted).")
    kit.res["C10"].notes.append("ToyGenerator level2 cannot be solved: the box at (2,1) stands against the left wall in a column without a target "
                                "(Coq: C10_Sokoban_toy_level2_never_solved); solvability is only advertised for the Boxoban dataset.")


def _split(layout, xs):
    out, i = [], 0
    for _, n in layout:
        out.append(xs[i:i + n])
        i += n
    return out
