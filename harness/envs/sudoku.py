"""Sudoku: correspondence with coq/Model/Sudoku.v + verified checkers on implementation states.

What is compared, per transition of the REAL environment (mask-respecting rollouts, 35 %-uniform rollouts, episodes played by a
backtracking solver up to completion, directly constructed boundary states):
  sudoku_step_io   the Impl model (get_action_mask as the code computes it, is_puzzle_solved by sorting)  -> board, mask, timestep
  sudoku_rules_io  the declarative rules (legal_b table, full && conflict-free)                           -> board, mask, timestep
  sudoku_check_io  verified checkers on the implementation's own state: shape, conflict-free, mask == legal table, #empty cells
  sudoku_allact_io EVERY one of the 729 actions from selected states (real env.step under vmap) -> step type, reward, |mask'|
  sudoku_init_io / sudoku_gen_io   reset = database entry minus one (+ mask); the draw (index) is recomputed from the reset key
  sudoku_puzzles_io  verified well-formedness checker over the records of every shipped database (all of them in the thorough tier)
"""
import os

import numpy as np

from harness import core, envkit

NAME = "sudoku"
PROPS = ["C04", "C05", "C06", "C09", "C10", "C11", "C12"]
APPLIES = PROPS

DATA = os.path.join(core.REPO, "jumanji", "environments", "logic", "sudoku", "data")
LAYOUT = [("board", 81), ("action_mask", 729), ("step_type", 1), ("reward", 1), ("discount", 1)]
ACTIONS = np.array([(r, c, d) for r in range(9) for c in range(9) for d in range(9)], np.int32)
_NEAR = {}


def near_db():
    """solved grids (digit relabelling, row/column permutations inside bands, band permutations, transposition of the
    sample solution) with 0..12 cells blanked: mask-respecting play reaches completion, dead ends and the full board"""
    if "db" not in _NEAR:
        from jumanji.environments.logic.sudoku.constants import SOLVED_BOARD_SAMPLE
        rng = np.random.default_rng(20260926)
        holes = [0, 1, 1, 2, 2, 3, 3, 4, 5, 6, 8, 10, 12, 2, 3, 4]
        out = []
        for k in holes:
            g = np.array(SOLVED_BOARD_SAMPLE)
            g = (rng.permutation(9) + 1)[g - 1]
            rows = np.concatenate([b * 3 + rng.permutation(3) for b in rng.permutation(3)])
            cols = np.concatenate([b * 3 + rng.permutation(3) for b in rng.permutation(3)])
            g = g[rows][:, cols]
            if rng.random() < 0.5:
                g = g.T
            g = np.ascontiguousarray(g).copy()
            g.reshape(-1)[rng.choice(81, k, replace=False)] = 0
            out.append(g)
        _NEAR["db"] = np.stack(out).astype(np.int8)
    return _NEAR["db"]


def extra_configs(tier, add):
    import jumanji.environments as E
    from jumanji.environments.logic.sudoku.generator import DatabaseGenerator, DummyGenerator
    add("dummy", lambda: E.Sudoku(generator=DummyGenerator()), 20, batch=2)
    add("near", lambda: E.Sudoku(generator=DatabaseGenerator(database=near_db())), 14, batch=(16 if tier == "quick" else 48))


# ---------------------------------------------------------------------------------------------------------------
def enc_state(s):
    return [int(x) for x in np.asarray(s.board).reshape(-1)] + [int(x) for x in np.asarray(s.action_mask).reshape(-1)]


def enc_out(s2, ts):
    r = float(np.asarray(ts.reward))
    return enc_state(s2) + [int(ts.step_type), int(r) if r == int(r) else 10 ** 9, int(round(float(np.asarray(ts.discount))))]


def solve(p):
    """backtracking (most-constrained cell first) on a 9x9 array with 0 = empty; -> list of (r, c, digit-1) or None"""
    g = [[int(x) for x in row] for row in np.asarray(p)]
    rows = [0] * 9
    cols = [0] * 9
    boxs = [0] * 9
    for r in range(9):
        for c in range(9):
            v = g[r][c]
            if v:
                bit = 1 << v
                if (rows[r] | cols[c] | boxs[r // 3 * 3 + c // 3]) & bit:
                    return None
                rows[r] |= bit
                cols[c] |= bit
                boxs[r // 3 * 3 + c // 3] |= bit
    order = []
    budget = [200000]

    def rec():
        budget[0] -= 1
        if budget[0] < 0:
            return False
        best, bc = None, 10
        for r in range(9):
            for c in range(9):
                if g[r][c] == 0:
                    used = rows[r] | cols[c] | boxs[r // 3 * 3 + c // 3]
                    n = 9 - bin(used >> 1).count("1")
                    if n < bc:
                        best, bc = (r, c), n
        if best is None:
            return True
        r, c = best
        used = rows[r] | cols[c] | boxs[r // 3 * 3 + c // 3]
        for v in range(1, 10):
            bit = 1 << v
            if not used & bit:
                g[r][c] = v
                rows[r] |= bit
                cols[c] |= bit
                boxs[r // 3 * 3 + c // 3] |= bit
                order.append((r, c, v - 1))
                if rec():
                    return True
                order.pop()
                g[r][c] = 0
                rows[r] &= ~bit
                cols[c] &= ~bit
                boxs[r // 3 * 3 + c // 3] &= ~bit
        return False
    return order if rec() else None


def boundary_boards(rng):
    """directly constructed positions (-1 = empty): the step function is a function of the state"""
    from jumanji.environments.logic.sudoku.constants import SOLVED_BOARD_SAMPLE, INITIAL_BOARD_SAMPLE
    sol = np.array(SOLVED_BOARD_SAMPLE, np.int32) - 1
    out = [("solved-full", sol.copy()), ("empty", np.full((9, 9), -1, np.int32)),
           ("sample-initial", np.array(INITIAL_BOARD_SAMPLE, np.int32) - 1)]
    b = sol.copy()
    b[4, 7] = -1
    out.append(("one-hole", b))
    b = sol.copy()
    b[0, 0] = -1
    b[8, 8] = -1
    out.append(("two-holes-corners", b))
    # dead end: (0,0) empty and its digit already used elsewhere in row 0 instead of the right one; other holes remain
    b = sol.copy()
    v = b[0, 0]
    b[0, 0] = -1
    b[0, 5] = -1
    b[3, 3] = -1
    b[0, 5] = v          # v now sits in row 0: (0,0) has no candidate (all others are in its row/col/box)
    out.append(("misplaced-digit", b))
    # one step before a dead end: two holes in one row, filling the first with the other's digit kills the second
    b = sol.copy()
    b[2, 1] = -1
    b[2, 6] = -1
    out.append(("two-holes-row", b))
    # a position that already violates the constraints (never produced by legal play): model = code on ANY state
    b = sol.copy()
    b[5, 5] = b[5, 4]
    b[7, 2] = -1
    out.append(("conflicting", b))
    b = sol.copy()
    b[1, 1] = b[1, 2]
    out.append(("full-conflicting", b))
    # sparse random legal partial fill
    b = np.full((9, 9), -1, np.int32)
    for i in rng.choice(81, 30, replace=False):
        b[i // 9, i % 9] = sol[i // 9, i % 9]
    out.append(("partial-30", b))
    return out


def analyze(kit):
    import jax
    import jax.numpy as jnp
    from jumanji.environments.logic.sudoku.generator import DatabaseGenerator
    from jumanji.environments.logic.sudoku.types import State
    from jumanji.environments.logic.sudoku.utils import get_action_mask

    q = kit.tier == "quick"
    calls, metas = [], []
    R = envkit.R
    cfgs = kit.configs()
    env0 = kit.env(cfgs[0])
    step_jit = jax.jit(env0.step)
    step_all = jax.jit(jax.vmap(env0.step, in_axes=(None, 0)))
    allact_states = []      # (where-dict, state)

    def add_transition(cfgl, p, b, t, s, a, s2, ts2, legal_run):
        a = [int(x) for x in np.asarray(a)]
        legal = bool(np.asarray(s.action_mask)[a[0], a[1], a[2]])
        e = enc_state(s)
        m = dict(cfg=cfgl, p=p, b=b, t=t, action=a, legal=legal, legal_so_far=legal_run,
                 any_legal=bool(np.asarray(s.action_mask).any()), board=np.asarray(s.board).tolist())
        exp = enc_out(s2, ts2)
        calls.append(("sudoku_step_io", e + a))
        metas.append(("step", exp, m))
        calls.append(("sudoku_rules_io", e + a))
        metas.append(("rules", exp, m))
        calls.append(("sudoku_check_io", e))
        metas.append(("check", None, dict(m, after=False, empties_next=int((np.asarray(s2.board) == -1).sum()),
                                          st=int(ts2.step_type), rew=float(np.asarray(ts2.reward)))))
        if int(ts2.step_type) == 2:
            calls.append(("sudoku_check_io", enc_state(s2)))
            metas.append(("check", None, dict(m, after=True, legal_so_far=legal_run and legal, board=np.asarray(s2.board).tolist(),
                                              st=2, rew=float(np.asarray(ts2.reward)))))
        # C12: the observation is a copy of (board, action_mask) of the state returned with it
        kit.res["C12"].evaluations += 1
        kit.res["C12"].distinct.add((cfgl, p, b, t))
        o = ts2.observation
        if not (np.array_equal(o.board, s2.board) and np.array_equal(o.action_mask, s2.action_mask)):
            kit.fail(["C12"], "observation differs from the state it views", dict(cfg=cfgl, op="obs-copy"),
                     dict(p=p, b=b, t=t, seed=kit.seed, board=np.asarray(s.board).tolist(), action=a))

    for cfg in cfgs:
        env = kit.env(cfg)
        label = cfg["label"]
        gen = env._generator
        db = np.asarray(gen._boards) if isinstance(gen, DatabaseGenerator) else None
        for p in (0.0, 0.35):
            roll = kit.roll(cfg, p)
            _, st, ts, ac, fl, k0 = roll
            B, T = ac.shape[0], ac.shape[1]
            for b in range(B):
                s0 = R.slice_tree(st, b, 0)
                ts0 = R.slice_tree(ts, b, 0)
                puzzle = (np.asarray(s0.board) + 1).reshape(-1)
                exp0 = enc_out(s0, ts0)
                m0 = dict(cfg=label, p=p, b=b, t=0, key=np.asarray(k0[b]).tolist())
                o0 = ts0.observation
                kit.res["C12"].evaluations += 1
                if not (np.array_equal(o0.board, s0.board) and np.array_equal(o0.action_mask, s0.action_mask)):
                    kit.fail(["C12"], "reset observation differs from the state", dict(cfg=label, op="obs-copy-reset"), dict(m0, seed=kit.seed))
                if db is not None:
                    # recover the draw: DatabaseGenerator splits the key and samples randint(idx_key, 0, len(db))
                    key, idx_key = jax.random.split(jnp.asarray(k0[b]))
                    idx = int(jax.random.randint(idx_key, shape=(), minval=0, maxval=db.shape[0]))
                    m0["idx"] = idx
                    kit.res["C10"].evaluations += 1
                    kit.res["C10"].count("draw-recovered")
                    if not (0 <= idx < db.shape[0]) or not np.array_equal(np.asarray(db[idx], np.int32) - 1, s0.board) \
                            or not np.array_equal(np.asarray(key), np.asarray(s0.key)):
                        kit.fail(["C10"], "reset state is not database[idx]-1 for the index drawn from the reset key",
                                 dict(cfg=label, op="draw"), dict(m0, seed=kit.seed))
                    if db.shape[0] <= 64:
                        calls.append(("sudoku_gen_io", [db.shape[0], idx] + [int(x) for x in db.reshape(-1)]))
                        metas.append(("init", [1] + exp0, m0))
                    puzzle = np.asarray(db[idx], np.int64).reshape(-1)
                calls.append(("sudoku_init_io", [int(x) for x in puzzle]))
                metas.append(("init", exp0, m0))
                calls.append(("sudoku_puzzles_io", [1] + [int(x) for x in puzzle]))
                metas.append(("puzzles", None, dict(m0, src="reset:" + label, n=1)))
                # C11: structural horizon 81 - givens (at least one step: a full board ends at the first step)
                e0 = int((np.asarray(s0.board) == -1).sum())
                H = max(1, e0)
                kit.res["C11"].evaluations += 1
                kit.res["C11"].distinct.add((label, p, b))
                kit.res["C11"].count("ended" if fl[b] <= T else "cut-by-rollout")
                if (fl[b] <= T and fl[b] > H) or (fl[b] > T and T >= H):
                    kit.fail(["C11"], "episode longer than 81 - givens", dict(cfg=label, op="horizon-givens"),
                             dict(m0, empties=e0, first_last=int(fl[b]), seed=kit.seed))
            for (b, t, s, a, s2, ts2) in kit.transitions(roll):
                add_transition(label, p, b, t, s, a, s2, ts2, p == 0.0)
                if b < 2 and t in (0, 1, int(fl[b]) - 1) and len(allact_states) < (40 if q else 200):
                    allact_states.append((dict(cfg=label, p=p, b=b, t=t), s))
        # ---- solver-driven episodes: mask-respecting play up to COMPLETION on real database puzzles
        nsolve = (2 if q else 10)
        keys = jax.random.split(jax.random.PRNGKey(kit.seed * 31 + 5), nsolve)
        for b in range(nsolve):
            s, ts0 = jax.jit(env.reset)(keys[b])
            if hasattr(gen, "_solved_board"):   # DummyGenerator ships the solution of its (17-clue) puzzle
                sb, b0 = np.asarray(gen._solved_board), np.asarray(s.board)
                sol = [(r, c, int(sb[r, c])) for r in range(9) for c in range(9) if b0[r, c] == -1]
            else:
                sol = solve(np.asarray(s.board) + 1)
            kit.res["C06"].count("solver:%s" % ("solved" if sol is not None else "no-solution-found"))
            if sol is None:
                continue
            e0 = len(sol)
            last = None
            for t, a in enumerate(sol):
                s2, ts2 = step_jit(s, jnp.asarray(a, jnp.int32))
                sn, s2n, ts2n = (jax.tree_util.tree_map(np.asarray, x) for x in (s, s2, ts2))
                add_transition(label, "solver", b, t, sn, a, s2n, ts2n, True)
                if t == e0 - 2:
                    allact_states.append((dict(cfg=label, p="solver", b=b, t=t), sn))
                s, last = s2, ts2n
                if int(ts2n.step_type) == 2:
                    kit.res["C11"].evaluations += 1
                    if t + 1 != e0:
                        kit.fail(["C06", "C11"], "a legal solution sequence ended before the board was complete",
                                 dict(cfg=label, op="solver-early-end"), dict(b=b, t=t, key=np.asarray(keys[b]).tolist(), seed=kit.seed))
                    break
            if last is not None:
                kit.res["C06"].evaluations += 1
                kit.res["C06"].distinct.add((label, "solver", b))
                if not (int(last.step_type) == 2 and float(np.asarray(last.reward)) == 1.0):
                    kit.fail(["C06", "C09"], "completing a puzzle with a valid solution did not end the episode with reward 1",
                             dict(cfg=label, op="solver-completion"), dict(b=b, key=np.asarray(keys[b]).tolist(), seed=kit.seed))

    # ---- directly constructed boundary states: every action from each
    for name, board in boundary_boards(kit.rng):
        bj = jnp.asarray(board, jnp.int32)
        s = State(board=bj, action_mask=get_action_mask(bj), key=jax.random.PRNGKey(0))
        allact_states.append((dict(cfg="boundary:" + name, p="direct", b=0, t=0), jax.tree_util.tree_map(np.asarray, s)))

    # ---- EVERY action of the 729 from the selected states, by the real step under vmap
    for where, s in allact_states:
        s2, ts2 = step_all(jax.tree_util.tree_map(jnp.asarray, s), jnp.asarray(ACTIONS))
        s2, ts2 = jax.tree_util.tree_map(np.asarray, (s2, ts2))
        mask = np.asarray(s.action_mask).reshape(-1)
        board = np.asarray(s.board)
        sty = ts2.step_type.astype(int)
        rew = ts2.reward.astype(float)
        cnt = s2.action_mask.reshape(729, -1).sum(axis=1).astype(int)
        exp = np.stack([sty, rew.astype(int), cnt], axis=1).reshape(-1).tolist()
        calls.append(("sudoku_allact_io", enc_state(s)))
        metas.append(("allact", exp, dict(where, board=board.tolist())))
        any_legal = bool(mask.any())
        kit.res["C04"].count("all-actions-states")
        for i, (r, c, d) in enumerate(ACTIONS):
            nb = board.copy()
            nb[r, c] = d
            rep = dict(where, action=[int(r), int(c), int(d)], board=board.tolist(), seed=kit.seed)
            kit.res["C09"].evaluations += 1
            if not np.array_equal(s2.board[i], nb):
                kit.fail(["C09"], "successor board is not the board with the digit written at (r,c)", dict(cfg=where["cfg"], op="placement"), rep)
            # independent statement of the rules
            rule = board[r, c] == -1 and not (board[r, :] == d).any() and not (board[:, c] == d).any() \
                and not (board[r // 3 * 3:r // 3 * 3 + 3, c // 3 * 3:c // 3 * 3 + 3] == d).any()
            kit.res["C04"].evaluations += 1
            if bool(mask[i]) != bool(rule):
                kit.fail(["C04"], "mask entry differs from the rules (cell empty, digit absent from row/column/box)",
                         dict(cfg=where["cfg"], op="mask-vs-rules"), rep)
            if mask[i]:
                # the env's own reaction: a masked-in action must not be treated as invalid: MID, or LAST only because no action is left
                if sty[i] == 2 and cnt[i] != 0:
                    kit.fail(["C04"], "a masked-in action ended the episode although actions remain (treated as invalid)",
                             dict(cfg=where["cfg"], op="mask-in-reaction"), rep)
            else:
                kit.res["C05"].evaluations += 1
                kit.res["C05"].distinct.add((where["cfg"], where["p"], where["b"], where["t"], i))
                kit.res["C05"].count("illegal-action-steps")
                if sty[i] != 2 or float(ts2.discount[i]) != 0.0:
                    kit.fail(["C04", "C05"], "an illegal (masked-out) action did not terminate the episode", dict(cfg=where["cfg"], op="invalid-last"), rep)
                if any_legal and rew[i] != 0.0:
                    kit.fail(["C05"], "an illegal action on a non-terminal position got a non-zero reward", dict(cfg=where["cfg"], op="invalid-reward"), rep)
        kit.res["C04"].distinct.add((where["cfg"], where["p"], where["b"], where["t"], "all"))

    # ---- C10: every shipped database through the verified checker
    from jumanji.environments.logic.sudoku.data import DATABASES
    from jumanji.environments.logic.sudoku.constants import INITIAL_BOARD_SAMPLE
    files = sorted(f for f in os.listdir(DATA) if f.endswith(".npy"))
    for f in DATABASES.values():
        if f not in files:
            kit.fail(["C10"], "a database named in DATABASES is not shipped", dict(op="db-missing", file=f), dict(file=f))
    for f in files:
        arr = np.load(os.path.join(DATA, f))
        ok_shape = arr.ndim == 3 and arr.shape[1:] == (9, 9) and arr.shape[0] > 0
        if not ok_shape:
            kit.fail(["C10"], "shipped database is not (n, 9, 9)", dict(op="db-shape", file=f), dict(shape=list(arr.shape)))
            continue
        if q:
            sel = np.unique(np.concatenate([np.arange(min(100, arr.shape[0])), kit.rng.choice(arr.shape[0], min(200, arr.shape[0]), replace=False)]))
        else:
            sel = np.arange(arr.shape[0])
        kit.res["C10"].count("db-records:" + f, len(sel))
        for i in range(0, len(sel), 40):
            ids = sel[i:i + 40]
            calls.append(("sudoku_puzzles_io", [len(ids)] + [int(x) for x in arr[ids].reshape(-1)]))
            metas.append(("puzzles", None, dict(src=f, n=len(ids), ids=[int(ids[0]), int(ids[-1])], idlist=ids.tolist())))
    calls.append(("sudoku_puzzles_io", [1] + [int(x) for x in np.asarray(INITIAL_BOARD_SAMPLE).reshape(-1)]))
    metas.append(("puzzles", None, dict(src="INITIAL_BOARD_SAMPLE", n=1)))
    # negative controls for the checker itself (must be rejected): duplicate in a row / a column / a box, value 10
    from jumanji.environments.logic.sudoku.constants import SOLVED_BOARD_SAMPLE
    for k, (r, c, v) in enumerate([(0, 1, None), (1, 0, None), (1, 1, None), (4, 4, 10)]):
        g = np.zeros((9, 9), int)
        g[0, 0] = 5
        g[r, c] = 5 if v is None else v
        calls.append(("sudoku_puzzles_io", [1] + [int(x) for x in g.reshape(-1)]))
        metas.append(("puzzles-neg", None, dict(src="negative-control-%d" % k)))

    outs = kit.model(calls)
    prev_empties = {}
    for (entry, args), (kind, exp, m), got in zip(calls, metas, outs):
        if kind in ("step", "rules", "init"):
            lay = ([("valid_draw", 1)] if len(exp) == 814 else []) + LAYOUT
            bad = envkit.diff_fields(lay, got, exp)
            pids = ["C09"] if kind != "init" else ["C10", "C09"]
            for pid in pids + (["C04"] if kind == "step" else []):
                kit.res[pid].evaluations += 1
            kit.res[pids[0]].distinct.add((kind, m["cfg"], m["p"], m["b"], m["t"]))
            if kind == "step" and not m["legal"]:
                kit.res["C05"].evaluations += 1
                kit.res["C05"].distinct.add((m["cfg"], m["p"], m["b"], m["t"]))
                kit.res["C05"].count("illegal-action-steps")
                if exp[810] != 2 or exp[812] != 0:
                    kit.fail(["C05"], "an illegal action did not terminate the episode", dict(cfg=m["cfg"], op="invalid-last"), dict(m, seed=kit.seed))
                if m["any_legal"] and exp[811] != 0:
                    kit.fail(["C05"], "an illegal action on a non-terminal position got a non-zero reward", dict(cfg=m["cfg"], op="invalid-reward"), dict(m, seed=kit.seed))
            if bad:
                f = set(pids)
                if "action_mask" in bad:
                    f.add("C04")
                if kind != "init" and not m["legal"]:
                    f.add("C05")
                kit.fail(sorted(f), "%s and implementation disagree on %s (fields %s)" % (
                    "declarative rules" if kind == "rules" else "model", kind, ",".join(bad)),
                    dict(cfg=m["cfg"], op="corr-" + kind, fields=",".join(bad)),
                    dict(m, model=got[-3:], impl=exp[-3:], seed=kit.seed))
        elif kind == "check":
            shape_ok, cf, mask_ok, empties, solved_ok = got
            kit.res["C04"].evaluations += 1
            kit.res["C04"].distinct.add((m["cfg"], m["p"], m["b"], m["t"], m["after"]))
            if mask_ok != 1:
                kit.fail(["C04"], "action mask is not the table of legal placements (verified checker on implementation state)",
                         dict(cfg=m["cfg"], op="mask-exact"), dict(m, seed=kit.seed))
            if shape_ok != 1:
                kit.fail(["C09"], "board is not 9x9 over -1..8", dict(cfg=m["cfg"], op="shape"), dict(m, seed=kit.seed))
            if solved_ok != 1:
                kit.fail(["C09"], "is_puzzle_solved (sorting) differs from full && conflict-free", dict(cfg=m["cfg"], op="solved-def"), dict(m, seed=kit.seed))
            if m["legal_so_far"]:
                kit.res["C06"].evaluations += 1
                kit.res["C06"].distinct.add((m["cfg"], m["p"], m["b"], m["t"], m["after"]))
                if cf != 1:
                    kit.fail(["C06"], "a digit repeats in a row, column or box under mask-respecting play",
                             dict(cfg=m["cfg"], op="conflict-free"), dict(m, seed=kit.seed))
                if m["after"]:
                    kit.res["C06"].count("terminal:%s" % ("complete" if empties == 0 else "dead-end"))
                    # completion <=> reward 1 (a complete conflict-free grid), dead end => reward 0
                    if (empties == 0) != (m["rew"] == 1.0):
                        kit.fail(["C06", "C09"], "terminal reward does not tell completion from dead end",
                                 dict(cfg=m["cfg"], op="completion-reward"), dict(m, empties=empties, seed=kit.seed))
            if not m["after"]:
                # C11 counter: a MID step fills exactly one empty cell
                kit.res["C11"].evaluations += 1
                if m["st"] == 1 and not (m["empties_next"] == empties - 1 and m["empties_next"] >= 1):
                    kit.fail(["C11"], "a non-terminal step did not consume exactly one empty cell", dict(cfg=m["cfg"], op="counter"), dict(m, empties=empties, seed=kit.seed))
        elif kind == "allact":
            kit.res["C09"].evaluations += 729
            kit.res["C09"].distinct.add(("allact", m["cfg"], m["p"], m["b"], m["t"]))
            if got != exp:
                ks = [i // 3 for i in range(len(exp)) if i >= len(got) or got[i] != exp[i]][:3]
                kit.fail(["C09", "C05", "C04"], "model and implementation disagree on some of the 729 actions of a state (step type / reward / size of next mask)",
                         dict(cfg=m["cfg"], op="corr-allact"), dict(m, actions=[ACTIONS[k].tolist() for k in ks if k < 729],
                                                                   model=[got[3 * k:3 * k + 3] for k in ks], impl=[exp[3 * k:3 * k + 3] for k in ks], seed=kit.seed))
        elif kind == "puzzles":
            kit.res["C10"].evaluations += m["n"]
            kit.res["C10"].distinct.add((m["src"], tuple(m.get("ids", [m.get("b", 0), m.get("p", 0)]))))
            if got[0] != 0:
                first = m["idlist"][got[1]] if "idlist" in m and 0 <= got[1] < len(m["idlist"]) else got[1]
                kit.fail(["C10"], "a shipped puzzle is not a well-formed conflict-free 9x9 grid over 0..9",
                         dict(op="db-conflict", file=m["src"]), dict(src=m["src"], bad=got[0], first_bad_record=first, seed=kit.seed))
            lo, hi = prev_empties.get(m["src"], (81, 0))
            prev_empties[m["src"]] = (min(lo, got[2]), max(hi, got[3]))
        elif kind == "puzzles-neg":
            kit.res["C10"].evaluations += 1
            if got[0] != 1:
                kit.fail(["C10"], "the verified checker accepted a conflicting grid (negative control)", dict(op="checker-control"), dict(m))
    for src, (lo, hi) in sorted(prev_empties.items()):
        if src.endswith(".npy"):
            kit.res["C10"].notes.append("%s: number of clues over the checked records between %d and %d" % (src, 81 - hi, 81 - lo))
    for pid in PROPS:
        kit.res[pid].traces += len(calls)
        if not kit.res[pid].samples:
            kit.res[pid].samples.append(dict(env=NAME, example={k: v for k, v in metas[min(5, len(metas) - 1)][2].items() if k != "board"}))
