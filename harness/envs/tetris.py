"""Tetris: correspondence with coq/Model/Tetris.v + verified checkers on implementation states.

Every transition of the real environment (rollouts under the mask-respecting and the 35 %-uniform policy, EVERY
action (rotation, column) from sampled visited states, EVERY action from directly constructed boundary states:
almost-full rows, overhangs, tall stacks, random fillings, for each of the 7 tetrominoes) is replayed in the extracted
model `step` and compared field by field (state, timestep, observation).  The index of the next tetromino is a random
draw: it is recovered from the implementation's successor state and must satisfy `valid_draw`.
The verified boolean checkers (`Physical_b`, mask = `legal_mask`, `rest_row_b`, grid' = `clear (stamp ..)`, the cell
count equation, `view`) are evaluated on the IMPLEMENTATION's own states and transitions.
Rewards are integral floats (REWARD_LIST) and are compared exactly."""
import numpy as np

from harness import envkit

NAME = "tetris"
PROPS = ["C04", "C05", "C07", "C08", "C09", "C10", "C12"]
APPLIES = PROPS


def extra_configs(tier, add):
    import jumanji.environments as E
    mk = lambda r, c: (lambda t: E.Tetris(num_rows=r, num_cols=c, time_limit=t))
    extra = [(4, 4, 12, 14), (9, 4, 40, 42)]
    if tier != "quick":
        extra += [(4, 7, 25, 27), (7, 6, 3, 6)]
    for (r, c, t, steps) in extra:
        add("r%dc%dt%d" % (r, c, t), (lambda r=r, c=c, t=t: E.Tetris(num_rows=r, num_cols=c, time_limit=t)), steps,
            time_limit=t, mk=mk(r, c))
    if tier != "quick":
        add("r12c5t80", lambda: E.Tetris(num_rows=12, num_cols=5, time_limit=80), 84, time_limit=80, mk=mk(12, 5))
        add("r5c13t60", lambda: E.Tetris(num_rows=5, num_cols=13, time_limit=60), 64, time_limit=60, mk=mk(5, 13))


def ints(a):
    return [int(x) for x in np.asarray(a).reshape(-1)]


def fl2i(x):
    x = float(x)
    if x != round(x):
        raise ValueError("non-integral reward/score %r" % x)
    return int(round(x))


def enc_in(env, s):
    return ([env.num_rows, env.num_cols, int(env.time_limit)] + ints(s.grid_padded) + [int(s.tetromino_index)]
            + ints(s.action_mask) + [fl2i(s.score), int(s.step_count)])


def enc_out(s2, ts):
    o = ts.observation
    return (ints(s2.grid_padded) + ints(s2.grid_padded_old) + [int(s2.tetromino_index)] + ints(s2.old_tetromino_rotated)
            + ints(s2.new_tetromino) + [int(s2.x_position), int(s2.y_position)] + ints(s2.action_mask) + ints(s2.full_lines)
            + [fl2i(s2.score), fl2i(s2.reward), int(bool(s2.is_reset)), int(s2.step_count)]
            + [int(ts.step_type), fl2i(ts.reward), fl2i(ts.discount)]
            + ints(o.grid) + ints(o.tetromino) + ints(o.action_mask) + [int(o.step_count)])


def layout_of(env):
    nr, nc = env.num_rows, env.num_cols
    G = (nr + 3) * (nc + 3)
    return [("grid_padded", G), ("grid_padded_old", G), ("tetromino_index", 1), ("old_tetromino_rotated", 16), ("new_tetromino", 16),
            ("x_position", 1), ("y_position", 1), ("action_mask", 4 * nc), ("full_lines", nr + 3), ("score", 1), ("state_reward", 1),
            ("is_reset", 1), ("step_count", 1), ("step_type", 1), ("reward", 1), ("discount", 1),
            ("obs_grid", nr * nc), ("obs_tetromino", 16), ("obs_action_mask", 4 * nc), ("obs_step_count", 1)]


FIELD_PROPS = {
    "grid_padded": ["C09", "C07"], "grid_padded_old": ["C09"], "tetromino_index": ["C09"], "old_tetromino_rotated": ["C09"],
    "new_tetromino": ["C09"], "x_position": ["C09"], "y_position": ["C09"], "action_mask": ["C04", "C09"], "full_lines": ["C09", "C07"],
    "score": ["C08", "C09"], "state_reward": ["C08", "C09"], "is_reset": ["C09"], "step_count": ["C09"], "step_type": ["C09"],
    "reward": ["C08", "C09"], "discount": ["C09"], "obs_grid": ["C12"], "obs_tetromino": ["C12"], "obs_action_mask": ["C12", "C04"],
    "obs_step_count": ["C12"], "length": ["C09"],
}


def boundary_grids(env, rng, quick):
    """padded grids that random play rarely reaches (values are colour ids >= 1; no full row; padding stays 0)"""
    nr, nc = env.num_rows, env.num_cols
    out = []

    def pad(v):
        g = np.zeros((nr + 3, nc + 3), np.int32)
        g[:nr, :nc] = v
        return g
    for k in (1, 2, 3, 4):          # k bottom rows full except one column -> vertical I clears k lines
        for hole in sorted({0, nc // 2, nc - 1}):
            v = np.zeros((nr, nc), np.int32)
            v[nr - k:, :] = rng.integers(1, 4, size=(k, nc))
            v[nr - k:, hole] = 0
            out.append(("almost-full-%d-hole%d" % (k, hole), pad(v)))
    for k in (1, 2):                # two-wide hole (O / S / Z / L pieces complete the lines)
        v = np.zeros((nr, nc), np.int32)
        v[nr - k:, :] = 2
        v[nr - k:, 1:3] = 0
        out.append(("almost-full-%d-hole2" % k, pad(v)))
    v = np.zeros((nr, nc), np.int32)  # staggered holes: lines clear non-contiguously
    v[nr - 3:, :] = 1
    v[nr - 3, 0] = 0
    v[nr - 2, nc - 1] = 0
    v[nr - 1, 0] = 0
    out.append(("staggered", pad(v)))
    v = np.zeros((nr, nc), np.int32)  # overhang: row 1 filled on the left, empty below
    v[1, : nc - 1] = 3
    out.append(("overhang-row1", pad(v)))
    v = np.zeros((nr, nc), np.int32)
    v[0, 1:] = 1
    out.append(("overhang-row0", pad(v)))
    v = np.zeros((nr, nc), np.int32)  # roof with a chimney at column 0 and a cave below
    v[2, 1:] = 5
    out.append(("roof-row2", pad(v)))
    v = np.zeros((nr, nc), np.int32)  # tall stack: only the top row / two rows free
    v[1:, : nc - 1] = 1
    out.append(("tall-1", pad(v)))
    v = np.zeros((nr, nc), np.int32)
    v[2:, 1:] = 7
    out.append(("tall-2", pad(v)))
    v = np.zeros((nr, nc), np.int32)  # no action possible at all
    v[0, ::2] = 1
    v[1, 1::2] = 1
    out.append(("blocked", pad(v)))
    for dens in ((0.3, 0.6) if quick else (0.2, 0.4, 0.6, 0.8)):
        for rep in range(1 if quick else 3):
            v = (rng.random((nr, nc)) < dens).astype(np.int32) * rng.integers(1, 5, size=(nr, nc)).astype(np.int32)
            v[0, :] = v[0, :] * (rng.random(nc) < 0.3)
            for i in range(nr):
                if (v[i] != 0).all():
                    v[i, rng.integers(0, nc)] = 0
            out.append(("random-%.1f-%d" % (dens, rep), pad(v)))
    return out


def analyze(kit):
    import jax
    import jax.numpy as jnp
    quick = kit.tier == "quick"
    calls, metas = [], []
    draws_seen = set()

    def add_transition(env, cfgl, s, a, s2, ts2, origin, where):
        """one implementation transition -> model step + transition checkers"""
        rot, x = int(a[0]), int(a[1])
        legal = bool(np.asarray(s.action_mask)[rot, x])
        d = int(s2.tetromino_index)          # the recovered draw
        e = enc_in(env, s)
        m = dict(where, cfg=cfgl, origin=origin, action=[rot, x], legal=legal, draw=d,
                 state=dict(grid=np.asarray(s.grid_padded).tolist(), tetromino_index=int(s.tetromino_index), step_count=int(s.step_count)))
        calls.append(("tetris_step_io", e + [rot, x, d]))
        metas.append(("step", layout_of(env), enc_out(s2, ts2), m))
        if legal:
            calls.append(("tetris_trans_io", e + [rot, x, int(s2.y_position)] + ints(s2.grid_padded)))
            metas.append(("trans", None, int(np.asarray(s2.full_lines).sum()), m))
        calls.append(("tetris_view_io", enc_in(env, s2)))
        o = ts2.observation
        metas.append(("view", None, ints(o.grid) + ints(o.tetromino) + ints(o.action_mask) + [int(o.step_count)], m))
        if int(ts2.step_type) != 2:          # non-terminal successor: must be physical (C07), its draw valid
            calls.append(("tetris_check_io", enc_in(env, s2)))
            metas.append(("check", None, None, dict(m, successor=True)))
        if not legal:
            kit.res["C05"].evaluations += 1
            kit.res["C05"].count("illegal-action-steps")
            kit.res["C05"].distinct.add((cfgl, origin, rot, x, tuple(ints(s.grid_padded)), int(s.tetromino_index)))
            if int(ts2.step_type) != 2 or float(ts2.reward) != 0.0 or float(ts2.discount) != 0.0:
                kit.fail(["C05"], "masked-out placement did not give LAST with reward 0", dict(cfg=cfgl, op="illegal-reaction"),
                         dict(m, step_type=int(ts2.step_type), reward=float(ts2.reward), seed=kit.seed))
        else:
            # the env's own reaction to a mask-true action: never "terminated for invalidity": if LAST there must be another cause
            other = (not np.asarray(s2.action_mask).any()) or int(s2.step_count) >= int(env.time_limit)
            kit.res["C04"].evaluations += 1
            if int(ts2.step_type) == 2 and not other:
                kit.fail(["C04"], "mask-true action ended the episode without any other cause", dict(cfg=cfgl, op="legal-reaction"), dict(m, seed=kit.seed))

    for cfg in kit.configs():
        env = kit.env(cfg)
        cfgl = cfg["label"]
        nr, nc, tl = env.num_rows, env.num_cols, int(env.time_limit)
        step_all = jax.jit(jax.vmap(env.step, in_axes=(None, 0)))
        all_actions = jnp.asarray([[r, x] for r in range(4) for x in range(nc)], jnp.int32)
        visited = []
        for p in (0.0, 0.35):
            roll = kit.roll(cfg, p)
            _, st, ts, ac, fl, k0 = roll
            for b in range(ac.shape[0]):
                s0 = envkit.R.slice_tree(st, b, 0)
                ts0 = envkit.R.slice_tree(ts, b, 0)
                d0 = int(s0.tetromino_index)
                draws_seen.add(d0)
                calls.append(("tetris_init_io", [nr, nc, d0]))
                metas.append(("init", layout_of(env), enc_out(s0, ts0), dict(cfg=cfgl, p=p, b=b, t=0, draw=d0, legal=True, origin="reset")))
                calls.append(("tetris_check_io", enc_in(env, s0)))
                metas.append(("check", None, None, dict(cfg=cfgl, p=p, b=b, t=0, origin="reset", reset=True)))
                # C08: the score kept in the state and the return agree, and each reward is the table entry of the cleared lines
                end = min(ac.shape[1], fl[b])
                ret = sum(float(ts.reward[b, t + 1]) for t in range(end))
                tab_ret = 0.0
                for t in range(end):
                    n = int(np.asarray(st.full_lines[b, t + 1]).sum())
                    okv = bool(np.asarray(st.action_mask[b, t])[int(ac[b, t, 0]), int(ac[b, t, 1])])
                    tab_ret += (0, 40, 100, 300, 1200)[min(n, 4)] * okv
                    kit.res["C08"].count("lines:%d" % n)
                kit.res["C08"].evaluations += 1
                kit.res["C08"].distinct.add((cfgl, p, b))
                if ret != float(st.score[b, end]) or ret != tab_ret:
                    kit.fail(["C08"], "return != state.score / != sum of REWARD_LIST[cleared lines]", dict(cfg=cfgl, op="return"),
                             dict(ret=ret, score=float(st.score[b, end]), table=tab_ret, b=b, p=p, seed=kit.seed))
            for (b, t, s, a, s2, ts2) in kit.transitions(roll):
                add_transition(env, cfgl, s, a, s2, ts2, "rollout", dict(p=p, b=b, t=t))
                draws_seen.add(int(s2.tetromino_index))
                visited.append((p, b, t, s))
        # ---- every action from sampled visited states
        nvis = (6 if nr * nc >= 100 else 10) if quick else 40
        if visited:
            pick = kit.rng.choice(len(visited), size=min(nvis, len(visited)), replace=False)
            for k in pick:
                p, b, t, s = visited[int(k)]
                sj = jax.tree_util.tree_map(jnp.asarray, s)
                s2s, ts2s = step_all(sj, all_actions)
                s2s, ts2s = jax.tree_util.tree_map(np.asarray, (s2s, ts2s))
                for ai in range(all_actions.shape[0]):
                    add_transition(env, cfgl, s, np.asarray(all_actions[ai]), envkit.R.slice_tree(s2s, ai), envkit.R.slice_tree(ts2s, ai),
                                   "all-actions", dict(p=p, b=b, t=t))
        # ---- every action from constructed boundary states, every tetromino
        s_base, _ = jax.jit(env.reset)(jax.random.PRNGKey(kit.seed + 11))
        mask_of = jax.jit(env._calculate_action_mask)
        T = np.asarray(env.TETROMINOES_LIST)
        grids = boundary_grids(env, kit.rng, quick)
        for gi, (gname, G) in enumerate(grids):
            if not quick or (gi % 3 == 0 and nr * nc < 100) or gi % 9 == 0:
                idxs = range(7)
            else:
                idxs = sorted({int(kit.rng.integers(0, 7)), 0})
            for idx in idxs:
                sc = int(kit.rng.integers(0, max(1, tl)))
                if gi % 5 == 0:
                    sc = max(0, tl - 1)          # the time-limit boundary
                key = jax.random.fold_in(jax.random.PRNGKey(kit.seed), gi * 7 + idx)
                s = s_base.replace(grid_padded=jnp.asarray(G), grid_padded_old=jnp.asarray(G), tetromino_index=jnp.asarray(idx, jnp.int32),
                                   new_tetromino=jnp.asarray(T[idx][0]), old_tetromino_rotated=jnp.asarray(T[idx][0]),
                                   action_mask=mask_of(jnp.clip(jnp.asarray(G), a_max=1), idx), step_count=jnp.asarray(sc, jnp.int32),
                                   key=key, is_reset=False)
                s2s, ts2s = step_all(s, all_actions)
                s_np = jax.tree_util.tree_map(np.asarray, s)
                s2s, ts2s = jax.tree_util.tree_map(np.asarray, (s2s, ts2s))
                calls.append(("tetris_check_io", enc_in(env, s_np)))
                metas.append(("check", None, None, dict(cfg=cfgl, origin="boundary:" + gname, piece=idx,
                                                        state=dict(grid=G.tolist(), tetromino_index=idx))))
                for ai in range(all_actions.shape[0]):
                    add_transition(env, cfgl, s_np, np.asarray(all_actions[ai]), envkit.R.slice_tree(s2s, ai), envkit.R.slice_tree(ts2s, ai),
                                   "boundary:" + gname, dict(piece=idx))
                    kit.res["C07"].count("boundary-lines:%d" % int(np.asarray(s2s.full_lines[ai]).sum()))
        # ---- C10: many reset keys: the first piece index is a valid draw, the reset state is the model's init
        keys = jax.random.split(jax.random.PRNGKey(kit.seed + 5), 32 if quick else 256)
        s0s, ts0s = jax.jit(jax.vmap(env.reset))(keys)
        s0s, ts0s = jax.tree_util.tree_map(np.asarray, (s0s, ts0s))
        for b in range(len(keys)):
            d0 = int(s0s.tetromino_index[b])
            draws_seen.add(d0)
            kit.res["C10"].count("first-piece:%d" % d0)
            if b < (8 if quick else 64):
                s0 = envkit.R.slice_tree(s0s, b)
                calls.append(("tetris_init_io", [nr, nc, d0]))
                metas.append(("init", layout_of(env), enc_out(s0, envkit.R.slice_tree(ts0s, b)), dict(cfg=cfgl, b=b, draw=d0, legal=True, origin="reset-keys")))
            kit.res["C10"].evaluations += 1
            if not (0 <= d0 < 7):
                kit.fail(["C10"], "first tetromino index out of range", dict(cfg=cfgl, op="first-piece"), dict(index=d0, b=b, seed=kit.seed))

    outs = kit.model(calls)
    for (entry, args), (kind, layout, exp, m), got in zip(calls, metas, outs):
        cfgl = m["cfg"]
        if kind in ("step", "init"):
            bad = envkit.diff_fields(layout, got, exp)
            for pid in ("C09", "C04", "C12"):
                kit.res[pid].evaluations += 1
            case = (cfgl, m.get("origin"), m.get("p"), m.get("b"), m.get("t"), m.get("piece"), tuple(m.get("action", ())))
            kit.res["C09"].distinct.add(case)
            kit.res["C12"].distinct.add(case)
            kit.res["C09"].count(("legal" if m["legal"] else "illegal") + ":" + str(m.get("origin")).split(":")[0])
            if kind == "init":
                kit.res["C10"].evaluations += 1
                kit.res["C10"].distinct.add((cfgl, m.get("origin"), m.get("p"), m.get("b")))
            if bad:
                pids = set()
                for f in bad:
                    pids.update(FIELD_PROPS[f])
                if kind == "step" and not m["legal"]:
                    pids.add("C05")
                if kind == "init":
                    pids.add("C10")
                kit.fail(sorted(pids), "model and implementation disagree on %s (fields %s)" % (kind, ",".join(bad)),
                         dict(cfg=cfgl, op="corr-" + kind, fields=",".join(bad)), dict(m, model=got, impl=exp, seed=kit.seed))
        elif kind == "trans":
            for pid in ("C07", "C09"):
                kit.res[pid].evaluations += 1
            kit.res["C07"].distinct.add((cfgl, m.get("origin"), m.get("p"), m.get("b"), m.get("t"), m.get("piece"), tuple(m["action"])))
            kit.res["C07"].count("cleared:%d" % got[3])
            if got[0] != 1:
                kit.fail(["C09"], "the piece did not come to rest at the lowest reachable row (rest_row_b on the implementation's y_position)",
                         dict(cfg=cfgl, op="drop-row"), dict(m, seed=kit.seed))
            if got[1] != 1:
                kit.fail(["C09", "C07"], "successor grid is not clear(stamp(grid, piece)) (delete full rows, shift down in order)",
                         dict(cfg=cfgl, op="stamp-clear"), dict(m, seed=kit.seed))
            if got[2] != 1 or got[3] != exp:
                kit.fail(["C07"], "cell count: not +4 per piece, minus num_cols per cleared line", dict(cfg=cfgl, op="cell-count"),
                         dict(m, lines_model=got[3], lines_impl=exp, seed=kit.seed))
        elif kind == "view":
            kit.res["C12"].evaluations += 1
            if got != exp:
                kit.fail(["C12"], "observation is not the declarative view of the successor state", dict(cfg=cfgl, op="view"),
                         dict(m, view=got, obs=exp, seed=kit.seed))
        elif kind == "check":
            kit.res["C07"].evaluations += 1
            kit.res["C04"].evaluations += 1
            kit.res["C04"].distinct.add((cfgl, m.get("origin"), m.get("p"), m.get("b"), m.get("t"), m.get("piece"), tuple(m.get("action", ()))))
            if got[0] != 1:
                kit.fail(["C07"], "non-terminal state is not physical (shape / negative cell / cell in the padding / full row left / stale mask)",
                         dict(cfg=cfgl, op="physical"), dict(m, seed=kit.seed))
            if got[1] != 1:
                kit.fail(["C04"], "action mask is not the set of legal placements (verified checker legal_b on the implementation state)",
                         dict(cfg=cfgl, op="mask-exact"), dict(m, seed=kit.seed))
            if got[2] != 1:
                kit.fail(["C10" if m.get("reset") else "C09"], "tetromino index is not a valid draw", dict(cfg=cfgl, op="valid-draw"), dict(m, seed=kit.seed))
            if got[3] != 1 and not str(m.get("origin", "")).startswith("boundary"):
                kit.fail(["C12"], "step_count outside [0, time_limit]", dict(cfg=cfgl, op="step-count"), dict(m, seed=kit.seed))
    kit.res["C10"].count("distinct-pieces-drawn:%d" % len(draws_seen))
    for pid in PROPS:
        kit.res[pid].traces += len(calls)
        if not kit.res[pid].samples and metas:
            kit.res[pid].samples.append(dict(env=NAME, example={k: v for k, v in metas[min(5, len(metas) - 1)][3].items() if k != "state"}))
