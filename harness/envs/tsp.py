"""TSP: correspondence with coq/Model/TSP.v + verified checkers on implementation states.

Numbers.  The code computes in float32.  Coordinates are only copied (sent as exact integers x * 2^23: uniform draws are
multiples of 2^-23, the directly built instances multiples of 2^-10).  Distances are an ORACLE in the model: the harness
passes the implementation's own pairwise float32 distances (`distance_between_two_cities` on every pair of cities of the
instance) as the exact integers d * 2^46 (a float32 sqrt of a sum of squares of multiples of 2^-23 is 0 or >= 2^-23, hence
a multiple of 2^-46; integrality is asserted, never rounded), and the code of the documented penalty num_cities*sqrt(2).
 - visited mask, trajectory, position, num_visited, action mask, observation, step type, discount: compared exactly;
 - rewards that are a single table entry (dense non-closing steps) or the penalty: compared exactly;
 - the dense closing reward -d(prev,next) - d(next,first) (one float32 addition): compared exactly against the model run with
   the binary32 rounding rne24 (validated against numpy here);
 - the sparse terminal reward (a float32 sum of n terms, summation order unspecified): compared within n ulps;
 - collinear dyadic instances (all distances and sums exact in float32): everything compared exactly, also against the
   declarative `step_rules` and the exact-arithmetic model; dense return == sparse return == closed tour length exactly.
"""
import numpy as np

from harness import envkit

NAME = "tsp"
PROPS = ["C01", "C03", "C04", "C05", "C06", "C08", "C09", "C10", "C11", "C12"]
APPLIES = PROPS
K = 46
SC = 1 << K          # distances / rewards
CK = 23
CSC = 1 << CK        # coordinates


def extra_configs(tier, add):
    from jumanji.environments import TSP
    from jumanji.environments.routing.tsp import generator as G, reward as R
    add("n1", lambda: TSP(generator=G.UniformGenerator(num_cities=1)), 4)
    add("n1sparse", lambda: TSP(generator=G.UniformGenerator(num_cities=1), reward_fn=R.SparseReward()), 4)
    add("n2sparse", lambda: TSP(generator=G.UniformGenerator(num_cities=2), reward_fn=R.SparseReward()), 5)
    add("n3", lambda: TSP(generator=G.UniformGenerator(num_cities=3)), 6)
    add("n7dense", lambda: TSP(generator=G.UniformGenerator(num_cities=7), reward_fn=R.DenseReward()), 10)
    add("n12sparse", lambda: TSP(generator=G.UniformGenerator(num_cities=12), reward_fn=R.SparseReward()), 15)
    if tier != "quick":
        add("n20sparse", lambda: TSP(reward_fn=R.SparseReward()), 24)
        add("n50", lambda: TSP(generator=G.UniformGenerator(num_cities=50)), 54)


def q(x, sc):
    """exact integer codes x * sc of float(s); raises if some value is off the grid"""
    a = np.asarray(x, np.float64).reshape(-1) * sc
    r = np.round(a)
    if not np.all(r == a) or not np.all(np.isfinite(a)):
        raise ValueError("value off the 1/%d grid: %r" % (sc, np.asarray(x).reshape(-1)[:4]))
    return [int(v) for v in r]


def bl(x):
    return [int(v) for v in np.asarray(x).reshape(-1)]


def pen_code(n):
    """the documented penalty num_cities * sqrt(2), in float32, computed independently of the environment"""
    return q(np.float32(n) * np.float32(np.sqrt(2.0)), SC)[0]


class Case:
    """an implementation state (+ the mask the implementation showed for it)"""
    __slots__ = ("c", "pos", "vis", "traj", "nv", "m", "n", "meta", "D", "grid")

    def __init__(self, c, pos, vis, traj, nv, m, D, meta, grid=False):
        self.c = np.asarray(c, np.float32)
        self.pos, self.nv = int(pos), int(nv)
        self.vis, self.traj = np.asarray(vis, bool), np.asarray(traj, np.int32)
        self.m = None if m is None else np.asarray(m, bool)
        self.n, self.meta, self.D, self.grid = len(self.vis), meta, D, grid

    def enc(self):
        return q(self.c, CSC) + [self.pos] + bl(self.vis) + bl(self.traj) + [self.nv]

    def consistent(self):  # independent Python statement of "the state encodes a partial tour"
        n, k = self.n, self.nv
        if not (0 <= k <= n):
            return False
        t = [int(x) for x in self.traj[:k]]
        return (len(set(t)) == k and all(0 <= x < n for x in t) and all(int(x) == -1 for x in self.traj[k:])
                and [bool(v) for v in self.vis] == [i in t for i in range(n)] and self.pos == (t[-1] if t else -1))


_JIT = {}


def dist_table(coords):
    """the implementation's own pairwise distances (float32), as exact integer codes, row-major"""
    import jax
    from jumanji.environments.routing.tsp.reward import distance_between_two_cities as d
    if "tab" not in _JIT:
        _JIT["tab"] = jax.jit(jax.vmap(jax.vmap(d, (None, 0)), (0, None)))
    return q(np.asarray(_JIT["tab"](coords, coords)), SC)


def _stepper(env):
    import jax
    if ("step", id(env)) not in _JIT:
        _JIT[("step", id(env))] = (jax.jit(jax.vmap(env.step)), env)
    return _JIT[("step", id(env))][0]


def step_many(env, pairs):
    """the REAL env.step (jit+vmap) on explicit states -> list of (state', timestep) numpy slices; pairs = [(Case, action)]"""
    import jax
    import jax.numpy as jnp
    from jumanji.environments.routing.tsp.types import State
    out = []
    CH = 4096
    for i in range(0, len(pairs), CH):
        ch = pairs[i:i + CH]
        size = 64 if len(ch) <= 64 else 512 if len(ch) <= 512 else CH          # three batch sizes -> three compilations per env
        pad = ch + [ch[-1]] * (size - len(ch))
        S = State(coordinates=jnp.asarray(np.stack([c.c for c, _ in pad])), position=jnp.asarray(np.asarray([c.pos for c, _ in pad], np.int32)),
                  visited_mask=jnp.asarray(np.stack([c.vis for c, _ in pad])), trajectory=jnp.asarray(np.stack([c.traj for c, _ in pad])),
                  num_visited=jnp.asarray(np.asarray([c.nv for c, _ in pad], np.int32)), key=jnp.zeros((len(pad), 2), jnp.uint32))
        A = jnp.asarray(np.asarray([a for _, a in pad], np.int32))
        s2, ts = _stepper(env)(S, A)
        s2, ts = jax.tree_util.tree_map(np.asarray, (s2, ts.replace(extras={})))
        for j in range(len(ch)):
            out.append((envkit.R.slice_tree(s2, j), envkit.R.slice_tree(ts, j)))
    return out


def layout(n):
    return [("coordinates", 2 * n), ("position", 1), ("visited_mask", n), ("trajectory", n), ("num_visited", 1),
            ("obs.coordinates", 2 * n), ("obs.position", 1), ("obs.trajectory", n), ("obs.action_mask", n),
            ("step_type", 1), ("reward", 1), ("discount", 1)]


def enc_out(s2, ts):
    o = ts.observation
    return (q(s2.coordinates, CSC) + [int(s2.position)] + bl(s2.visited_mask) + bl(s2.trajectory) + [int(s2.num_visited)]
            + q(o.coordinates, CSC) + [int(o.position)] + bl(o.trajectory) + bl(o.action_mask)
            + [int(ts.step_type)] + q(ts.reward, SC) + [int(round(float(ts.discount)))])


def ulp32(code):
    """one float32 ulp of the value code / SC, in code units (>= 1)"""
    a = abs(int(code))
    return 1 if a < (1 << 24) else 1 << (a.bit_length() - 24)


def analyze(kit):
    import jax
    import jax.numpy as jnp
    from jumanji.environments import TSP
    from jumanji.environments.routing.tsp import generator as G, reward as RW
    from jumanji.environments.routing.tsp.types import State
    quick = kit.tier == "quick"
    res = kit.res
    calls, metas = [], []

    def oob(n):
        return [n, n + 3, -1, -n, -n - 1, -2 * n - 1]

    def submit(cases, acts_of, envs, label, pen, models=(1,), rules=False):
        """every (case, action) through the real dense and sparse env, and the case with all its actions through the model(s)"""
        if not cases:
            return
        for sp, env in envs.items():
            pairs = [(c, a) for c in cases for a in acts_of(c)]
            outs = step_many(env, pairs)
            i = 0
            for c in cases:
                acts = acts_of(c)
                exp = outs[i:i + len(acts)]
                i += len(acts)
                m = dict(c.meta, cfg=label, sparse=sp, n=c.n, grid=c.grid, consistent=c.consistent(),
                         state=dict(coordinates=c.c.tolist(), position=c.pos, visited=bl(c.vis), trajectory=bl(c.traj), num_visited=c.nv))
                head = c.D + c.enc() + [len(acts)] + list(acts)
                for fl in models:
                    calls.append(("tsp_step_io", [c.n, fl, sp, pen] + head))
                    metas.append(("step", dict(m, fl=fl), (c, acts, exp, pen)))
                if rules and c.consistent():
                    ins = [a for a in acts if 0 <= a < c.n]
                    calls.append(("tsp_rules_io", [c.n, sp, pen] + c.D + c.enc() + [len(ins)] + ins))
                    metas.append(("step", dict(m, fl="rules"), (c, ins, [e for a, e in zip(acts, exp) if 0 <= a < c.n], pen)))

    def submit_check(c, label, final=None):
        calls.append(("tsp_check_io", [c.n, CSC] + c.D + c.enc() + bl(c.m)))
        metas.append(("check", dict(c.meta, cfg=label, n=c.n, grid=c.grid, final=final,
                                    state=dict(coordinates=c.c.tolist(), position=c.pos, visited=bl(c.vis), trajectory=bl(c.traj),
                                               num_visited=c.nv, mask=bl(c.m))), c))

    def case_of(s, tsv, D, meta, grid=False):
        return Case(s.coordinates, s.position, s.visited_mask, s.trajectory, s.num_visited,
                    None if tsv is None else tsv.observation.action_mask, D, meta, grid)

    # ------------------------------------------------------------------ real rollouts
    for cfg in kit.configs():
        env = kit.env(cfg)
        n = env.num_cities
        pen = pen_code(n)
        sparse_cfg = int(isinstance(env.reward_fn, RW.SparseReward))
        envs = {0: env if not sparse_cfg else TSP(generator=env.generator, reward_fn=RW.DenseReward()),
                1: env if sparse_cfg else TSP(generator=env.generator, reward_fn=RW.SparseReward())}
        label = cfg["label"]
        f64pen = n * np.sqrt(2.0)
        res["C05"].evaluations += 1
        if abs(pen / SC - f64pen) > f64pen * 2.0 ** -22:
            kit.fail(["C05"], "penalty code is not num_cities*sqrt(2)", dict(cfg=label, op="penalty"), dict(n=n, pen=pen / SC))
        visited_states, finals = [], []
        for p in (0.0, 0.35):
            roll = kit.roll(cfg, p)
            _, st, ts, ac, fl, k0 = roll
            B, T = ac.shape
            for b in range(B):
                end = min(T, fl[b])
                s0 = envkit.R.slice_tree(st, b, 0)
                ts0 = envkit.R.slice_tree(ts, b, 0)
                D = dist_table(s0.coordinates)
                # ---- C10 / C01: reset state = init(draw), draw valid, position -1
                calls.append(("tsp_init_io", [n, CSC] + q(s0.coordinates, CSC)))
                metas.append(("init", dict(cfg=label, p=p, b=b, n=n), enc_out(s0, ts0) + [1]))
                ret = 0
                last_reward = 0
                all_legal = True
                for t in range(end):
                    s = envkit.R.slice_tree(st, b, t)
                    tsc = envkit.R.slice_tree(ts, b, t)
                    s2 = envkit.R.slice_tree(st, b, t + 1)
                    ts2 = envkit.R.slice_tree(ts, b, t + 1)
                    a = int(ac[b, t])
                    c = case_of(s, tsc, D, dict(src="rollout", p=p, b=b, t=t))
                    all_legal = all_legal and bool(c.m[a])
                    # the transition executed inside the rollout (scan), compared directly
                    m = dict(c.meta, cfg=label, sparse=sparse_cfg, n=n, grid=False, consistent=c.consistent(), rolled=True, fl=1,
                             state=dict(coordinates=c.c.tolist(), position=c.pos, visited=bl(c.vis), trajectory=bl(c.traj), num_visited=c.nv))
                    calls.append(("tsp_step_io", [n, 1, sparse_cfg, pen] + D + c.enc() + [1, a]))
                    metas.append(("step", m, (c, [a], [(s2, ts2)], pen)))
                    submit_check(c, label)
                    visited_states.append(c)
                    last_reward = q(ts2.reward, SC)[0]
                    ret += last_reward
                    if not (np.array_equal(s2.coordinates, s.coordinates)):
                        kit.fail(["C09", "C05"], "step changed the problem instance (coordinates)", dict(cfg=label, op="instance-const"),
                                 dict(b=b, t=t, p=p, seed=kit.seed))
                if end >= 1 and fl[b] <= T:
                    sf = envkit.R.slice_tree(st, b, end)
                    tsf = envkit.R.slice_tree(ts, b, end)
                    cf = case_of(sf, tsf, D, dict(src="final", p=p, b=b, t=int(end)))
                    submit_check(cf, label, final=dict(ret=ret, last_reward=last_reward, sparse=sparse_cfg, all_legal=all_legal, steps=int(end)))
                    finals.append(cf)
                    res["C11"].evaluations += 1
                    res["C11"].distinct.add((label, p, b))
                    res["C11"].count("episode-length:%s" % ("=n" if end == n else "<n"))
                    if end > n or (all_legal and end != n):
                        kit.fail(["C11"], "episode length outside the structural horizon num_cities (legal play must take exactly num_cities steps)",
                                 dict(cfg=label, op="horizon"), dict(b=b, p=p, steps=int(end), n=n, all_legal=all_legal, seed=kit.seed))
                elif fl[b] > T and T >= n:
                    kit.fail(["C11"], "no LAST step within num_cities steps", dict(cfg=label, op="horizon"), dict(b=b, p=p, steps=int(T), n=n, seed=kit.seed))
        # ---- EVERY action (and a few out-of-spec indices) from visited states, on the dense AND the sparse twin
        lim = 30 if quick else 150
        pick = visited_states if (n <= 12 or len(visited_states) <= lim) else [visited_states[i] for i in kit.rng.choice(len(visited_states), lim, replace=False)]
        sweep = [Case(c.c, c.pos, c.vis, c.traj, c.nv, c.m, c.D, dict(c.meta, src="sweep")) for c in pick]
        submit(sweep, lambda c: list(range(c.n)) + oob(c.n), envs, label, pen, models=(1,), rules=True)
        # ---- steps taken AFTER the terminal step (every action from final states): C03 / C09
        fpick = finals if len(finals) <= 8 else [finals[i] for i in kit.rng.choice(len(finals), 8, replace=False)]
        after = [Case(c.c, c.pos, c.vis, c.traj, c.nv, c.m, c.D, dict(c.meta, src="after-last")) for c in fpick]
        submit(after, lambda c: list(range(c.n)), envs, label, pen, models=(1,))
        # ---- dense vs sparse on the SAME legal trajectory run to completion (fresh instances, random visiting orders)
        nk = 6 if quick else 24
        keys = jax.random.split(jax.random.PRNGKey(kit.seed + 977), nk)
        s0s, _ = jax.tree_util.tree_map(np.asarray, jax.jit(jax.vmap(env.reset))(keys))
        for i in range(nk):
            s0 = envkit.R.slice_tree(s0s, i)
            D = dist_table(s0.coordinates)
            order = [int(x) for x in kit.rng.permutation(n)]
            rets, lastr = {}, {}
            for sp in (0, 1):
                c = Case(s0.coordinates, s0.position, s0.visited_mask, s0.trajectory, s0.num_visited, None, D, dict(src="twin", key=i))
                r, types = 0, []
                for a in order:
                    s2, ts2 = step_many(envs[sp], [(c, a)])[0]
                    lastr[sp] = q(ts2.reward, SC)[0]
                    r += lastr[sp]
                    types.append(int(ts2.step_type))
                    c = Case(s2.coordinates, s2.position, s2.visited_mask, s2.trajectory, s2.num_visited, ts2.observation.action_mask, D, c.meta)
                rets[sp] = r
                if types != [1] * (n - 1) + [2]:
                    kit.fail(["C11", "C03"], "a legal visiting order of all cities does not give MID^(n-1) LAST", dict(cfg=label, op="legal-episode"),
                             dict(order=order, types=types, sparse=sp, key=i, seed=kit.seed))
            submit_check(c, label, final=dict(ret=rets[1], ret_dense=rets[0], last_reward=lastr[1], last_dense=lastr[0], sparse=1, all_legal=True, steps=n, twin=True))
        # ---- C10: more reset keys: valid draws, dependence on the key
        nk = 24 if quick else 128
        keys = jax.random.split(jax.random.PRNGKey(kit.seed + 4242), nk)
        s0s, ts0s = jax.tree_util.tree_map(np.asarray, jax.jit(jax.vmap(env.reset))(keys))
        seen = set()
        for i in range(nk):
            s0 = envkit.R.slice_tree(s0s, i)
            ts0 = envkit.R.slice_tree(ts0s, i)
            calls.append(("tsp_init_io", [n, CSC] + q(s0.coordinates, CSC)))
            metas.append(("init", dict(cfg=label, key=i, n=n), enc_out(s0, ts0) + [1]))
            seen.add(tuple(q(s0.coordinates, CSC)))
        res["C10"].evaluations += 1
        res["C10"].count("distinct-instances/%d-keys" % nk, len(seen))
        if len(seen) < nk:
            kit.fail(["C10"], "generator does not depend on the key (repeated instance)", dict(cfg=label, op="key-dependence"),
                     dict(keys=nk, distinct=len(seen), seed=kit.seed))

    # ------------------------------------------------------------------ collinear dyadic instances: float32 arithmetic is exact
    grid_ns = [1, 2, 3, 4, 6] if quick else [1, 2, 3, 4, 6, 9, 16]
    G10 = 1 << 10
    for n in grid_ns:
        gen = G.UniformGenerator(num_cities=n)
        envs = {0: TSP(generator=gen, reward_fn=RW.DenseReward()), 1: TSP(generator=gen, reward_fn=RW.SparseReward())}
        pen = pen_code(n)
        label = "line-n%d" % n
        for ep in range(6 if quick else 24):
            mode = ep % 3
            xs = kit.rng.integers(0, G10 + 1, n)                     # includes 0 and 1.0 (= declared maximum); repeated cities allowed
            if mode == 0:
                co = np.stack([xs, np.full(n, int(kit.rng.integers(0, G10 + 1)))], 1)      # horizontal line
            elif mode == 1:
                co = np.stack([np.full(n, int(kit.rng.integers(0, G10 + 1))), xs], 1)      # vertical line
            else:
                co = np.stack([xs, np.zeros(n, int)], 1)                                       # on the x axis (coordinate 0.0)
            co = (co / G10).astype(np.float32)
            D = dist_table(co)
            order = [int(x) for x in kit.rng.permutation(n)]
            cs = {sp: Case(co, -1, np.zeros(n, bool), np.full(n, -1), 0, np.ones(n, bool), D, dict(src="line", ep=ep, t=0), grid=True) for sp in (0, 1)}
            rets = {0: 0, 1: 0}
            lastr = {0: 0, 1: 0}
            illegal_at = int(kit.rng.integers(1, n)) if (n >= 2 and ep % 4 == 3) else None
            t = 0
            while True:
                c0 = cs[0]
                submit([c0], lambda c: list(range(c.n)) + oob(c.n), envs, label, pen, models=(1, 0), rules=True)
                submit_check(c0, label)
                if illegal_at is not None and t == illegal_at:
                    a = int(c0.traj[int(kit.rng.integers(0, c0.nv))])
                else:
                    a = order[c0.nv] if c0.nv < n else 0
                done = False
                for sp in (0, 1):
                    s2, ts2 = step_many(envs[sp], [(cs[sp], a)])[0]
                    lastr[sp] = q(ts2.reward, SC)[0]
                    rets[sp] += lastr[sp]
                    cs[sp] = Case(s2.coordinates, s2.position, s2.visited_mask, s2.trajectory, s2.num_visited, ts2.observation.action_mask, D,
                                  dict(src="line", ep=ep, t=t + 1), grid=True)
                    done = done or int(ts2.step_type) == 2
                if not (np.array_equal(cs[0].traj, cs[1].traj) and np.array_equal(cs[0].vis, cs[1].vis) and cs[0].pos == cs[1].pos and cs[0].nv == cs[1].nv):
                    kit.fail(["C08", "C09"], "dense and sparse environments disagree on the successor state", dict(cfg=label, op="dense-sparse-state"),
                             dict(ep=ep, t=t, action=a, seed=kit.seed))
                t += 1
                if done or t > n + 1:
                    legal_ep = illegal_at is None
                    submit_check(cs[1], label, final=dict(ret=rets[1], ret_dense=rets[0], last_reward=lastr[1], last_dense=lastr[0], sparse=1,
                                                          all_legal=legal_ep, steps=t, twin=True))
                    res["C11"].evaluations += 1
                    res["C11"].distinct.add((label, ep))
                    res["C11"].count("episode-length:%s" % ("=n" if t == n else "<n" if t < n else ">n"))
                    if t > n or (legal_ep and t != n):
                        kit.fail(["C11"], "episode length outside the structural horizon num_cities", dict(cfg=label, op="horizon"),
                                 dict(ep=ep, steps=t, n=n, seed=kit.seed))
                    break

    # ------------------------------------------------------------------ synthetic (unreachable, inconsistent) states: the model mirrors the code anyway
    for n in (2, 3, 5):
        gen = G.UniformGenerator(num_cities=n)
        envs = {0: TSP(generator=gen, reward_fn=RW.DenseReward()), 1: TSP(generator=gen, reward_fn=RW.SparseReward())}
        pen = pen_code(n)
        syn = []
        for i in range(6 if quick else 30):
            co = (kit.rng.integers(0, G10 + 1, (n, 2)) / G10).astype(np.float32)
            D = dist_table(co)
            syn.append(Case(co, int(kit.rng.integers(-1, n)), kit.rng.random(n) < 0.5, kit.rng.integers(-1, n, n), int(kit.rng.integers(0, n + 1)),
                            None, D, dict(src="synthetic", i=i)))
        submit(syn, lambda c: list(range(c.n)) + oob(c.n), envs, "synthetic-n%d" % n, pen, models=(1,))

    # ------------------------------------------------------------------ the rounding function itself, against numpy float32
    xs = [int(x) for x in kit.rng.integers(0, 1 << 52, 300)] + [int(x) for x in kit.rng.integers(0, 1 << 26, 300)]
    xs += [(1 << 24) + d for d in range(-2, 9)] + [(1 << 25) + d for d in range(-4, 13)] + [3 * (1 << 23) + d for d in range(0, 8)] + [0, 1, -5, -(1 << 25) - 2, -(1 << 25) - 6]
    calls.append(("tsp_rne_io", xs))
    metas.append(("rne", dict(), [int(np.float32(float(x))) for x in xs]))

    # ------------------------------------------------------------------ compare
    outs = kit.model(calls)
    for (entry, args), meta, got in zip(calls, metas, outs):
        kind, m = meta[0], meta[1]
        if kind == "step":
            c, acts, exps, pen = meta[2]
            n = c.n
            L = 8 * n + 6
            ridx = 8 * n + 4
            if len(got) != L * len(acts):
                kit.fail(["C09"], "model output has the wrong length", dict(cfg=m["cfg"], op="corr-step"), dict(m, got=len(got), want=L * len(acts)))
                continue
            reachable = m["consistent"] and c.nv < n
            for j, (a, (s2, ts2)) in enumerate(zip(acts, exps)):
                g = got[j * L:(j + 1) * L]
                exp = enc_out(s2, ts2)
                inspec = 0 <= a < n
                legal = inspec and not bool(c.vis[a])
                mm = dict(m, action=a, legal=legal)
                key = (m["cfg"], m["src"], m.get("p"), m.get("b"), m.get("ep"), m.get("i"), m.get("key"), m.get("t"), a, m["sparse"])
                # float sums: the sparse terminal reward (n-term float32 sum), and (exact / rules model only) the dense closing reward
                sum_reward = (m["sparse"] and exp[ridx - 1] == 2 and int(s2.num_visited) == c.nv + 1) or (m["fl"] != 1 and not m["sparse"] and bool(np.all(s2.visited_mask)))
                if sum_reward and not c.grid and g[ridx] != exp[ridx]:
                    tol = (n if m["sparse"] else 1) * ulp32(max(abs(exp[ridx]), SC >> 1))
                    res["C08"].count("reward-compared-with-tolerance:%s" % ("sparse-sum" if m["sparse"] else "dense-closing-exact-model"))
                    if abs(g[ridx] - exp[ridx]) <= tol:
                        g = g[:ridx] + [exp[ridx]] + g[ridx + 1:]
                bad = envkit.diff_fields(layout(n), g, exp)
                for pid in ("C09", "C12"):
                    res[pid].evaluations += 1
                res["C09"].distinct.add(key)
                res["C12"].distinct.add(key)
                res["C09"].count("model:%s" % ("rules" if m["fl"] == "rules" else "float32" if m["fl"] else "exact"))
                res["C03"].evaluations += 1
                if m["src"] == "after-last":
                    # the state does not remember an episode that ended on a revisit (it is untouched): only a COMPLETE tour stays terminal
                    res["C03"].count("steps-after-LAST:%s" % ("complete-tour" if c.nv == n else "ended-by-revisit"))
                    ty, di = int(ts2.step_type), float(ts2.discount)
                    if not ((ty == 2 and di == 0.0) or (ty == 1 and di == 1.0 and c.nv < n)):
                        kit.fail(["C03"], "a step after LAST is neither LAST/discount 0 nor (tour incomplete) MID/discount 1",
                                 dict(cfg=m["cfg"], op="after-last"), dict(mm, seed=kit.seed))
                if not inspec:
                    res["C09"].count("out-of-spec-index-steps")
                if not m["consistent"]:
                    res["C09"].count("synthetic-inconsistent-state-steps")
                if reachable and inspec and m["fl"] == 1:
                    # ---- C04 judged by the environment's own reaction: mask[a] <=> the city really gets visited
                    accepted = int(s2.num_visited) == c.nv + 1 and bool(s2.visited_mask[a]) and int(s2.position) == a
                    if c.m is not None:
                        res["C04"].evaluations += 1
                        res["C04"].distinct.add(key[:-1])
                        res["C04"].count("mask:%d/env-accepts:%d" % (int(c.m[a]), int(accepted)))
                        if bool(c.m[a]) != accepted or bool(c.m[a]) != legal:
                            kit.fail(["C04"], "mask entry disagrees with the environment's reaction / the rules", dict(cfg=m["cfg"], op="mask-vs-reaction"),
                                     dict(mm, mask=bl(c.m), accepted=accepted, seed=kit.seed))
                    if not legal:
                        # ---- C05: documented effect of revisiting a city, judged directly on the implementation's reaction
                        res["C05"].evaluations += 1
                        res["C05"].distinct.add(key)
                        res["C05"].count("illegal:revisit:%s" % ("sparse" if m["sparse"] else "dense"))
                        untouched = (np.array_equal(s2.visited_mask, c.vis) and np.array_equal(s2.trajectory, c.traj) and int(s2.position) == c.pos
                                     and int(s2.num_visited) == c.nv and np.array_equal(s2.coordinates, c.c))
                        if not (int(ts2.step_type) == 2 and exp[ridx] == -pen and float(ts2.discount) == 0.0 and untouched):
                            kit.fail(["C05"], "revisited city: not (LAST, reward -num_cities*sqrt(2), discount 0, state untouched)",
                                     dict(cfg=m["cfg"], op="illegal-effect"),
                                     dict(mm, step_type=int(ts2.step_type), reward=float(ts2.reward), penalty=-pen / SC, untouched=bool(untouched), seed=kit.seed))
                    else:
                        res["C08"].count("legal-step-reward:%s" % ("closing" if int(s2.num_visited) == n else "first" if c.nv == 0 else "edge"))
                if bad:
                    pids = {"C09"}
                    if any(f.startswith("obs.") for f in bad):
                        pids.add("C12")
                    if "obs.action_mask" in bad:
                        pids.add("C04")
                    if reachable and inspec and not legal:
                        pids.add("C05")
                    if "reward" in bad:
                        pids.add("C08")
                    if {"visited_mask", "trajectory", "position", "num_visited"} & set(bad):
                        pids.add("C06")
                    if "step_type" in bad or "discount" in bad:
                        pids |= {"C03", "C11"}
                    kit.fail(sorted(pids), "model and implementation disagree on step (fields %s)" % ",".join(bad),
                             dict(cfg=m["cfg"], op="corr-step", fields=",".join(bad), model=str(m["fl"])),
                             dict(mm, model=g, impl=exp, penalty_code=pen, seed=kit.seed))
        elif kind == "init":
            exp = meta[2]
            n = m["n"]
            bad = envkit.diff_fields(layout(n) + [("valid_draw", 1)], got, exp)
            for pid in ("C10", "C01"):
                res[pid].evaluations += 1
            res["C10"].distinct.add((m["cfg"], m.get("p"), m.get("b"), m.get("key")))
            if bad:
                kit.fail(["C10"] + (["C01"] if {"valid_draw", "position", "obs.position"} & set(bad) else []),
                         "reset state is not init(draw) / coordinates outside [0,1) (fields %s)" % ",".join(bad),
                         dict(cfg=m["cfg"], op="corr-init", fields=",".join(bad)), dict(m, model=got, impl=exp, seed=kit.seed))
        elif kind == "check":
            c = meta[2]
            n = c.n
            mask_ok, inv, rng_ok, perm, nv, plen, clen, tlen = got
            key = (m["cfg"], m["src"], m.get("p"), m.get("b"), m.get("ep"), m.get("key"), m.get("t"))
            res["C04"].evaluations += 1
            res["C12"].evaluations += 1
            if mask_ok != 1:
                kit.fail(["C04", "C12"], "action mask is not the set of unvisited cities (verified checker on implementation state)",
                         dict(cfg=m["cfg"], op="mask-exact"), dict(m, seed=kit.seed))
            res["C01"].evaluations += 1
            res["C01"].distinct.add(key)
            res["C01"].count("ranges-checked:%s" % ("reset" if c.nv == 0 else "terminal" if m["final"] else "mid"))
            if rng_ok != 1:
                kit.fail(["C01"], "coordinates outside [0,1], or position / trajectory outside [-1, num_cities-1], or wrong shape",
                         dict(cfg=m["cfg"], op="ranges"), dict(m, seed=kit.seed))
            # C06: no city twice, visited mask = set of the trajectory, position = last city  (ANY in-spec actions: an illegal one changes nothing)
            res["C06"].evaluations += 1
            res["C06"].distinct.add(key)
            if inv != 1 or not c.consistent() or nv != c.nv:
                kit.fail(["C06"], "state is not the encoding of a partial tour without repeated city (Inv_b on implementation state)",
                         dict(cfg=m["cfg"], op="inv"), dict(m, inv=inv, python_consistent=c.consistent(), seed=kit.seed))
            if (c.nv == n) != (perm == 1):
                kit.fail(["C06"], "all cities visited but the trajectory is not a permutation of the cities (or conversely)",
                         dict(cfg=m["cfg"], op="perm"), dict(m, perm=perm, seed=kit.seed))
            if c.nv == n and clen != tlen:
                kit.fail(["C08"], "closed tour length != the code's rolled tour length on a complete trajectory", dict(cfg=m["cfg"], op="tour-roll"), dict(m, seed=kit.seed))
            f = m["final"]
            if f:
                completed = f["all_legal"] and c.nv == n
                if f["all_legal"] and c.nv != n:
                    kit.fail(["C06", "C11"], "a legal episode ended before every city was visited", dict(cfg=m["cfg"], op="completion"), dict(m, seed=kit.seed))
                if completed:
                    res["C06"].count("completed-episodes")
                    # ---- C08: return == minus closed tour length, recomputed (a) exactly from the distance table by the verified closed_len,
                    #      (b) in float64 NumPy from the raw final-state arrays
                    res["C08"].evaluations += 1
                    res["C08"].distinct.add(key)
                    co = np.asarray(c.c, np.float64)
                    tr = [int(x) for x in c.traj]
                    f64 = float(sum(np.hypot(*(co[tr[i]] - co[tr[(i + 1) % n]])) for i in range(n)))
                    if abs(f64 * SC - clen) > n * 2.0 ** -22 * SC:
                        kit.fail(["C08"], "verified closed_len over the implementation's distances disagrees with the float64 recomputation",
                                 dict(cfg=m["cfg"], op="objective-f64"), dict(m, closed_len=clen / SC, f64=f64, seed=kit.seed))

                    def cmp_ret(ret, last, sparse, what):
                        if c.grid:
                            tol, how = 0, "exactly"
                        elif sparse:
                            tol, how = n * ulp32(max(clen, SC >> 1)), "within-n-ulps"
                        else:
                            tol, how = ulp32(max(abs(last), 1)), "within-1-ulp-of-closing-reward"
                        res["C08"].count("return-compared-%s:%s" % (how, what))
                        if abs(ret + clen) > tol:
                            kit.fail(["C08"], "episode return != minus the closed tour length of the final trajectory (%s)" % what,
                                     dict(cfg=m["cfg"], op="objective"), dict(m, ret=ret / SC, closed_len=clen / SC, f64=f64, seed=kit.seed))
                    cmp_ret(f["ret"], f["last_reward"], f["sparse"], "sparse" if f["sparse"] else "dense")
                    if f.get("twin"):
                        cmp_ret(f["ret_dense"], f["last_dense"], 0, "dense")
                        res["C08"].count("dense-vs-sparse-compared-%s" % ("exactly" if c.grid else "within-n-ulps"))
                        tol = 0 if c.grid else n * ulp32(max(clen, SC >> 1))
                        if abs(f["ret"] - f["ret_dense"]) > tol:
                            kit.fail(["C08"], "dense and sparse returns differ on the same legal trajectory", dict(cfg=m["cfg"], op="dense-vs-sparse"),
                                     dict(m, dense=f["ret_dense"] / SC, sparse_ret=f["ret"] / SC, seed=kit.seed))
        elif kind == "rne":
            exp = meta[2]
            res["C09"].evaluations += 1
            if got != exp:
                badx = [(x, g, e) for x, g, e in zip(args, got, exp) if g != e][:3]
                kit.fail(["C09", "C08"], "model rounding rne24 differs from numpy float32 rounding", dict(op="rne24"), dict(examples=badx))
    for pid in PROPS:
        res[pid].traces += len(calls)
        if not res[pid].samples:
            res[pid].samples.append(dict(env=NAME, example={k: v for k, v in metas[min(5, len(metas) - 1)][1].items() if k != "state"}))
