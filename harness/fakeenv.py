"""Entry point used by the C18 correspondence: `make` must build THIS class with exactly the merged kwargs."""


class FakeEnv:
    def __init__(self, *args, **kwargs):
        self.args = args
        self.kwargs = dict(kwargs)          # insertion order is part of what is compared


class OtherEnv(FakeEnv):
    pass
