"""Regenerates coq/Gen/*.v from /repo's current working tree (T1 translators, T2 value dumps).
Each generator is fail-closed: anything it does not recognise raises and the run reports the tie
as broken.  Files are rewritten only when their content changes."""
import os
import sys
import traceback

sys.path.insert(0, os.path.dirname(os.path.dirname(os.path.abspath(__file__))))
from harness.build import write_if_changed, COQ

GENERATORS = []


def generator(fn):
    GENERATORS.append(fn)
    return fn


def main():
    import importlib
    import pkgutil
    import harness.translators as T
    rc = 0
    for m in pkgutil.iter_modules(T.__path__):
        mod = importlib.import_module("harness.translators." + m.name)
        if hasattr(mod, "generate"):
            try:
                for name, text in mod.generate().items():
                    write_if_changed(os.path.join(COQ, "Gen", name), text)
            except Exception:
                traceback.print_exc()
                print("TRANSLATOR-FAILED", m.name)
                rc = 1
    return rc


if __name__ == "__main__":
    sys.exit(main())
