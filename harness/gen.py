"""Regenerates coq/Gen/*.v from /repo's current working tree (T1 translators, T2 value dumps).
Each generator is fail-closed: anything it does not recognise raises and the run reports the tie
as broken.  Files are rewritten only when their content changes."""
import os
import sys
import traceback

sys.path.insert(0, os.path.dirname(os.path.dirname(os.path.abspath(__file__))))
from harness.build import write_if_changed, COQ

GENERATORS = []


def generator(fn):
    GENERATORS.append(fn)
    return fn


def main():
    import importlib
    import pkgutil
    import harness.translators as T
    rc = 0
    for m in pkgutil.iter_modules(T.__path__):
        mod = importlib.import_module("harness.translators." + m.name)
        if hasattr(mod, "generate"):
            try:
                for name, text in mod.generate().items():
                    write_if_changed(os.path.join(COQ, "Gen", name), text)
            except Exception:
                tb = traceback.format_exc()
                print(tb)
                outs = getattr(mod, "OUTPUTS", None)
                if outs:
                    # scoped failure: the generated file is replaced by one that does not compile, so that exactly the
                    # theorem files depending on it (and hence exactly the properties they belong to) report the broken tie
                    for name in outs:
                        write_if_changed(os.path.join(COQ, "Gen", name),
                                         "(* TRANSLATOR FAILED (harness/translators/%s.py) on /repo's current source:\n%s*)\n"
                                         "Definition translator_failed : False := I.\n" % (m.name, tb.replace("*)", "* )")))
                    print("TRANSLATOR-FAILED-SCOPED", m.name, outs)
                else:
                    print("TRANSLATOR-FAILED", m.name)
                    rc = 1
    return rc


if __name__ == "__main__":
    sys.exit(main())
