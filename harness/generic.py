"""Environment-independent analyses, run on every environment of the catalog:
C01  every emitted timestep (reset, every step, terminal) validated against the REAL specs by the
     extracted Coq `validate`; generate_value() of the action spec is a member and is accepted by step
C03  FIRST/MID*/LAST protocol + reward/discount sanity through the extracted `first_ok`/`step_ok`,
     including steps taken after LAST
C11  first LAST index against the configured time limit through the extracted `limit_ok`; "ended for another
     cause" is decided differentially: the same keys/actions on an instance with a larger limit end at the same step
"""
import numpy as np

from harness import core, specenc
from harness import rollout as R

PROPS = ["C01", "C03", "C10", "C11"]
CONSTANT_RESET = {"pac_man", "sokoban"}   # reset instance does not (or hardly) depend on the key by design
HORIZON = {  # structural horizons of environments without a time limit (C11, second sentence)
    "knapsack": lambda env: env.num_items,
    "tsp": lambda env: env.num_cities,
    "cvrp": lambda env: 2 * env.num_nodes,
    "multi_cvrp": lambda env: 2 * env._num_customers + 1,
    "bin_pack": lambda env: env.generator.max_num_items,
    "flat_pack": lambda env: env.num_blocks,
    "graph_coloring": lambda env: env.num_nodes,
    "sudoku": lambda env: 81,
    "minesweeper": lambda env: env.num_rows * env.num_cols - env.num_mines + 1,
    "job_shop": lambda env: env.num_jobs * env.max_num_ops * env.max_op_duration,
}


def analyze(kit):
    import jax
    name = kit.name
    r01, r03, r11 = kit.res["C01"], kit.res["C03"], kit.res["C11"]
    calls, metas = [], []
    key_dep = []
    for cfg in kit.configs():
        n_calls = len(calls)
        try:
            env = kit.env(cfg)
            e_obs, e_rew, e_dis, e_act = (specenc.enc_spec(s) for s in (env.observation_spec, env.reward_spec, env.discount_spec, env.action_spec))
            k = int(np.prod(env.reward_spec.shape)) if env.reward_spec.shape else 1
            # generate_value of the action spec: member + accepted by step
            gv = env.action_spec.generate_value()
            calls.append(("spec_validate_io", e_act + specenc.enc_value(gv)))
            metas.append(("C01", "validate", dict(env=name, cfg=cfg["label"], what="action_spec.generate_value()", field="action")))
            r01.count("generate_value-checked")
            try:
                s0, _ = jax.jit(env.reset)(jax.random.PRNGKey(kit.seed))
                jax.jit(env.step)(s0, gv)
                r01.evaluations += 1
            except Exception as e:
                kit.fail(["C01"], "step rejects action_spec.generate_value()", dict(cfg=cfg["label"], op="gen-accepted"), dict(err=repr(e)[:300]))
            # ---- C10 (last sentence): random generators genuinely depend on the key.  Tiny grids can have a single possible
            # instance, so the verdict is per ENVIRONMENT: some catalogued configuration must show two different instances.
            if name not in CONSTANT_RESET and not any(w in cfg["label"] for w in ("toy", "dummy", "csv")):
                import hashlib
                import jax as _jax
                _, st0, _, _, _, _ = kit.roll(cfg, 0.0)
                seen = set()
                for b in range(np.asarray(st0.key).shape[0]):
                    h = hashlib.sha1()
                    s_b = R.slice_tree(st0, b, 0)
                    for path, leaf in _jax.tree_util.tree_flatten_with_path(s_b)[0]:
                        if "key" in _jax.tree_util.keystr(path):
                            continue
                        h.update(np.asarray(leaf).tobytes())
                    seen.add(h.hexdigest())
                key_dep.append((cfg["label"], len(seen)))
                kit.res["C10"].count("key-dependence:%s" % ("one-instance" if len(seen) < 2 else "several-instances"))
            for p in (0.0, 0.35):
                roll = kit.roll(cfg, p)
                _, st, ts, ac, fl, k0 = roll
                B, T1 = ts.step_type.shape[:2]
                r01.traces += B
                r03.traces += B
                r11.traces += B
                for b in range(B):
                    end = min(T1 - 1, fl[b])
                    kinds = set()
                    for t in range(T1):
                        tsb = R.slice_tree(ts, b, t)
                        ty = int(tsb.step_type)
                        rew = np.asarray(tsb.reward, np.float64).reshape(-1)
                        dis = np.asarray(tsb.discount, np.float64).reshape(-1)
                        # ---- C03 on every step, also after LAST
                        bad_d = [x for x in dis if x not in (0.0, 1.0)]
                        dcode = [int(x) if x in (0.0, 1.0) else 7 for x in dis]
                        rcode = [0 if x == 0 else 1 for x in rew]
                        trunc_ok = int(name == "lbf" and cfg["time_limit"] is not None and int(getattr(R.slice_tree(st, b, t), "step_count", 0)) >= cfg["time_limit"])
                        calls.append(("proto_check_io", [k, int(t == 0), trunc_ok, ty] + rcode + dcode))
                        metas.append(("C03", "proto", dict(env=name, cfg=cfg["label"], p=p, b=b, t=t, step_type=ty, discount=dis.tolist(), after_last=bool(t > fl[b]))))
                        r03.count("step_type:%d%s" % (ty, ":after-last" if t > fl[b] else ""))
                        # ---- C01 up to and including the first LAST
                        if t <= end or (t == fl[b]):
                            calls.append(("spec_validate_io", e_obs + specenc.enc_value(tsb.observation)))
                            metas.append(("C01", "validate", dict(env=name, cfg=cfg["label"], p=p, b=b, t=t, step_type=ty, field="observation")))
                            calls.append(("spec_validate_io", e_rew + specenc.enc_value(tsb.reward)))
                            metas.append(("C01", "validate", dict(env=name, cfg=cfg["label"], p=p, b=b, t=t, step_type=ty, field="reward")))
                            calls.append(("spec_validate_io", e_dis + specenc.enc_value(tsb.discount)))
                            metas.append(("C01", "validate", dict(env=name, cfg=cfg["label"], p=p, b=b, t=t, step_type=ty, field="discount")))
                            kinds.add(ty)
                            r01.count("validated:step_type:%d" % ty)
                    r01.distinct.add((name, cfg["label"], p, b))
                    r03.distinct.add((name, cfg["label"], p, b))
                if len(r01.samples) < 2:
                    r01.samples.append(dict(env=name, cfg=cfg["label"], p=p, first_last=fl.tolist(), steps=T1 - 1))
                    r03.samples.append(dict(env=name, cfg=cfg["label"], p=p, step_types=np.asarray(ts.step_type[0]).tolist()))
                # ---- C11
                T = cfg["time_limit"]
                if T is not None:
                    other = _other_cause(kit, cfg, p, roll)
                    for b in range(B):
                        types = [int(x) for x in np.asarray(ts.step_type[b, 1:])]
                        n = min(len(types), int(fl[b]) if fl[b] < T1 else len(types))
                        calls.append(("limit_check_io", [T, n] + types[:n] + [int(x) for x in other[b][:n]]))
                        metas.append(("C11", "limit", dict(env=name, cfg=cfg["label"], p=p, b=b, time_limit=T, first_last=int(fl[b]), other=[int(x) for x in other[b][:n]][-3:])))
                        r11.distinct.add((name, cfg["label"], p, b))
                        r11.count("ends:%s" % ("at-limit" if fl[b] == T else "before-limit" if fl[b] < T else "never"))
                    if len(r11.samples) < 3:
                        r11.samples.append(dict(env=name, cfg=cfg["label"], time_limit=T, first_last=fl.tolist()))
                elif name in HORIZON:
                    H = int(HORIZON[name](env))
                    for b in range(B):
                        r11.evaluations += 1
                        r11.distinct.add((name, cfg["label"], p, b))
                        if fl[b] > H and T1 - 1 >= H:
                            kit.fail(["C11"], "episode still running after its structural horizon", dict(cfg=cfg["label"], op="horizon"),
                                     dict(horizon=H, first_last=int(fl[b]), p=p, b=b, seed=kit.seed))
                    r11.count("horizon-checked", B)
        except Exception:
            # one configuration that raises (e.g. reset rejects it) is reported for THAT configuration; the others are still analysed
            import traceback as _tb
            del calls[n_calls:], metas[n_calls:]
            for p_ in PROPS:
                kit.res[p_].fail("%s: reset / step / rollout raised on configuration %s" % (name, cfg["label"]),
                                 dict(env=name, cfg=cfg["label"], op="config-raised"), dict(trace=_tb.format_exc()[-1500:], seed=kit.seed))
    if key_dep:
        kit.res["C10"].evaluations += 1
        kit.res["C10"].distinct.add((name, "key-dependence"))
        if all(n < 2 for _, n in key_dep):
            kit.fail(["C10"], "%s: every reset key gives the same instance in every configuration (generator ignores its key)" % name,
                     dict(cfg="*", op="key-dependence"), dict(configs=key_dep, seed=kit.seed))
    outs = kit.model(calls)
    for (entry, args), (pid, kind, m), got in zip(calls, metas, outs):
        r = kit.res[pid]
        r.evaluations += 1
        if kind == "validate":
            if got[0] != 1:
                detail = _real_validate(kit, m)
                kit.fail([pid], "%s: emitted %s does not conform to the declared spec (step_type %s)" % (name, m.get("field"), m.get("step_type")),
                         dict(cfg=m["cfg"], op="validate", field=m.get("field"), step_type=m.get("step_type"), leaf=detail.get("leaf")),
                         dict(m, seed=kit.seed, real_validate=detail))
        elif got != [1]:
            what = name + ": " + {"proto": "timestep violates the FIRST/MID*/LAST protocol or discount sanity",
                                  "limit": "episode does not end exactly at its time limit"}[kind]
            kit.fail([pid], what, dict(cfg=m["cfg"], op=kind), dict(m, seed=kit.seed))


def _real_validate(kit, m):
    """re-run the REAL validate on the offending timestep to name the leaf and keep the message"""
    try:
        cfg = [c for c in kit.configs() if c["label"] == m["cfg"]][0]
        env = kit.env(cfg)
        if "b" not in m:
            return dict(leaf="action")
        _, st, ts, ac, fl, k0 = kit.roll(cfg, m["p"])
        tsb = R.slice_tree(ts, m["b"], m["t"])
        spec = {"observation": env.observation_spec, "reward": env.reward_spec, "discount": env.discount_spec}[m["field"]]
        val = getattr(tsb, m["field"])
        try:
            spec.validate(val)
            return dict(leaf="?", msg="real validate ACCEPTS this value: model/implementation disagreement on validate")
        except Exception as e:
            msg = str(e)
            import re
            mm = re.search(r"for spec (\w+)", msg)
            return dict(leaf=mm.group(1) if mm else "?", msg=msg[:400])
    except Exception as e:
        return dict(leaf="?", msg="could not re-validate: %r" % (e,))


def _other_cause(kit, cfg, p, roll):
    """other[b][i] = 1 iff the same episode (same reset key, same actions) on an instance whose time limit is
    larger ALSO ends at step i+1: then the limit was not what ended it."""
    import jax
    import jax.numpy as jnp
    env, st, ts, ac, fl, k0 = roll
    B, T = ac.shape[0], ac.shape[1]
    other = np.zeros((B, T), dtype=int)
    mk = cfg["tags"].get("mk")
    if mk is None or (fl >= cfg["time_limit"]).all():
        return other
    big = mk(cfg["time_limit"] + T + 5)

    def one(key, acts):
        s, t0 = big.reset(key)

        def body(s, a):
            s2, t2 = big.step(s, a)
            return s2, t2.step_type
        _, types = jax.lax.scan(body, s, acts)
        return types
    types = np.asarray(jax.jit(jax.vmap(one))(jnp.asarray(k0), jnp.asarray(ac)))
    for b in range(B):
        w = np.where(types[b] == 2)[0]
        if len(w) and w[0] + 1 == fl[b]:
            other[b][w[0]] = 1
    return other
