"""Writes MANIFEST.json from the table below (run after adding a property check)."""
import json
import os

VERIF = os.path.dirname(os.path.dirname(os.path.abspath(__file__)))
TB = ("Coq 8.16.1 kernel (full .vo build, vm_compute for finite sweeps/witnesses, no native_compute); "
      "extraction with ExtrOcamlBasic only + driver.ml; Python harness encoders; JAX/NumPy primitives are modelled "
      "(Base/JaxIndex.v) and tied by correspondence; PRNG is an oracle. Theorems closed under the global context unless "
      "the evidence lists an axiom.")
CLAIMED = {
    "C19": dict(
        text="Theorems for every pytree (any structure, leaf shapes, batch size, index): slice(transpose ts) i = ts[i], "
             "add_element changes index i only, structure/dtype/shape preserved, equality helper reflexive (no NaN)/symmetric/exact, "
             "assert-different iff equal. Model (Base/Tree.v) is hand-written and tied to jumanji.tree_utils / testing.pytrees by "
             "differential correspondence through the extracted model on random nests and real environment states.",
        ref="DESIGN.md §5 C19", tech="Coq proof (induction over leaf lists) + extracted-model correspondence"),
}
CLAIMED["C16"] = dict(
    text="Theorems over arbitrary (nested) specs, shapes, dtypes, scalar/per-element broadcast bounds: generate_value is valid; "
         "validate accepts exactly shape+dtype+inclusive IEEE bounds; == is reflexive/symmetric/transitive per kind and discriminates "
         "shape, dtype, bounds, num_values, name; replace changes only the named attribute; pickle round trip; valid => member of the "
         "converted gym space / dm_env spec; gym samples of the spec's dtype are valid. Model Base/Spec.v mirrors specs.py as written "
         "and is tied by correspondence on random specs x boundary values x every method and on every environment's real specs.",
    ref="DESIGN.md §5 C16", tech="Coq proof (induction on nested spec trees) + extracted-model correspondence")
_ENV_NOTE = TB + " Per-environment theorems exist for the environments listed in the evidence under theorem_files; the others are covered by the generic verified checkers and listed under coverage.not_yet_modelled."
CLAIMED["C01"] = dict(
    text="Every timestep emitted by every catalogued configuration of all 23 environments (reset, every step, terminal step) is validated "
         "against the environment's REAL specs by the extracted Coq `validate` (proved exact in C16); action_spec.generate_value() is a "
         "member and is accepted by step. Per-environment invariant theorems bound the observed fields where a model exists.",
    ref="DESIGN.md §5 C01", tech="Coq-verified validate run on implementation timesteps + per-env invariant proofs", note=_ENV_NOTE)
CLAIMED["C03"] = dict(
    text="Protocol predicates first_ok/step_ok (Base/TimeStep.v) are evaluated by the extracted model on every timestep of every rollout of "
         "all 23 environments, including steps after LAST; for modelled environments the model's step is built from restart/transition/"
         "termination/truncation and satisfies them by proof.",
    ref="DESIGN.md §5 C03", tech="Coq-verified protocol checker on implementation traces + constructor lemmas", note=_ENV_NOTE)
CLAIMED["C04"] = dict(
    text="Per environment: theorem mask = legal for every state satisfying the reachable invariant and every action (GraphColoring so far, "
         "more as models land), model tied to the code by replaying every transition in the extracted model; verified legal_b evaluated on "
         "implementation states for every action.",
    ref="DESIGN.md §5 C04", tech="Coq proof (invariant + mask_iff_legal) + extracted-model correspondence", note=_ENV_NOTE)
CLAIMED["C05"] = dict(
    text="Per environment: theorem that an illegal action has exactly the documented effect; tied by correspondence on rollouts that inject "
         "illegal actions (35% uniform policy, all actions of small spaces).",
    ref="DESIGN.md §5 C05", tech="Coq proof + extracted-model correspondence with illegal-action injection", note=_ENV_NOTE)
CLAIMED["C06"] = dict(
    text="Per environment: feasibility invariant preserved by every legal step (proved), Feasible_b evaluated on implementation states "
         "under mask-respecting play.",
    ref="DESIGN.md §5 C06", tech="Coq invariant proof + verified checker on implementation states", note=_ENV_NOTE)
CLAIMED["C08"] = dict(
    text="Per environment: telescoping theorem over whole episodes (return = objective of the final state) proved over exact integers/rationals; "
         "returns of real episodes recomputed from final states.",
    ref="DESIGN.md §5 C08", tech="Coq proof by induction over episodes + return recomputation on implementation episodes", note=_ENV_NOTE)
CLAIMED["C09"] = dict(
    text="The Impl model of each modelled environment predicts every transition (state, reward, step type) of the real environment on all "
         "catalogued configurations; theorems characterise the Impl model by the declarative rules.",
    ref="DESIGN.md §5 C09", tech="extracted-model correspondence (every transition) + refinement theorems", note=_ENV_NOTE)
CLAIMED["C10"] = dict(
    text="Generators modelled over explicit draws; well-formedness proved for every draw; verified checkers on every reset state of the rollouts.",
    ref="DESIGN.md §5 C10", tech="Coq proof over all draws + verified checker on reset states", note=_ENV_NOTE)
CLAIMED["C11"] = dict(
    text="Extracted limit_ok decides, for every episode of every time-limited configuration (limits 1,2,3,7,default,None), that the first LAST is "
         "exactly at the limit unless the same keys/actions on an instance with a larger limit end at the same step (other cause); structural "
         "horizons checked for the others; horizon/time-limit theorems per modelled environment.",
    ref="DESIGN.md §5 C11", tech="Coq-verified limit checker + differential other-cause oracle + horizon theorems", note=_ENV_NOTE)
CLAIMED["C12"] = dict(
    text="Observation = documented view of the state: proved per modelled environment, compared field by field on every transition.",
    ref="DESIGN.md §5 C12", tech="Coq proof + field-wise correspondence of observations", note=_ENV_NOTE)
PENDING_REASON = "check under construction in this round (machinery for it is not committed yet)"


def main():
    props = [json.loads(l) for l in open(os.path.join(VERIF, "properties.jsonl"))]
    checks, na = [], []
    for p in props:
        pid = p["id"]
        if pid in CLAIMED:
            c = CLAIMED[pid]
            checks.append(dict(
                property_id=pid, quick_cmd="./check %s --tier quick" % pid,
                thorough_cmd="./check %s --tier thorough" % pid,
                evidence_file="evidence/%s.json" % pid,
                replay_cmd_template="./check %s --replay {path}" % pid,
                engine="coq-model+correspondence",
                level_claimed=dict(category=c.get("cat", "proof"), text=c["text"], design_ref=c["ref"]),
                level_note=c.get("note", TB), technique=c["tech"]))
        else:
            na.append(dict(property_id=pid, reason=PENDING_REASON))
    m = dict(version=1,
             setup_cmd="./check --warm quick",
             hooks=dict(guard="JUMANJI_VERIF", enable="no source hooks: checks observe /repo through its public API (JUMANJI_VERIF=1 is exported but unused)",
                        baseline_off_cmd="cd /repo && /venv/bin/python -m pytest -ra -q -p no:cacheprovider --timeout=900 --continue-on-collection-errors",
                        source_commits=[], add_only=True),
             engines=[dict(name="coq-model+correspondence", path="coq/ harness/",
                           serves_properties=sorted(CLAIMED),
                           kind_free_text="Coq 8.16 models + theorems; tie by regenerated Gen/*.v (translators/value dumps) and by "
                                          "differential correspondence through the extracted OCaml model")],
             checks=checks, not_applicable=na,
             notes="See DESIGN.md. known_findings.json lists recorded/fixed defects.")
    json.dump(m, open(os.path.join(VERIF, "MANIFEST.json"), "w"), indent=1)
    print("claimed:", sorted(CLAIMED), "pending:", [x["property_id"] for x in na])


if __name__ == "__main__":
    main()
