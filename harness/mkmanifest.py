"""Writes MANIFEST.json from the table below (run after adding a property check)."""
import json
import os

VERIF = os.path.dirname(os.path.dirname(os.path.abspath(__file__)))
TB = ("Coq 8.16.1 kernel (full .vo build, vm_compute for finite sweeps/witnesses, no native_compute); "
      "extraction with ExtrOcamlBasic only + driver.ml; Python harness encoders; JAX/NumPy primitives are modelled "
      "(Base/JaxIndex.v) and tied by correspondence; PRNG is an oracle. Theorems closed under the global context unless "
      "the evidence lists an axiom.")
CLAIMED = {
    "C19": dict(
        text="Theorems for every pytree (any structure, leaf shapes, batch size, index): slice(transpose ts) i = ts[i], "
             "add_element changes index i only, structure/dtype/shape preserved, equality helper reflexive (no NaN)/symmetric/exact, "
             "assert-different iff equal. Model (Base/Tree.v) is hand-written and tied to jumanji.tree_utils / testing.pytrees by "
             "differential correspondence through the extracted model on random nests and real environment states.",
        ref="DESIGN.md §5 C19", tech="Coq proof (induction over leaf lists) + extracted-model correspondence"),
}
CLAIMED["C16"] = dict(
    text="Theorems over arbitrary (nested) specs, shapes, dtypes, scalar/per-element broadcast bounds: generate_value is valid; "
         "validate accepts exactly shape+dtype+inclusive IEEE bounds; == is reflexive/symmetric/transitive per kind and discriminates "
         "shape, dtype, bounds, num_values, name; replace changes only the named attribute; pickle round trip; valid => member of the "
         "converted gym space / dm_env spec; gym samples of the spec's dtype are valid. Model Base/Spec.v mirrors specs.py as written "
         "and is tied by correspondence on random specs x boundary values x every method and on every environment's real specs.",
    ref="DESIGN.md §5 C16", tech="Coq proof (induction on nested spec trees) + extracted-model correspondence")
PENDING_REASON = "check under construction in this round (machinery for it is not committed yet)"


def main():
    props = [json.loads(l) for l in open(os.path.join(VERIF, "properties.jsonl"))]
    checks, na = [], []
    for p in props:
        pid = p["id"]
        if pid in CLAIMED:
            c = CLAIMED[pid]
            checks.append(dict(
                property_id=pid, quick_cmd="./check %s --tier quick" % pid,
                thorough_cmd="./check %s --tier thorough" % pid,
                evidence_file="evidence/%s.json" % pid,
                replay_cmd_template="./check %s --replay {path}" % pid,
                engine="coq-model+correspondence",
                level_claimed=dict(category=c.get("cat", "proof"), text=c["text"], design_ref=c["ref"]),
                level_note=c.get("note", TB), technique=c["tech"]))
        else:
            na.append(dict(property_id=pid, reason=PENDING_REASON))
    m = dict(version=1,
             setup_cmd="./check --warm quick",
             hooks=dict(guard="JUMANJI_VERIF", enable="no source hooks: checks observe /repo through its public API (JUMANJI_VERIF=1 is exported but unused)",
                        baseline_off_cmd="cd /repo && /venv/bin/python -m pytest -ra -q -p no:cacheprovider --timeout=900 --continue-on-collection-errors",
                        source_commits=[], add_only=True),
             engines=[dict(name="coq-model+correspondence", path="coq/ harness/",
                           serves_properties=sorted(CLAIMED),
                           kind_free_text="Coq 8.16 models + theorems; tie by regenerated Gen/*.v (translators/value dumps) and by "
                                          "differential correspondence through the extracted OCaml model")],
             checks=checks, not_applicable=na,
             notes="See DESIGN.md. known_findings.json lists recorded/fixed defects.")
    json.dump(m, open(os.path.join(VERIF, "MANIFEST.json"), "w"), indent=1)
    print("claimed:", sorted(CLAIMED), "pending:", [x["property_id"] for x in na])


if __name__ == "__main__":
    main()
