"""Writes MANIFEST.json from the table below (run after adding a property check)."""
import json
import os

VERIF = os.path.dirname(os.path.dirname(os.path.abspath(__file__)))
TB = ("Coq 8.16.1 kernel (full .vo build, vm_compute for finite sweeps/witnesses, no native_compute); "
      "extraction with ExtrOcamlBasic only + driver.ml; Python harness encoders; JAX/NumPy primitives are modelled "
      "(Base/JaxIndex.v) and tied by correspondence; PRNG is an oracle. Theorems closed under the global context unless "
      "the evidence lists an axiom. Source translators (harness/translators/*_src.py, time_limit.py, rubik_tables.py) are trusted to "
      "transcribe the syntax they recognise and for the meaning they give to the JAX/Python constructs that occur (stated in the header "
      "of each generated file and in DESIGN.md 8); they fail closed.")
CLAIMED = {
    "C19": dict(
        text="Theorems for every pytree (any structure, leaf shapes, batch size, index): slice(transpose ts) i = ts[i], "
             "add_element changes index i only, structure/dtype/shape preserved, equality helper reflexive (no NaN)/symmetric/exact, "
             "assert-different iff equal. Model (Base/Tree.v) is hand-written and tied to jumanji.tree_utils / testing.pytrees by "
             "differential correspondence through the extracted model on random nests and real environment states. The three tree_utils helpers and is_equal_pytree / the two assertions are ALSO translated from the source on every run (Gen/TreeSrc.v) and proved equal to the model; the round-trip laws are restated on the translated code (C19_Source.v).",
        ref="DESIGN.md §5 C19", tech="source translation (Python ast -> Gallina, regenerated every run) + Coq proof (induction over leaf lists) + extracted-model correspondence"),
}
CLAIMED["C16"] = dict(
    text="Theorems over arbitrary (nested) specs, shapes, dtypes, scalar/per-element broadcast bounds: generate_value is valid; "
         "validate accepts exactly shape+dtype+inclusive IEEE bounds; == is reflexive/symmetric/transitive per kind and discriminates "
         "shape, dtype, bounds, num_values, name; replace changes only the named attribute; pickle round trip; valid => member of the "
         "converted gym space / dm_env spec; gym samples of the spec's dtype are valid. Model Base/Spec.v mirrors specs.py as written "
         "and is tied by correspondence on random specs x boundary values x every method and on every environment's real specs.",
    ref="DESIGN.md §5 C16", tech="Coq proof (induction on nested spec trees) + extracted-model correspondence")
_ENV_NOTE = TB + " Per-environment theorems exist for all 23 environments (the evidence lists the theorem_files compiled in that run; tools/coverage.py prints the matrix; cells marked p/r in DESIGN.md 6.1 contain a _partial / _refuted theorem, each explained in DESIGN.md 11). The extracted driver is cross-checked inside Coq on sampled records in every run (coverage.extraction_crosscheck)."
CLAIMED["C01"] = dict(
    text="Every timestep emitted by every catalogued configuration of all 23 environments (reset, every step, terminal step) is validated "
         "against the environment's REAL specs by the extracted Coq `validate` (proved exact in C16); action_spec.generate_value() is a "
         "member and is accepted by step. Per-environment invariant theorems bound the observed fields where a model exists.",
    ref="DESIGN.md §5 C01", tech="Coq-verified validate run on implementation timesteps + per-env invariant proofs", note=_ENV_NOTE)
CLAIMED["C03"] = dict(
    text="Protocol predicates first_ok/step_ok (Base/TimeStep.v) are evaluated by the extracted model on every timestep of every rollout of "
         "all 23 environments, including steps after LAST; for modelled environments the model's step is built from restart/transition/"
         "termination/truncation and satisfies them by proof. jumanji/types.py (StepType, first/mid/last, restart/transition/termination/truncation) is translated from the source on every run (Gen/TimeStepSrc.v) and proved to be the model's constructors (C03_Source.v).",
    ref="DESIGN.md §5 C03", tech="source translation of types.py and of the step of eleven environments + Coq-verified protocol checker on implementation traces + constructor lemmas", note=_ENV_NOTE)
CLAIMED["C04"] = dict(
    text="Per environment (all 21 environments with a mask): theorem mask = legal for every state satisfying the reachable invariant and every action "
         "(invariant proved at reset and preserved by steps), model tied to the code by replaying every transition in the extracted model; verified "
         "legal_b evaluated on implementation states; every action of small spaces tried on the real environment (its own reaction). Maze, SlidingTilePuzzle, Snake, GraphColoring, Cleaner, Knapsack, TSP, CVRP: the mask function is translated from the source on every run and the mask theorem is restated on the translated code (C04_<Env>_Source.v).",
    ref="DESIGN.md §5 C04", tech="Coq proof (invariant + mask_iff_legal) + extracted-model correspondence", note=_ENV_NOTE)
CLAIMED["C05"] = dict(
    text="Per environment: theorem that an illegal action has exactly the documented effect; tied by correspondence on rollouts that inject "
         "illegal actions (35% uniform policy, all actions of small spaces).",
    ref="DESIGN.md §5 C05", tech="Coq proof + extracted-model correspondence with illegal-action injection", note=_ENV_NOTE)
CLAIMED["C06"] = dict(
    text="Per environment: feasibility invariant preserved by every legal step (proved), Feasible_b evaluated on implementation states "
         "under mask-respecting play.",
    ref="DESIGN.md §5 C06", tech="Coq invariant proof + verified checker on implementation states", note=_ENV_NOTE)
CLAIMED["C08"] = dict(
    text="Per environment: telescoping theorem over whole episodes (return = objective of the final state) proved over exact integers/rationals; "
         "returns of real episodes recomputed from final states.",
    ref="DESIGN.md §5 C08", tech="Coq proof by induction over episodes + return recomputation on implementation episodes", note=_ENV_NOTE)
CLAIMED["C09"] = dict(
    text="The Impl model of each modelled environment predicts every transition (state, reward, step type) of the real environment on all "
         "catalogued configurations; theorems characterise the Impl model by the declarative rules. For Maze, SlidingTilePuzzle, Snake, GraphColoring, Sokoban, Cleaner and Knapsack the WHOLE step, and for TSP and CVRP the state part of the step with the observation (reward function as a parameter), (and mask / reward functions / reset where they are deterministic) is translated from the source on every run (Gen/MazeSrc.v, SlidingTileSrc.v, SnakeSrc.v, GraphColoringSrc.v, SokobanSrc.v, CleanerSrc.v, KnapsackSrc.v) and proved equal to the hand model, so their theorems hold of the code as written (C09_<Env>_Source.v).",
    ref="DESIGN.md §5 C09", tech="source translation of eleven environments + extracted-model correspondence (every transition) + refinement theorems", note=_ENV_NOTE)
CLAIMED["C10"] = dict(
    text="Generators modelled over explicit draws; well-formedness proved for every draw; verified checkers on every reset state of the rollouts.",
    ref="DESIGN.md §5 C10", tech="Coq proof over all draws + verified checker on reset states", note=_ENV_NOTE)
CLAIMED["C11"] = dict(
    text="Extracted limit_ok decides, for every episode of every time-limited configuration (limits 1,2,3,7,default,None), that the first LAST is "
         "exactly at the limit unless the same keys/actions on an instance with a larger limit end at the same step (other cause); structural "
         "horizons checked for the others; horizon/time-limit theorems per modelled environment. The time-limit wiring of the 12 environments with a time_limit argument (default, `self.time_limit = ...` with Python or/None semantics, the comparison ending the episode) and the MultiCVRP / FlatPack horizon comparisons are translated from the source on every run (Gen/TimeLimitSrc.v); C11_Wiring.v proves, for every limit value, that an explicit limit is the one used, the documented defaults, the `>=` test, and equality with the hand models' wiring.",
    ref="DESIGN.md §5 C11", tech="source translation of the limit wiring (all values of the limit) + Coq-verified limit checker + differential other-cause oracle + horizon theorems", note=_ENV_NOTE)
CLAIMED["C12"] = dict(
    text="Observation = documented view of the state: proved per modelled environment, compared field by field on every transition. Maze: `_observation_from_state` translated from the source on every run (C12_Maze_Source.v).",
    ref="DESIGN.md §5 C12", tech="Coq proof + field-wise correspondence of observations", note=_ENV_NOTE)

CLAIMED["C02"] = dict(
    cat="translation_validation",
    text="A Gallina step is a function, so purity and vmap=map / scan=fold hold by construction in the model and would be vacuous theorems; what the "
         "property is about (hidden Python state, argument mutation, divergence between op-by-op and traced execution) lives in the runtime. "
         "Decided by translation validation: the jitted reference result per (state, action) — the mode every extracted Coq model is compared "
         "with — against eager, repeated, after unrelated calls, on a fresh instance, under vmap B=1/2/7 and scan L=1/5/T, for all 23 environments; "
         "arguments snapshotted before / compared after; traced programs have no effects or callbacks.",
    ref="DESIGN.md §5 C02", tech="translation validation: 7 execution modes against the jitted reference tied to the Coq models",
    note=TB + " Float leaves compared within 1e-5 relative (XLA may fuse differently per program), integer/bool leaves exactly. Runtime behaviour no model can exhibit (tracer leaks, XLA miscompilation) is outside any theorem.")
CLAIMED["C07"] = dict(
    text="Per grid/game environment: a Physical invariant proved at reset and preserved by EVERY in-spec action (legal or not), conserved quantities "
         "as theorems (2048 tile sum, Minesweeper mine set, Snake chain, Cleaner monotone cells, Tetris cell count ...); the verified Physical_b "
         "checkers are evaluated on the implementation's own states under random and mask-violating play.",
    ref="DESIGN.md §5 C07", tech="Coq invariant proof over all actions + verified checker on implementation states", note=_ENV_NOTE)
CLAIMED["C13"] = dict(
    text="Theorems for EVERY environment (the wrapper model is parametric in state/observation/action types, reset, step, state.key): non-LAST steps "
         "are relayed unchanged; a LAST step returns reset(left half of split(terminal state.key)) with the terminal step's type/reward/discount/extras; "
         "next_obs holds the true successor observation of every step; successive reset keys are pairwise distinct under the key discipline. Tied to "
         "wrappers.py by running the REAL wrapper on all 23 environments against the extracted model instantiated with tables of the native "
         "environment's behaviour (decoy keys included). AutoResetWrapper (and add_obs_to_extras) is ALSO translated from the source of wrappers.py on every run (Gen/WrappersSrc.v) and proved equal to the model for every environment; the central theorems are restated on the translated code (C13_Source.v).",
    ref="DESIGN.md §5 C13", tech="source translation of wrappers.py (regenerated every run) + Coq proof generic in the environment + table-oracle correspondence of the real wrapper")
CLAIMED["C14"] = dict(
    text="Theorems generic in the environment: VmapWrapper is pointwise the unwrapped environment; VmapAutoResetWrapper = VmapWrapper(AutoResetWrapper) "
         "for every batch and every subset of episodes ending together; both render element 0. jax.vmap/lax.map = map is the modelled semantics, tied "
         "by running both real wrappers and per-instance execution on identical desynchronised batches (none/some/all ending) on all 23 environments "
         "and by the extracted batch model over native tables. VmapWrapper and VmapAutoResetWrapper are ALSO translated from the source on every run (Gen/WrappersSrc.v): C14_Source.v proves the translated classes equal to the model and VmapAutoResetWrapper = map2 of the translated AutoResetWrapper step.",
    ref="DESIGN.md §5 C14", tech="source translation of wrappers.py (regenerated every run) + Coq proof generic in the environment + differential/table-oracle correspondence")
CLAIMED["C15"] = dict(
    text="Adapters modelled as a state machine {key; state} over Seed/Reset/Reset(seed)/Step: gym relay = native run under the documented key schedule, "
         "terminated = zero discount, truncated = LAST, re-seeding reproduces the episode, dm_env first step has no reward/discount, MultiToSingle "
         "changes only reward/discount (all proved generically); valid => member of the converted gym space / dm spec and gym samples valid (C16 "
         "theorems). Tied by driving the real adapters with op histories on all environments against the extracted model over native tables. MultiToSingleWrapper is also translated from the source on every run and proved equal to the model (C15_Source.v); the gym / dm_env adapters are stateful objects and stay hand-modelled.",
    ref="DESIGN.md §5 C15", tech="source translation of MultiToSingleWrapper + Coq proof of the adapter state machine + table-oracle correspondence; gymnasium/dm_env are modelled, not verified")
CLAIMED["C17"] = dict(
    text="RubiksCube: move tables are TRANSLATED from the source on every run (Gen/RubikTables.v); for every cube size and depth every move is a "
         "permutation, cw/acw cancel, half = two quarters, four quarters = identity, is_solved exact, flatten/unflatten inverse, every scrambled or "
         "played cube solvable; equality with the physical layer rotation is proved by kernel computation for n in 2..7. SlidingTile: for every n, "
         "moves are blank swaps or identity, tiles conserved, opposite moves cancel, solved test exact, every reset/played state solvable. Both tied "
         "by correspondence (entire 2x2 / 3x3 sliding state spaces in the thorough tier; all moves and move pairs of cubes 2..7). SlidingTile's `_move_empty_tile` is also translated from the source on every run and the group laws are restated on the translated move (C17_SlidingTile_Source.v).",
    ref="DESIGN.md §5 C17", tech="Coq proof for all sizes over source-translated tables + finite kernel computation for the geometric part + correspondence")
CLAIMED["C18"] = dict(
    text="Theorems over all id strings (ASCII alphabet) and all register/make histories: parse/format round trip, soundness of parse, rejection of "
         "malformed and version-less ids, duplicate registration refused after any history, registry monotone, make = registered entry with kwargs "
         "overridden only by the caller's, unknown id lists the registry. The shipped registry and the regex pattern are dumped by value on every run "
         "and re-checked by the kernel. Tied by differential runs of parse/register/make on a swapped-in fresh registry and by instantiating every "
         "shipped id twice (equal specs and behaviour).",
    ref="DESIGN.md §5 C18", tech="Coq proof + kernel re-check of the dumped shipped registry + extracted-model correspondence",
    note=TB + " Python re/int/dict are modelled; constructors are run, not modelled; Sokoban-v0 needs its dataset (absent offline: recorded, not alarmed).")
PENDING_REASON = "check under construction in this round (machinery for it is not committed yet)"


def main():
    props = [json.loads(l) for l in open(os.path.join(VERIF, "properties.jsonl"))]
    checks, na = [], []
    for p in props:
        pid = p["id"]
        if pid in CLAIMED:
            c = CLAIMED[pid]
            checks.append(dict(
                property_id=pid, quick_cmd="./check %s --tier quick" % pid,
                thorough_cmd="./check %s --tier thorough" % pid,
                evidence_file="evidence/%s.json" % pid,
                replay_cmd_template="./check %s --replay {path}" % pid,
                engine="coq-model+correspondence",
                level_claimed=dict(category=c.get("cat", "proof"), text=c["text"], design_ref=c["ref"]),
                level_note=c.get("note", TB), technique=c["tech"]))
        else:
            na.append(dict(property_id=pid, reason=PENDING_REASON))
    m = dict(version=1,
             setup_cmd="./check --warm quick",
             hooks=dict(guard="JUMANJI_VERIF", enable="no source hooks: checks observe /repo through its public API (JUMANJI_VERIF=1 is exported but unused)",
                        baseline_off_cmd="cd /repo && /venv/bin/python -m pytest -ra -q -p no:cacheprovider --timeout=900 --continue-on-collection-errors",
                        source_commits=[], add_only=True),
             engines=[dict(name="coq-model+correspondence", path="coq/ harness/",
                           serves_properties=sorted(CLAIMED),
                           kind_free_text="Coq 8.16 models + theorems; tie by regenerated Gen/*.v (translators/value dumps) and by "
                                          "differential correspondence through the extracted OCaml model")],
             checks=checks, not_applicable=na,
             notes="See DESIGN.md (0.1 status, 0.2 per-property table, 8 trusted base, 11 log of fixes/findings/false alarms, 12 seeded changes). known_findings.json lists recorded findings and fix commits. VERIF_REPO=<dir> points the checks at another tree; default /repo.")
    json.dump(m, open(os.path.join(VERIF, "MANIFEST.json"), "w"), indent=1)
    print("claimed:", sorted(CLAIMED), "pending:", [x["property_id"] for x in na])


if __name__ == "__main__":
    main()
